LLVM_CXXFLAGS := $(shell llvm-config-14 --cxxflags)
BIN := .work/bin/gsa-extract

tool: $(BIN)

$(BIN): tool/gsa-extract.cc
	mkdir -p .work/bin
	clang++ $(LLVM_CXXFLAGS) -fno-rtti -O1 tool/gsa-extract.cc -o $(BIN) \
	  /usr/lib/llvm-14/lib/libclang-cpp.so.14 /usr/lib/llvm-14/lib/libLLVM-14.so

clean:
	rm -rf .work

.PHONY: tool clean
