// Replay of the C01 finding: KrigingSystem::_bayesPreCalculations subscripts the neighbourhood vector with an absolute
// sample rank.  With masked samples the Bayesian kriging differs from the same kriging on the physically reduced Db.
#include "Db/Db.hpp"
#include "Db/DbGrid.hpp"
#include "Model/Model.hpp"
#include "Neigh/NeighUnique.hpp"
#include "Estimation/CalcKriging.hpp"
#include "Space/ASpaceObject.hpp"
#include "Basic/Law.hpp"
#include "Matrix/MatrixSquareSymmetric.hpp"
#include <iostream>
#include <cmath>
int main() {
  defineDefaultSpace(ESpaceType::RN, 2);
  law_set_random_seed(321);
  Db* data = Db::createFillRandom(20, 2, 1);
  VectorDouble sel(20, 1.); sel[0] = 0.; sel[3] = 0.; sel[7] = 0.;     // three masked samples
  data->addSelection(sel, "sel");
  Db* reduced = Db::createReduce(data);                                  // the same data base physically reduced
  DbGrid* g1 = DbGrid::create({4,4},{0.25,0.25});
  DbGrid* g2 = DbGrid::create({4,4},{0.25,0.25});
  Model* model = new Model();
  model->addCovFromParam(ECov::SPHERICAL, 0.5, 1.);
  model->setDriftIRF(1);
  NeighUnique* nu = NeighUnique::create();
  VectorDouble pm = {0., 0., 0.};
  MatrixSquareSymmetric pc(3); for (int i = 0; i < 3; i++) pc.setValue(i, i, 1.);
  int e1 = kribayes(data, g1, model, nu, pm, pc);
  int e2 = kribayes(reduced, g2, model, nu, pm, pc);
  VectorDouble a = g1->getColumn("*estim"), b = g2->getColumn("*estim");
  double d = 0.; int nan = 0;
  for (int i = 0; i < (int) a.size(); i++) { if (std::isnan(a[i]) || a[i] > 1e29) nan++; else d = std::max(d, std::abs(a[i] - b[i])); }
  std::cout << "errors " << e1 << " " << e2 << " ; max |masked - reduced| = " << d << " ; undefined estimates with the mask: " << nan << std::endl;
  bool bad = d > 1e-8 || nan > 0;
  std::cout << (bad ? "FAIL" : "PASS") << std::endl;
  return bad;
}
