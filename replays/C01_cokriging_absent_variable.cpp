// Replay: cokriging with unknown means in a neighbourhood where one variable has no sample at all returned NaN estimates and a zero
// standard deviation without any message: DriftList::isDriftSampleDefined ignored which equation it was asked about, so the
// unbiasedness equation of the absent variable was kept and left a zero row in the kriging system.
// After the repair the estimate of the variable that HAS samples equals its univariate ordinary kriging.
#include "Db/Db.hpp"
#include "Model/Model.hpp"
#include "Neigh/NeighMoving.hpp"
#include "Estimation/CalcKriging.hpp"
#include <cmath>
#include <cstdio>
#include <random>
#include <array>
int main()
{
  const int n = 10;
  std::mt19937 gen(5);
  std::uniform_real_distribution<double> U(0., 30.);
  std::normal_distribution<double> N(0., 1.);
  VectorDouble tab(4 * n), tab1(3 * n);
  for (int i = 0; i < n; i++)
  {
    double x = U(gen), y = U(gen);
    if (i >= 8) x += 1000.;
    double z = 5. + N(gen);
    tab[i] = x; tab[n + i] = y; tab[2 * n + i] = z;
    tab[3 * n + i] = (i >= 8) ? 1. + N(gen) : TEST;          // z2 only known far away
    tab1[i] = x; tab1[n + i] = y; tab1[2 * n + i] = z;
  }
  Db* data = Db::createFromSamples(n, ELoadBy::COLUMN, tab, {"x", "y", "z1", "z2"}, {"x1", "x2", "z1", "z2"});
  Db* data1 = Db::createFromSamples(n, ELoadBy::COLUMN, tab1, {"x", "y", "z1"}, {"x1", "x2", "z1"});
  Db* target = Db::createFromSamples(1, ELoadBy::COLUMN, {15.2, 14.1}, {"x", "y"}, {"x1", "x2"});
  Db* target1 = Db::createFromSamples(1, ELoadBy::COLUMN, {15.2, 14.1}, {"x", "y"}, {"x1", "x2"});
  Model* m = Model::createFromParam(ECov::SPHERICAL, 40., 1., 1., VectorDouble(), {2., 1., 1., 2.});
  m->setDriftIRF(0);
  Model* m1 = Model::createFromParam(ECov::SPHERICAL, 40., 2.);
  m1->setDriftIRF(0);
  NeighMoving* neigh = NeighMoving::create(false, 20, 100.);
  int err = kriging(data, target, m, neigh);
  int err1 = kriging(data1, target1, m1, neigh);
  double e = target->getValue("Kriging.z1.estim", 0), s = target->getValue("Kriging.z1.stdev", 0);
  double e1 = target1->getValue("Kriging.z1.estim", 0), s1 = target1->getValue("Kriging.z1.stdev", 0);
  printf("cokriging (z2 absent from the neighbourhood): err=%d z1 estim=%g stdev=%g ; univariate kriging of z1: err=%d estim=%g stdev=%g\n", err, e, s, err1, e1, s1);
  bool ok = std::isfinite(e) && std::abs(e - e1) < 1.e-8 && std::abs(s - s1) < 1.e-8;
  printf("%s\n", ok ? "identical" : "DIFFERENT");
  return !ok;
}
