// C01: krigtest() reports the kriging system of one target.  KrigingSystem::getLHSC()/getRHSC() return the COMPRESSED matrices
// (_lhsc, _rhsc), which are filled only when the neighbourhood is heterotopic; for ordinary (isotopic) data the system that was
// solved lives in _lhsf / _rhsf and the reported L.H.S. / R.H.S. are not the documented system [Sigma X; Xt 0], [Sigma0; X0].
// Expected: lhs(i,j) = C(xi - xj) for the data rows, 1 on the drift row/column; rhs(i) = C(xi - x0).
#include "Enum/ESpaceType.hpp"
#include "Enum/ELoc.hpp"
#include "Enum/ECov.hpp"
#include "Db/Db.hpp"
#include "Model/Model.hpp"
#include "Neigh/NeighUnique.hpp"
#include "Estimation/CalcKriging.hpp"
#include "Space/ASpaceObject.hpp"
#include <cstdio>
#include <cmath>

int main()
{
  defineDefaultSpace(ESpaceType::RN, 2);
  Db* dbin = Db::create();
  VectorDouble x = {1., 3., 5., 7.}, y = {1., 5., 2., 6.};
  dbin->addColumns(x, "x", ELoc::X, 0);
  dbin->addColumns(y, "y", ELoc::X, 1);
  dbin->addColumns({1.1, -0.4, 2.3, 0.2}, "z", ELoc::Z, 0);
  Db* dbout = Db::create();
  dbout->addColumns({2.5, 4.}, "x", ELoc::X, 0);
  dbout->addColumns({2.5, 4.}, "y", ELoc::X, 1);
  double range = 6., sill = 2.;
  Model* model = Model::createFromParam(ECov::EXPONENTIAL, range, sill);
  model->setDriftIRF(0);
  NeighUnique* neigh = NeighUnique::create();
  Krigtest_Res r = krigtest(dbin, dbout, model, neigh, 1, EKrigOpt::POINT, VectorInt(), false, false);
  printf("neq=%d nech=%d lhs %dx%d rhs %dx%d\n", r.neq, r.nech, r.lhs.getNRows(), r.lhs.getNCols(), r.rhs.getNRows(), r.rhs.getNCols());
  int bad = 0;
  double scale = range / 2.995732274;   // practical range of the exponential
  int n = 4;
  if (r.lhs.getNRows() < n + 1) { printf("lhs too small\n"); bad++; }
  else
    for (int i = 0; i < n; i++)
      for (int j = 0; j < n; j++)
      {
        double h = std::sqrt((x[i] - x[j]) * (x[i] - x[j]) + (y[i] - y[j]) * (y[i] - y[j]));
        double c = sill * std::exp(-h / scale);
        if (std::fabs(r.lhs.getValue(i, j) - c) > 1e-6) { if (bad < 3) printf("lhs(%d,%d) = %g, C(h) = %g\n", i, j, r.lhs.getValue(i, j), c); bad++; }
      }
  if (r.rhs.getNRows() >= n)
    for (int i = 0; i < n; i++)
    {
      double h = std::sqrt((x[i] - 4.) * (x[i] - 4.) + (y[i] - 4.) * (y[i] - 4.));
      double c = sill * std::exp(-h / scale);
      if (std::fabs(r.rhs.getValue(i, 0) - c) > 1e-6) { if (bad < 6) printf("rhs(%d) = %g, C(h0) = %g\n", i, r.rhs.getValue(i, 0), c); bad++; }
    }
  else { printf("rhs too small\n"); bad++; }
  printf(bad ? "VIOLATED (%d entries)\n" : "HOLDS (%d)\n", bad);
  return bad ? 1 : 0;
}
