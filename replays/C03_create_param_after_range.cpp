// C03 / C03o: CovAniso::createAnisotropic, createIsotropicMulti and createAnisotropicMulti call setRanges(...) BEFORE setParam(...).
// setRanges converts the practical range into the scale with the scale factor of the structure, which depends on its third
// parameter; the parameter is still the default one at that moment.  For a Matern / Stable / Gamma structure with another
// parameter the created structure does not have the requested practical range ("range measured along the ... axes").
#include "Enum/ESpaceType.hpp"
#include "Enum/ECov.hpp"
#include "Covariances/CovAniso.hpp"
#include "Covariances/CovContext.hpp"
#include "Space/ASpaceObject.hpp"
#include <cstdio>
#include <cmath>

int main()
{
  defineDefaultSpace(ESpaceType::RN, 2);
  CovContext ctxt(1, 2);
  int bad = 0;
  for (int flagRange = 1; flagRange >= 0; flagRange--)
  {
    VectorDouble asked = {10., 5.};
    CovAniso* a = CovAniso::createAnisotropic(ctxt, ECov::MATERN, asked, 1., 2.5, VectorDouble(), (bool) flagRange);
    CovAniso* ref = CovAniso::createIsotropic(ctxt, ECov::MATERN, 10., 1., 2.5, (bool) flagRange);   // constructor path
    VectorDouble got = flagRange ? a->getRanges() : a->getScales();
    double r0 = flagRange ? ref->getRange() : ref->getScale();
    printf("%s asked (10,5), param 2.5: createAnisotropic gives (%g,%g); createIsotropic(10) gives %g\n",
           flagRange ? "ranges" : "scales", got[0], got[1], r0);
    if (std::fabs(got[0] - 10.) > 1e-9 || std::fabs(got[1] - 5.) > 1e-9) bad++;
  }
  printf(bad ? "VIOLATED (%d)\n" : "HOLDS (%d)\n", bad);
  return bad ? 1 : 0;
}
