// Replay of the C03 reports.
//  C03d: structures declared valid in R^1 only (triangle, cosine, Storkey, Reg1D) were ACCEPTED in a 2-D model: the test of
//        getMaxNDim() sat in the constructor of the base class ACovFunc, where the virtual call is bound to the base version.
//        Their covariance matrices on 60 random 2-D points have negative eigenvalues (cosine: -16.7, Reg1D: -5.3).
//  C03c: the cardinal sine declared no limit of dimension; it is not positive definite in R^4.
//  C03b: (known finding) the 'Pentamodel' declares R^3 and is not positive definite in R^2 / R^3.
#include "Model/Model.hpp"
#include "Db/Db.hpp"
#include "Space/ASpaceObject.hpp"
#include "Matrix/MatrixSquareSymmetric.hpp"
#include "Basic/Law.hpp"
#include "Basic/AException.hpp"
#include <iostream>
static double minEigen(Model* m, int ndim, int npts) {
  law_set_random_seed(5);
  Db* db = Db::createFillRandom(npts, ndim, 0, 0, 0, 0., 0., VectorDouble(), VectorDouble(ndim, 0.), VectorDouble(ndim, 8.));
  MatrixSquareSymmetric c = m->evalCovMatrixSymmetric(db);
  c.computeEigen();
  double mn = 1e30; for (double e : c.getEigenValues()) mn = std::min(mn, e);
  delete db;
  return mn;
}
static int probe(const ECov& t, int ndim, int npts, bool mustBeRefusedOrValid) {
  defineDefaultSpace(ESpaceType::RN, ndim);
  Model* m = nullptr;
  try { m = Model::createFromParam(t, 1., 1.); } catch (const AException& e) { m = nullptr; } catch (const std::exception& e) { m = nullptr; }
  if (m == nullptr || m->getCovaNumber() == 0) { std::cout << t.getDescr() << " in " << ndim << "-D: refused" << std::endl; return 0; }
  double mn = minEigen(m, ndim, npts);
  std::cout << t.getDescr() << " in " << ndim << "-D: accepted, smallest eigenvalue of a covariance matrix = " << mn << std::endl;
  return (mustBeRefusedOrValid && mn < -1e-8) ? 1 : 0;
}
int main() {
  int bad = 0;
  for (auto t : {ECov::TRIANGLE, ECov::COSINUS, ECov::STORKEY, ECov::REG1D}) bad += probe(t, 2, 60, true);
  bad += probe(ECov::SINCARD, 4, 150, true);
  bad += probe(ECov::SINCARD, 3, 150, true);
  bad += probe(ECov::SPHERICAL, 3, 150, true);
  std::cout << "-- known finding (not counted): ";
  (void) probe(ECov::PENTA, 3, 150, false);
  std::cout << (bad ? "FAIL: a structure is accepted in a dimension where it is not positive definite" : "PASS") << std::endl;
  return bad;
}
