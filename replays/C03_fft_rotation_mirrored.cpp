// C03: the spectral evaluation of a ROTATED anisotropic structure (CovAniso::evalCovFFT -> evalSpectrum -> SpaceRN frequential
// distance -> Tensor::applyDirectSwapInPlace) uses diag(r).R where the Fourier pair of C(h) = c(|diag(1/r) R^-1 h|) needs
// diag(r).R^-1: the covariance rebuilt from the spectrum is the one of the MIRRORED rotation (angle -> -angle).
// The replay calibrates the index -> lag mapping on the unrotated structure, then compares the rotated one with eval(h), eval(mirror h).
#include "Enum/ESpaceType.hpp"
#include "Enum/ECov.hpp"
#include "Covariances/CovAniso.hpp"
#include "Covariances/CovContext.hpp"
#include "Space/ASpaceObject.hpp"
#include "Space/SpacePoint.hpp"
#include "Arrays/Array.hpp"
#include <cstdio>
#include <cmath>

static double closed(const CovAniso* c, double hx, double hy)
{
  SpacePoint p1, p2;
  p1.setCoords({0., 0.});
  p2.setCoords({hx, hy});
  return c->eval(p1, p2, 0, 0);
}

int main()
{
  defineDefaultSpace(ESpaceType::RN, 2);
  CovContext ctxt(1, 2);
  int N = 128;
  VectorDouble hmax = {20., 20.};
  // mapping index -> lag: h = hmax * (2 i / (N-1) - 1) or with N; calibrated on the unrotated structure
  CovAniso* c0 = CovAniso::createAnisotropic(ctxt, ECov::MATERN, {6., 2.}, 1., 1., {0., 0.});
  Array a0 = c0->evalCovFFT(hmax, N);
  double best = 1e30; int bestm = -1;
  for (int m = 0; m < 2; m++)
  {
    double den = (m == 0) ? (N - 1.) : (double) N;
    double err = 0.;
    for (int i = 40; i < 90; i += 7)
      for (int j = 40; j < 90; j += 5)
      {
        double hx = hmax[0] * (2. * i / den - 1.), hy = hmax[1] * (2. * j / den - 1.);
        err = std::fmax(err, std::fabs(a0.getValue({i, j}) - closed(c0, hx, hy)));
      }
    if (err < best) { best = err; bestm = m; }
  }
  printf("calibration on the unrotated structure: mapping %d, largest error %g\n", bestm, best);
  if (best > 0.02) { printf("calibration failed\n"); return 2; }
  double den = (bestm == 0) ? (N - 1.) : (double) N;
  CovAniso* c1 = CovAniso::createAnisotropic(ctxt, ECov::MATERN, {6., 2.}, 1., 1., {30., 0.});
  Array a1 = c1->evalCovFFT(hmax, N);
  double e_dir = 0., e_mir = 0.;
  for (int i = 40; i < 90; i += 7)
    for (int j = 40; j < 90; j += 5)
    {
      double hx = hmax[0] * (2. * i / den - 1.), hy = hmax[1] * (2. * j / den - 1.);
      double v = a1.getValue({i, j});
      e_dir = std::fmax(e_dir, std::fabs(v - closed(c1, hx, hy)));
      e_mir = std::fmax(e_mir, std::fabs(v - closed(c1, hx, -hy)));
    }
  printf("rotated by 30 degrees: largest error against C(h) = %g, against C(mirrored h) = %g\n", e_dir, e_mir);
  bool bad = e_dir > 0.05 && e_mir < 0.02;
  printf(bad ? "VIOLATED: the spectral route gives the covariance of the mirrored rotation\n" : (e_dir <= 0.02 ? "HOLDS\n" : "UNDECIDED\n"));
  return bad ? 1 : 0;
}
