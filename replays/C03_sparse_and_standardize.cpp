// C03: two places where the covariance / sill matrices of a valid bivariate model stop being what the model defines.
//  (a) ACov::evalCovMatrixSparse(db, db, ivar0, jvar0): the matrix of reference values mat0 has one row / column per REQUESTED
//      variable but is subscripted with the variable NUMBERS: for ivar0 = jvar0 = 1 the cell (1,1) is outside the 1x1 matrix, the
//      threshold read back is undefined and every term is dropped - the sparse matrix differs from the dense one.
//  (b) Model::standardize(): the double loop visits (ivar,jvar) and (jvar,ivar); with the symmetric storage each cross sill is
//      divided twice by sqrt(s_ii s_jj): [[.25,.2],[.2,.25]] becomes [[1,3.2],[3.2,1]], which is not positive semi-definite.
#include "Enum/ESpaceType.hpp"
#include "Enum/ELoc.hpp"
#include "Enum/ECov.hpp"
#include "Db/Db.hpp"
#include "Model/Model.hpp"
#include "Matrix/MatrixSparse.hpp"
#include "Matrix/MatrixRectangular.hpp"
#include "Space/ASpaceObject.hpp"
#include <cstdio>
#include <cmath>

int main()
{
  defineDefaultSpace(ESpaceType::RN, 2);
  int bad = 0;
  {
    Db* db = Db::create();
    db->addColumns({1., 3., 5., 7.}, "x", ELoc::X, 0);
    db->addColumns({1., 5., 2., 6.}, "y", ELoc::X, 1);
    db->addColumns({1., 2., 3., 4.}, "z1", ELoc::Z, 0);
    db->addColumns({2., 1., 0., 1.}, "z2", ELoc::Z, 1);
    Model* model = Model::createFromParam(ECov::EXPONENTIAL, 6., 1., 1., VectorDouble(), {2., 0.8, 0.8, 1.});
    for (int iv = 0; iv < 2; iv++)
    {
      MatrixRectangular dense = model->evalCovMatrix(db, db, iv, iv);
      MatrixSparse* sp = model->evalCovMatrixSparse(db, db, iv, iv);
      double dmax = 0.;
      for (int i = 0; i < dense.getNRows(); i++)
        for (int j = 0; j < dense.getNCols(); j++)
          dmax = std::fmax(dmax, std::fabs(dense.getValue(i, j) - sp->getValue(i, j)));
      printf("(a) variable %d: largest difference between the sparse and the dense covariance matrix = %g\n", iv, dmax);
      if (dmax > 1e-9) bad++;
    }
  }
  {
    Model* model = Model::createFromParam(ECov::EXPONENTIAL, 6., 1., 1., VectorDouble(), {0.25, 0.2, 0.2, 0.25});
    model->standardize(false);
    double s00 = model->getSill(0, 0, 0), s01 = model->getSill(0, 0, 1), s11 = model->getSill(0, 1, 1);
    printf("(b) standardised sills: [[%g, %g], [%g, %g]] (expected [[1, 0.8], [0.8, 1]])\n", s00, s01, s01, s11);
    if (std::fabs(s01 - 0.8) > 1e-9 || s00 * s11 - s01 * s01 < 0.) bad++;
  }
  printf(bad ? "VIOLATED (%d)\n" : "HOLDS (%d)\n", bad);
  return bad ? 1 : 0;
}
