// Common helpers for the C05 replay drivers
#pragma once
#include "geoslib_define.h"
#include "geoslib_f.h"
#include "Basic/VectorHelper.hpp"
#include "Basic/Law.hpp"
#include "Basic/NamingConvention.hpp"
#include "Basic/OptDbg.hpp"
#include "Db/Db.hpp"
#include "Db/DbGrid.hpp"
#include "Model/Model.hpp"
#include "Enum/ECov.hpp"
#include "Neigh/NeighUnique.hpp"
#include "Neigh/NeighMoving.hpp"
#include "Neigh/NeighImage.hpp"
#include "Space/ASpaceObject.hpp"
#include <cstdio>
#include <set>
#include <string>
#include <vector>

static inline std::string fmtv(double v)
{
  char buf[64];
  if (FFFF(v)) return "NA(TEST)";
  snprintf(buf, sizeof buf, "%.6g", v);
  return buf;
}

// mask the given ranks of db (selection = 0 there, 1 elsewhere)
static inline void maskRanks(Db* db, const VectorInt& masked, const String& name = "sel")
{
  VectorDouble sel(db->getSampleNumber(), 1.);
  for (int r : masked) sel[r] = 0.;
  db->addSelection(sel, name);
}

// names of columns present now but not in 'before'
static inline VectorString newNames(const Db* db, const VectorString& before)
{
  std::set<std::string> b(before.begin(), before.end());
  VectorString out;
  for (const auto& n : db->getAllNames())
    if (!b.count(n)) out.push_back(n);
  return out;
}

// print new columns at masked targets + one active target, and a verdict
static inline void reportMasked(const char* tag, const Db* db, const VectorString& before,
                                const VectorInt& masked, int activeRef)
{
  VectorString nn = newNames(db, before);
  if (nn.empty()) { printf("[%s] NO NEW COLUMN (call failed?)\n", tag); return; }
  for (const auto& n : nn)
  {
    VectorDouble col = db->getColumn(n, false);
    int nbad = 0;
    std::string s;
    for (int r : masked)
    {
      s += " [" + std::to_string(r) + "]=" + fmtv(col[r]);
      if (!FFFF(col[r])) nbad++;
    }
    printf("[%s] new column '%s': masked targets:%s | active target [%d]=%s  ==> %s\n",
           tag, n.c_str(), s.c_str(), activeRef, fmtv(col[activeRef]).c_str(),
           nbad ? "VIOLATION (masked target not NA)" : "ok (masked targets are NA)");
  }
}
