// Item 1a: CalcImage : krimage / dbMorpho / dbSmoother on a grid with masked nodes
#include "common.hpp"
#include "Estimation/CalcImage.hpp"
#include "Estimation/CalcKriging.hpp"
#include "Simulation/CalcSimuTurningBands.hpp"
#include "Enum/EMorpho.hpp"
#include "Drifts/DriftM.hpp"

int main()
{
  defineDefaultSpace(ESpaceType::RN, 2);
  VectorInt nx = {20, 20};
  VectorInt masked = {0, 37, 210, 399};
  int activeRef = 211;

  Model* model = Model::createFromParam(ECov::SPHERICAL, 6., 1.);
  model->addCovFromParam(ECov::NUGGET, 0., 0.3);

  DbGrid* image = DbGrid::create(nx);
  (void) simtub(nullptr, image, model, nullptr, 1, 4324);
  image->setLocator("Simu", ELoc::Z, 0);

  // ---- krimage
  {
    DbGrid* g = image->clone();
    maskRanks(g, masked);
    Model* mres = model->clone();
    DriftM drift1 = DriftM();
    mres->addDrift(&drift1);
    mres->setCovaFiltered(1, true);
    NeighImage* neighI = NeighImage::create({2, 2}, 2);
    VectorString before = g->getAllNames();
    int err = krimage(g, mres, neighI);
    printf("krimage err=%d\n", err);
    reportMasked("krimage", g, before, masked, activeRef);
    // extra: same call without any mask, and with the masked node 210 set to 1000
    DbGrid* g0 = image->clone();
    (void) krimage(g0, mres, neighI);
    DbGrid* g2 = image->clone();
    g2->setValue("Simu", 210, 1000.);
    maskRanks(g2, masked);
    (void) krimage(g2, mres, neighI);
    for (int r : {0, 37, 210, 211})
      printf("[krimage extra] input Simu[%d]=%s\n", r, fmtv(image->getColumn("Simu", false)[r]).c_str());
    for (int r : {0, 37, 210, 211})
      printf("[krimage extra] node %d : unmasked run=%s ; masked run=%s ; masked run with Simu[210]=1000 -> %s\n", r,
             fmtv(g0->getColumn(g0->getLastName(), false)[r]).c_str(),
             fmtv(g->getColumn(g->getLastName(), false)[r]).c_str(),
             fmtv(g2->getColumn(g2->getLastName(), false)[r]).c_str());
  }

  // ---- dbSmoother
  {
    DbGrid* g = image->clone();
    maskRanks(g, masked);
    NeighImage* neighI = NeighImage::create({2, 2}, 1);
    VectorString before = g->getAllNames();
    int err = dbSmoother(g, neighI, 1, 1.);
    printf("dbSmoother err=%d\n", err);
    reportMasked("dbSmoother", g, before, masked, activeRef);

    // extra (C05a flavour): does the masked node 210 (neighbour of 211) contribute to node 211 ?
    DbGrid* g2 = image->clone();
    VectorDouble z = g2->getColumn("Simu", false);
    g2->setValue("Simu", 210, 1000.); // huge value in the masked node
    maskRanks(g2, masked);
    (void) dbSmoother(g2, neighI, 1, 1.);
    printf("[dbSmoother extra] smoothed value at active node 211 : reference=%s ; with masked neighbour 210 set to 1000 => %s\n",
           fmtv(g->getColumn(g->getLastName(), false)[211]).c_str(),
           fmtv(g2->getColumn(g2->getLastName(), false)[211]).c_str());
  }

  // ---- dbMorpho
  {
    DbGrid* g = image->clone();
    maskRanks(g, masked);
    VectorString before = g->getAllNames();
    int err = dbMorpho(g, EMorpho::THRESH, 0., 10.);
    printf("dbMorpho(THRESH) err=%d\n", err);
    reportMasked("dbMorpho THRESH", g, before, masked, activeRef);
    before = g->getAllNames();
    g->setLocator("Simu", ELoc::Z, 0);
    err = dbMorpho(g, EMorpho::EROSION, 0., 10., 0, {1, 1});
    printf("dbMorpho(EROSION) err=%d\n", err);
    reportMasked("dbMorpho EROSION", g, before, masked, activeRef);
  }

  // ---- comparison: kriging() on the same masked grid
  {
    DbGrid* g = DbGrid::create(nx);
    maskRanks(g, masked);
    Db* data = Db::createFillRandom(30, 2, 1, 0, 0, 0., 0., VectorDouble(), {0., 0.}, {19., 19.}, 1234);
    NeighUnique* neighU = NeighUnique::create();
    VectorString before = g->getAllNames();
    int err = kriging(data, g, model, neighU);
    printf("kriging err=%d\n", err);
    reportMasked("kriging (reference)", g, before, masked, activeRef);
  }
  return 0;
}
