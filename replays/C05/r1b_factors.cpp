// Item 1b: krigingFactors on a grid with masked target nodes
#include "common.hpp"
#include "Estimation/CalcKrigingFactors.hpp"
#include "Estimation/CalcKriging.hpp"
#include "Anamorphosis/AnamHermite.hpp"
#include "Simulation/CalcSimuTurningBands.hpp"
#include <cmath>

int main()
{
  defineDefaultSpace(ESpaceType::RN, 2);
  law_set_random_seed(32131);

  // Data: lognormal transform of a gaussian simulation
  DbGrid* grid = DbGrid::create({50, 50}, {0.02, 0.02});
  Model* model_init = Model::createFromParam(ECov::EXPONENTIAL, 0.1, 1.);
  (void) simtub(nullptr, grid, model_init);
  grid->setName("Simu", "Y");
  VectorDouble Zval = grid->getColumn("Y");
  for (auto& z : Zval) z = 1.5 * exp(0.5 * z - 0.125);
  grid->addColumns(Zval, "Z");
  Db* data = Db::createSamplingDb(grid, 0., 200, {"x1", "x2", "Y", "Z"});
  data->setLocator("Z", ELoc::Z, 0);

  AnamHermite* anam = AnamHermite::create(20);
  anam->fitFromLocator(data);

  Model* model = Model::createFromParam(ECov::EXPONENTIAL, 0.1, 1.);
  model->setAnam(anam);
  int nfactor = 3;
  (void) anam->rawToFactor(data, nfactor);

  NeighMoving* neighM = NeighMoving::create(false, 8, 1., 3);

  DbGrid* blocs = DbGrid::create({5, 5}, {0.05, 0.05}, {0.4, 0.4});
  VectorInt masked = {0, 7, 12, 24};
  int activeRef = 13;
  maskRanks(blocs, masked);

  VectorString before = blocs->getAllNames();
  int err = krigingFactors(data, blocs, model, neighM, EKrigOpt::POINT, VectorInt(), true, true,
                           NamingConvention("DK_Pts"));
  printf("krigingFactors err=%d\n", err);
  reportMasked("krigingFactors", blocs, before, masked, activeRef);

  // comparison : kriging() of the first factor on the same masked grid
  before = blocs->getAllNames();
  data->clearLocators(ELoc::Z);
  data->setLocator("Z", ELoc::Z, 0);
  err = kriging(data, blocs, model_init, neighM);
  printf("kriging err=%d\n", err);
  reportMasked("kriging (reference)", blocs, before, masked, activeRef);
  return 0;
}
