// Item 1c: CalcSimpleInterpolation entry points on a grid with masked target nodes
#include "common.hpp"
#include "Estimation/CalcSimpleInterpolation.hpp"
#include "Estimation/CalcKriging.hpp"

int main()
{
  defineDefaultSpace(ESpaceType::RN, 2);
  VectorInt nx = {10, 10};
  VectorInt masked = {0, 37, 55, 99};
  int activeRef = 56;

  Db* data = Db::createFillRandom(30, 2, 1, 0, 0, 0., 0., VectorDouble(), {0., 0.}, {9., 9.}, 1234);
  Model* model = Model::createFromParam(ECov::SPHERICAL, 6., 1.);
  NeighMoving* neighM = NeighMoving::create(false, 8, 20.);
  NeighUnique* neighU = NeighUnique::create();

  auto fresh = [&]() {
    DbGrid* g = DbGrid::create(nx);
    maskRanks(g, masked);
    return g;
  };

  {
    DbGrid* g = fresh(); VectorString b = g->getAllNames();
    int err = movingAverage(data, g, neighM, true, true, model);
    printf("movingAverage err=%d\n", err);
    reportMasked("movingAverage", g, b, masked, activeRef);
  }
  {
    DbGrid* g = fresh(); VectorString b = g->getAllNames();
    int err = movingMedian(data, g, neighM, true, true, model);
    printf("movingMedian err=%d\n", err);
    reportMasked("movingMedian", g, b, masked, activeRef);
  }
  {
    DbGrid* g = fresh(); VectorString b = g->getAllNames();
    int err = inverseDistance(data, g, 2., true, TEST, true, true, model);
    printf("inverseDistance(points) err=%d\n", err);
    reportMasked("inverseDistance(pts)", g, b, masked, activeRef);
  }
  {
    // grid input -> _gridInvdist
    DbGrid* gin = DbGrid::create({4, 4}, {3., 3.});
    VectorDouble v(16);
    for (int i = 0; i < 16; i++) v[i] = i;
    gin->addColumns(v, "zin", ELoc::Z);
    DbGrid* g = fresh(); VectorString b = g->getAllNames();
    int err = inverseDistance(gin, g, 2., true, TEST, true, false, nullptr);
    printf("inverseDistance(grid) err=%d\n", err);
    reportMasked("inverseDistance(grid)", g, b, masked, activeRef);
  }
  {
    DbGrid* g = fresh(); VectorString b = g->getAllNames();
    int err = leastSquares(data, g, neighM, 1);
    printf("leastSquares err=%d\n", err);
    reportMasked("leastSquares", g, b, masked, activeRef);
  }
  {
    DbGrid* g = fresh(); VectorString b = g->getAllNames();
    int err = nearestNeighbor(data, g, true, true, model);
    printf("nearestNeighbor err=%d\n", err);
    reportMasked("nearestNeighbor", g, b, masked, activeRef);
  }
  {
    DbGrid* g = fresh(); VectorString b = g->getAllNames();
    int err = kriging(data, g, model, neighU);
    printf("kriging err=%d\n", err);
    reportMasked("kriging (reference)", g, b, masked, activeRef);
  }
  return 0;
}
