// Item 1d: CalcGridToGrid entry points with masked target nodes in dbout
#include "common.hpp"
#include "Calculators/CalcGridToGrid.hpp"

static void dumpAll(const char* tag, const Db* db, const VectorString& before)
{
  VectorString nn = newNames(db, before);
  for (const auto& n : nn)
  {
    VectorDouble col = db->getColumn(n, false);
    VectorDouble sel = db->getColumn("sel", false);
    printf("[%s] full column '%s' (m = masked target):", tag, n.c_str());
    for (int i = 0; i < (int) col.size(); i++)
      printf(" %s%s", fmtv(col[i]).c_str(), sel[i] > 0 ? "" : "(m)");
    printf("\n");
  }
}

int main()
{
  // ---------------- Expand : 2-D -> 3-D
  {
    DbGrid* g2 = DbGrid::create({4, 3});
    VectorDouble v(12);
    for (int i = 0; i < 12; i++) v[i] = 10. + i;
    g2->addColumns(v, "zin", ELoc::Z);
    DbGrid* g3 = DbGrid::create({4, 3, 2});
    VectorInt masked = {1, 6, 14, 23};
    maskRanks(g3, masked);
    VectorString b = g3->getAllNames();
    int err = dbg2gExpand(g2, g3);
    printf("dbg2gExpand err=%d (dbout: %d nodes, %d active)\n", err, g3->getSampleNumber(), g3->getSampleNumber(true));
    reportMasked("dbg2gExpand", g3, b, masked, 2);
    dumpAll("dbg2gExpand", g3, b);
  }

  // ---------------- Interpolate : 2-D (top/bot surfaces) -> 3-D
  {
    DbGrid* g2 = DbGrid::create({4, 3});
    int n = 12;
    VectorDouble top(n, 3.), bot(n, 0.), vtop(n), vbot(n);
    for (int i = 0; i < n; i++) { vtop[i] = 100. + i; vbot[i] = 200. + i; }
    g2->addColumns(top, "Top");
    g2->addColumns(bot, "Bot");
    g2->addColumns(vtop, "vTop", ELoc::Z, 0);
    g2->addColumns(vbot, "vBot", ELoc::Z, 1);
    DbGrid* g3 = DbGrid::create({4, 3, 4});
    VectorInt masked = {1, 6, 14, 47};
    maskRanks(g3, masked);
    VectorString b = g3->getAllNames();
    int err = dbg2gInterpolate(g2, g3, {"Top"}, {"Bot"});
    printf("dbg2gInterpolate err=%d (dbout: %d nodes, %d active)\n", err, g3->getSampleNumber(), g3->getSampleNumber(true));
    reportMasked("dbg2gInterpolate", g3, b, masked, 2);
    dumpAll("dbg2gInterpolate", g3, b);
  }

  // ---------------- Shrink : 3-D -> 2-D
  {
    DbGrid* g3 = DbGrid::create({4, 3, 2});
    VectorDouble v(24);
    for (int i = 0; i < 24; i++) v[i] = 10. + i;
    g3->addColumns(v, "zin", ELoc::Z);
    DbGrid* g2 = DbGrid::create({4, 3});
    VectorInt masked = {1, 6, 11};
    maskRanks(g2, masked);
    VectorString b = g2->getAllNames();
    int err = dbg2gShrink(g3, g2);
    printf("dbg2gShrink err=%d (dbout: %d nodes, %d active)\n", err, g2->getSampleNumber(), g2->getSampleNumber(true));
    reportMasked("dbg2gShrink", g2, b, masked, 2);
    dumpAll("dbg2gShrink", g2, b);
  }
  return 0;
}
