// Item 1e: simuPost / simuPostDemo / simuPostPropByLayer with masked target cells
#include "common.hpp"
#include "Calculators/CalcSimuPost.hpp"
#include "Calculators/CalcSimuPostDemo.hpp"
#include "Calculators/CalcSimuPostPropByLayer.hpp"

static void addSimus(Db* db, const String& radix, int nsim, double vmin, double vmax)
{
  int nech = db->getSampleNumber();
  int uid = db->addColumnsByConstant(nsim, 0., radix);
  for (int i = 0; i < nsim; i++)
    db->setColumnByUID(VH::simulateUniform(nech, vmin, vmax), uid + i);
}

int main()
{
  defineDefaultSpace(ESpaceType::RN, 2);
  law_set_random_seed(1331);
  int nx = 5;
  double dx = 1. / nx;

  // Input: a fine grid of points (4 per output cell) so that every output cell contains data
  DbGrid* dbin = DbGrid::create({2 * nx, 2 * nx}, {dx / 2, dx / 2}, {dx / 4, dx / 4});
  addSimus(dbin, "SimuA", 3, 0., 1.);
  addSimus(dbin, "SimuB", 2, 100., 200.);

  VectorInt masked = {0, 7, 12, 24};
  int activeRef = 13;
  std::vector<EPostStat> stats = {EPostStat::MEAN, EPostStat::VAR};

  {
    DbGrid* g = DbGrid::create({nx, nx}, {dx, dx}, {dx / 2, dx / 2});
    maskRanks(g, masked);
    VectorString b = g->getAllNames();
    int err = simuPost(dbin, g, {"SimuA*", "SimuB*"}, false, EPostUpscale::MEAN, stats, false,
                       VectorInt(), 0, NamingConvention("Post1"));
    printf("simuPost err=%d\n", err);
    reportMasked("simuPost", g, b, masked, activeRef);
  }
  {
    DbGrid* g = DbGrid::create({nx, nx}, {dx, dx}, {dx / 2, dx / 2});
    maskRanks(g, masked);
    VectorString b = g->getAllNames();
    int err = simuPostDemo(dbin, g, {"SimuA*", "SimuB*"}, false, EPostUpscale::MEAN, stats, false,
                           VectorInt(), 0, NamingConvention("Post2"));
    printf("simuPostDemo err=%d\n", err);
    reportMasked("simuPostDemo", g, b, masked, activeRef);
  }
  {
    // no upscaling: dbout == dbin (masked samples of dbin are the masked targets)
    DbGrid* d = dbin->clone();
    VectorInt m2 = {0, 7, 12, 24};
    maskRanks(d, m2);
    VectorString b = d->getAllNames();
    int err = simuPost(d, nullptr, {"SimuA*", "SimuB*"}, false, EPostUpscale::UNKNOWN, stats, false,
                       VectorInt(), 0, NamingConvention("Post3"));
    printf("simuPost(no dbout) err=%d\n", err);
    reportMasked("simuPost(dbout=null)", d, b, m2, activeRef);
  }
  {
    // PropByLayer: thickness simulations on a 2-D support, 3-D output grid
    DbGrid* surf = DbGrid::create({2 * nx, 2 * nx}, {dx / 2, dx / 2}, {dx / 4, dx / 4});
    addSimus(surf, "Z_1", 2, 0.5, 1.5);
    addSimus(surf, "Z_2", 2, 0.5, 1.5);
    DbGrid* g = DbGrid::create({nx, nx, 3}, {dx, dx, 1.}, {dx / 2, dx / 2, 0.5});
    VectorInt m3 = {0, 7, 30, 74};
    maskRanks(g, m3);
    VectorString b = g->getAllNames();
    int err = simuPostPropByLayer(surf, g, {"Z_1*", "Z_2*"}, false, false, EPostUpscale::MEAN, stats, false,
                                  VectorInt(), 0, NamingConvention("Prop"));
    printf("simuPostPropByLayer err=%d\n", err);
    reportMasked("simuPostPropByLayer", g, b, m3, 31);
  }
  {
    // extra: an ACTIVE output cell which contains no input sample
    Db* pts = Db::createFillRandom(3, 2, 0, 0, 0, 0., 0., VectorDouble(), {0., 0.}, {0.5, 0.5}, 777);
    addSimus(pts, "SimuA", 3, 0., 1.);
    DbGrid* g = DbGrid::create({nx, nx}, {dx, dx}, {dx / 2, dx / 2});
    VectorString b = g->getAllNames();
    (void) simuPost(pts, g, {"SimuA*"}, false, EPostUpscale::MEAN, stats, false, VectorInt(), 0, NamingConvention("Post4"));
    VectorString nn = newNames(g, b);
    if (!nn.empty())
      printf("[simuPost extra] active but EMPTY cell 24 (no data inside): '%s' = %s\n", nn[0].c_str(),
             fmtv(g->getColumn(nn[0], false)[24]).c_str());
  }
  return 0;
}
