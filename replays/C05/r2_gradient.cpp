// Item 2: CalcSimuTurningBands::_simulateGradient polarity, through potential_simulate
// and through the public method CalcSimuTurningBands::simulatePotential
#include "common.hpp"
#include "Core/Potential.hpp"
#include "Simulation/CalcSimuTurningBands.hpp"

static void printCoords(const char* tag, const Db* db)
{
  for (int i = 0; i < db->getSampleNumber(); i++)
    printf("  %s sample %d (%s): x=%.6f y=%.6f\n", tag, i, db->isActive(i) ? "active" : "MASKED",
           db->getCoordinate(i, 0), db->getCoordinate(i, 1));
}

static Db* makeIso()
{
  VectorDouble tabiso = {7., 6., 1., 5., 6., 1., 6., 5., 1., 3., 6., 2., 7., 7., 2.,
                         8., 3., 2., 8., 1., 3., 7., 9., 3., 10., 5., 3., 3., 1., 3.};
  return Db::createFromSamples(10, ELoadBy::SAMPLE, tabiso, {"x", "y", "iso"}, {"x1", "x2", "layer"});
}
static Db* makeGrd()
{
  VectorDouble tabgrd = {1., 6., 1., 0.,
                         9., 2., -1., 1.,
                         7., 8., 0., -1,
                         4., 4., 1., 1.,
                         2., 9., 0., 1.};
  Db* dbgrd = Db::createFromSamples(5, ELoadBy::SAMPLE, tabgrd, {"x", "y", "gx", "gy"}, {"x1", "x2", "g1", "g2"});
  maskRanks(dbgrd, {1, 3}); // samples 1 and 3 are switched off
  return dbgrd;
}

int main()
{
  defineDefaultSpace(ESpaceType::RN, 2);
  Model* model = Model::createFromParam(ECov::CUBIC, 6.);
  model->switchToGradient();
  NeighUnique* neighU = NeighUnique::create();

  // ------------------------------------------------------------------ (a) potential_simulate
  {
    Db* dbiso = makeIso();
    Db* dbgrd = makeGrd();
    DbGrid* grid = DbGrid::create({21, 21}, {0.5, 0.5});
    double delta = dbiso->getExtensionDiagonal() / 1000.;
    printf("(a) potential_simulate : delta = extensionDiagonal/1000 = %.6f\n", delta);
    VectorDouble x0 = dbgrd->getColumn("x", false), y0 = dbgrd->getColumn("y", false);
    printf(" BEFORE\n"); printCoords("dbgrd", dbgrd);
    int err = potential_simulate(dbiso, dbgrd, nullptr, grid, model, neighU, 0., 0., TEST, false, 135674, 1, 100, false);
    printf(" potential_simulate err=%d\n AFTER\n", err);
    printCoords("dbgrd", dbgrd);
    for (int i = 0; i < dbgrd->getSampleNumber(); i++)
      printf("  dbgrd sample %d (%s): dx/delta=%+.3f dy/delta=%+.3f\n", i, dbgrd->isActive(i) ? "active" : "MASKED",
             (dbgrd->getCoordinate(i, 0) - x0[i]) / delta, (dbgrd->getCoordinate(i, 1) - y0[i]) / delta);
  }

  // ------------------------------------------------------------------ (a0) same without any selection
  {
    Db* dbiso = makeIso();
    Db* dbgrd = makeGrd();
    dbgrd->clearSelection();
    DbGrid* grid = DbGrid::create({21, 21}, {0.5, 0.5});
    int err = potential_simulate(dbiso, dbgrd, nullptr, grid, model, neighU, 0., 0., TEST, false, 135674, 1, 100, false);
    printf("(a0) potential_simulate WITHOUT any selection: err=%d (nb of columns created in grid: %d)\n", err, grid->getColumnNumber());
  }

  // ------------------------------------------------------------------ (b) simulatePotential directly
  for (int prime = 0; prime < 2; prime++)
  {
    Db* dbiso = makeIso();
    Db* dbgrd = makeGrd();
    DbGrid* grid = DbGrid::create({21, 21}, {0.5, 0.5});
    int nbsimu = 1, ndim = 2;
    double delta = 0.01;
    grid->addColumnsByConstant(nbsimu, 0., "SimOut", ELoc::SIMU);
    dbiso->addColumnsByConstant(2 * nbsimu, 0., "SimIso", ELoc::SIMU);
    dbgrd->addColumnsByConstant(2 * ndim * nbsimu, 0., "SimGrd", ELoc::SIMU);
    VectorDouble x0 = dbgrd->getColumn("x", false), y0 = dbgrd->getColumn("y", false);
    CalcSimuTurningBands situba(nbsimu, 100, 135674);
    if (prime)
    {
      // prime the calculator (sets its internal nvar / ncova) by a plain non-conditional run
      DbGrid* scratch = DbGrid::create({3, 3});
      situba.setDbout(scratch);
      situba.setModel(model);
      bool ok = situba.run();
      printf("(b) priming run() on scratch grid: ok=%d\n", (int) ok);
    }
    int err = situba.simulatePotential(dbiso, dbgrd, nullptr, grid, model, delta);
    printf("(b) prime=%d CalcSimuTurningBands::simulatePotential err=%d delta=%.3f\n", prime, err, delta);
    for (int i = 0; i < dbgrd->getSampleNumber(); i++)
    {
      printf("  dbgrd sample %d (%s): dx/delta=%+.3f dy/delta=%+.3f | SimGrd.1..4 =", i,
             dbgrd->isActive(i) ? "active" : "MASKED",
             (dbgrd->getCoordinate(i, 0) - x0[i]) / delta, (dbgrd->getCoordinate(i, 1) - y0[i]) / delta);
      for (int k = 0; k < 2 * ndim * nbsimu; k++)
        printf(" %s", fmtv(dbgrd->getSimvar(ELoc::SIMU, i, k, 0, 0, 2 * ndim * nbsimu, 1)).c_str());
      double v1x = dbgrd->getSimvar(ELoc::SIMU, i, 0, 0, 0, 4, 1), v2x = dbgrd->getSimvar(ELoc::SIMU, i, 2, 0, 0, 4, 1);
      printf("  [slot0 should be the finite difference (slot2-pot(x))/delta; here slot0=%s, slot2=%s]\n",
             fmtv(v1x).c_str(), fmtv(v2x).c_str());
    }
  }
  return 0;
}
