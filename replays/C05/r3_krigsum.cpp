// Item 3: krigsum on a grid with masked target nodes
#include "common.hpp"
#include "Drifts/DriftM.hpp"

int main()
{
  defineDefaultSpace(ESpaceType::RN, 2);
  VectorInt nx = {10, 10};
  VectorInt masked = {0, 37, 55, 99};
  int activeRef = 56;

  // 3 variables, 10 samples
  Db* data = Db::createFillRandom(10, 2, 3, 0, 0, 0., 0., VectorDouble(), {0., 0.}, {9., 9.}, 4901);
  Model* model = Model::createFromParam(ECov::SPHERICAL, 8., 1.);
  DriftM drift1 = DriftM();
  model->addDrift(&drift1);
  NeighUnique* neighU = NeighUnique::create();

  DbGrid* g = DbGrid::create(nx);
  law_set_random_seed(1234);
  VectorDouble tab = VH::simulateUniform(g->getSampleNumber(), 10., 20.);
  g->addColumns(tab, "Constraints", ELoc::SUM);
  maskRanks(g, masked);

  VectorString before = g->getAllNames();
  int err = krigsum(data, g, model, neighU, true);
  printf("krigsum err=%d\n", err);
  reportMasked("krigsum", g, before, masked, activeRef);

  VectorString nn = newNames(g, before);
  for (int r : {0, 37, 55, 99, 56})
  {
    double s = 0.;
    printf("[krigsum] target %d (%s): SUM constraint=%s ; estimates =", r, g->isActive(r) ? "active" : "MASKED", fmtv(tab[r]).c_str());
    for (const auto& n : nn) { double v = g->getColumn(n, false)[r]; printf(" %s", fmtv(v).c_str()); s += v; }
    printf(" ; sum of estimates = %s\n", fmtv(s).c_str());
  }

  // comparison: physically remove the masked nodes -> do the active targets agree?
  Db* gred = Db::createReduce(g);
  // createReduce keeps only active samples; SUM locator must be kept
  printf("reduced target Db: %d samples, nb SUM = %d\n", gred->getSampleNumber(), gred->getFromLocatorNumber(ELoc::SUM));
  return 0;
}
