// Item 4: NeighMoving with ball-tree search and masked samples
#include "common.hpp"
#include "Estimation/CalcKriging.hpp"
#include <algorithm>
#include <cmath>

static void show(const char* tag, const VectorInt& nbgh, const VectorInt& map = VectorInt())
{
  VectorInt v = nbgh;
  if (!map.empty()) for (auto& r : v) r = map[r];
  std::sort(v.begin(), v.end());
  printf("%-55s n=%d :", tag, (int) v.size());
  for (int r : v) printf(" %d", r);
  printf("\n");
}

int main()
{
  defineDefaultSpace(ESpaceType::RN, 2);
  int nech = 30;
  Db* data = Db::createFillRandom(nech, 2, 1, 0, 0, 0., 0., VectorDouble(), {0., 0.}, {10., 10.}, 2468);
  Model* model = Model::createFromParam(ECov::SPHERICAL, 8., 1.);

  // One target at the centre
  Db* target = Db::createFromSamples(1, ELoadBy::SAMPLE, {5., 5.}, {"x1", "x2"}, {"x1", "x2"});

  // Mask the 3 samples closest to the target (make their values huge so that any leak is visible)
  std::vector<std::pair<double, int>> d;
  for (int i = 0; i < nech; i++)
    d.push_back({hypot(data->getCoordinate(i, 0) - 5., data->getCoordinate(i, 1) - 5.), i});
  std::sort(d.begin(), d.end());
  VectorInt masked = {d[0].second, d[1].second, d[2].second};
  String zname = data->getNamesByLocator(ELoc::Z)[0];
  printf("masked samples (the 3 closest to the target):");
  for (int r : masked) { printf(" %d(z=%s)", r, fmtv(data->getValue(zname, r)).c_str()); }
  printf("\n");
  Db* dataHuge = data->clone();
  for (int r : masked) dataHuge->setValue(zname, r, 1000.);
  maskRanks(data, masked);
  maskRanks(dataHuge, masked);

  // Physically reduced Db
  Db* reduced = Db::createReduce(data);
  VectorInt map; // reduced rank -> original rank
  for (int i = 0; i < nech; i++) if (data->isActive(i)) map.push_back(i);
  printf("data: %d samples, %d active ; reduced: %d samples\n", data->getSampleNumber(), data->getSampleNumber(true), reduced->getSampleNumber());

  int nmaxi = 8;
  auto mkNeigh = [&](bool ball) {
    NeighMoving* n = NeighMoving::create(false, nmaxi, 20.);
    if (ball) n->setBallSearch(true, 10);
    return n;
  };

  Krigtest_Res k1 = krigtest(data, target, model, mkNeigh(false), 0, EKrigOpt::POINT, VectorInt(), false, false);
  show("masked Db,   standard search : neighbours", k1.nbgh);
  Krigtest_Res k2 = krigtest(data, target, model, mkNeigh(true), 0, EKrigOpt::POINT, VectorInt(), false, false);
  show("masked Db,   BALL-TREE search: neighbours", k2.nbgh);
  Krigtest_Res k3 = krigtest(reduced, target, model, mkNeigh(false), 0, EKrigOpt::POINT, VectorInt(), false, false);
  show("reduced Db,  standard search : neighbours (orig. ranks)", k3.nbgh, map);
  Krigtest_Res k4 = krigtest(reduced, target, model, mkNeigh(true), 0, EKrigOpt::POINT, VectorInt(), false, false);
  show("reduced Db,  BALL-TREE search: neighbours (orig. ranks)", k4.nbgh, map);
  printf("krigtest sizes: standard nech=%d neq=%d | ball-tree nech=%d neq=%d | data values used (ball-tree):", k1.nech, k1.neq, k2.nech, k2.neq);
  for (double v : k2.data) printf(" %s", fmtv(v).c_str());
  printf("\n  weights (ball-tree):");
  for (int i = 0; i < k2.wgt.getNRows(); i++) printf(" %s", fmtv(k2.wgt.getValue(i, 0)).c_str());
  printf("\n  weights (standard):");
  for (int i = 0; i < k1.wgt.getNRows(); i++) printf(" %s", fmtv(k1.wgt.getValue(i, 0)).c_str());
  printf("\n");
  for (int r : masked)
    printf("  masked sample %d in ball-tree neighbourhood: %s ; in standard neighbourhood: %s\n", r,
           std::count(k2.nbgh.begin(), k2.nbgh.end(), r) ? "YES" : "no",
           std::count(k1.nbgh.begin(), k1.nbgh.end(), r) ? "YES" : "no");

  // Effect on the kriging estimate
  auto krige = [&](Db* din, bool ball, const char* tag) {
    Db* t = target->clone();
    int err = kriging(din, t, model, mkNeigh(ball));
    printf("%-60s err=%d estim=%s stdev=%s\n", tag, err,
           fmtv(t->getColumn("Kriging.*estim", false)[0]).c_str(),
           fmtv(t->getColumn("Kriging.*stdev", false)[0]).c_str());
  };
  krige(data, false, "kriging masked Db, standard search");
  krige(data, true, "kriging masked Db, BALL-TREE search");
  krige(reduced, false, "kriging reduced Db, standard search");
  krige(reduced, true, "kriging reduced Db, BALL-TREE search");
  krige(dataHuge, false, "kriging masked Db (masked z:=1000), standard search");
  krige(dataHuge, true, "kriging masked Db (masked z:=1000), BALL-TREE search");

  // Whole grid: masked Db vs reduced Db, both with ball-tree search
  {
    DbGrid* g1 = DbGrid::create({10, 10}, {1., 1.}, {0.5, 0.5});
    DbGrid* g2 = g1->clone();
    DbGrid* g3 = g1->clone();
    (void) kriging(data, g1, model, mkNeigh(true));
    (void) kriging(reduced, g2, model, mkNeigh(true));
    (void) kriging(data, g3, model, mkNeigh(false));
    VectorDouble e1 = g1->getColumn("Kriging.*estim", false), e2 = g2->getColumn("Kriging.*estim", false), e3 = g3->getColumn("Kriging.*estim", false);
    int ndiff = 0, nna = 0, ndiffStd = 0; double maxd = 0.;
    for (int i = 0; i < (int) e1.size(); i++)
    {
      if (FFFF(e1[i]) != FFFF(e2[i])) { ndiff++; if (FFFF(e1[i])) nna++; }
      else if (!FFFF(e1[i]) && fabs(e1[i] - e2[i]) > 1.e-10) { ndiff++; maxd = std::max(maxd, fabs(e1[i] - e2[i])); }
      if (FFFF(e3[i]) != FFFF(e2[i]) || (!FFFF(e3[i]) && fabs(e3[i] - e2[i]) > 1.e-10)) ndiffStd++;
    }
    printf("grid 10x10, ball-tree: masked Db vs reduced Db: %d / %d nodes differ (%d are NA only in the masked run, max |diff| otherwise = %g)\n",
           ndiff, (int) e1.size(), nna, maxd);
    printf("grid 10x10, standard search: masked Db vs reduced Db: %d / %d nodes differ\n", ndiffStd, (int) e1.size());
  }
  return 0;
}
