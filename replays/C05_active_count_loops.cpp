// C05 / C05g: loops `for (iech = 0; iech < db->getSampleNumber(true); iech++) { if (!db->isActive(iech)) continue; ... }` run over
// the number of ACTIVE samples while `iech` is an absolute rank: with a selection that masks k samples, the last k samples of
// the data base are never visited although they are active.  The result differs from the one obtained after physically removing
// the masked samples.  Cases: dbg2gExpand, dbg2gShrink, DbGrid::getLimitsFromVariableExtend, DbGrid::locateDataInGrid(useSel).
#include "Enum/ESpaceType.hpp"
#include "Enum/ELoc.hpp"
#include "Db/Db.hpp"
#include "Db/DbGrid.hpp"
#include "Basic/VectorHelper.hpp"
#include "Calculators/CalcGridToGrid.hpp"
#include "Space/ASpaceObject.hpp"
#include <cstdio>
#include <cmath>

static int expand()
{
  DbGrid* in = DbGrid::create({4, 3});
  VectorDouble z(12);
  for (int i = 0; i < 12; i++) z[i] = 100. + i;
  in->addColumns(z, "z", ELoc::Z, 0);
  DbGrid* out = DbGrid::create({4, 3, 2});
  VectorDouble sel(24, 1.);
  for (int i = 0; i < 6; i++) sel[i] = 0.;                 // masks the first 6 nodes
  out->addColumns(sel, "sel", ELoc::SEL, 0);
  if (dbg2gExpand(in, out)) return -1;
  VectorDouble r = out->getColumnByColIdx(out->getColumnNumber() - 1);
  int bad = 0;
  for (int i = 6; i < 24; i++)
    if (!(std::fabs(r[i] - z[i % 12]) < 1e-12)) { if (!bad) printf("  expand: active node %d holds %g, expected %g\n", i, r[i], z[i % 12]); bad++; }
  printf("dbg2gExpand with 6 masked target nodes: %d active nodes not filled\n", bad);
  return bad;
}

static int shrink()
{
  // dbg2gShrink averages, for each 2-D cell, the Z variable of the OUTPUT grid once per ACTIVE input node above the cell:
  // a cell keeps its value when at least one active node lies above it and becomes undefined otherwise
  DbGrid* in = DbGrid::create({4, 3, 2});
  VectorDouble z(24), sel(24, 1.);
  for (int i = 0; i < 24; i++) z[i] = 1. + i;
  for (int i = 6; i < 18; i++) sel[i] = 0.;                // active nodes: 0..5 (below cells 0..5) and 18..23 (above cells 6..11)
  in->addColumns(z, "z", ELoc::Z, 0);
  in->addColumns(sel, "sel", ELoc::SEL, 0);
  DbGrid* out = DbGrid::create({4, 3});
  out->addColumns(VectorDouble(12, 5.), "base", ELoc::Z, 0);
  if (dbg2gShrink(in, out)) return -1;
  VectorDouble r = out->getColumnByColIdx(out->getColumnNumber() - 1);
  int bad = 0;
  for (int j = 0; j < 12; j++)
    if (!(std::fabs(r[j] - 5.) < 1e-12)) { if (!bad) printf("  shrink: cell %d holds %g, expected 5 (an active node lies above it)\n", j, r[j]); bad++; }
  printf("dbg2gShrink with 12 masked input nodes: %d cells lost although an active node lies above them\n", bad);
  return bad;
}

static int limits()
{
  DbGrid* g = DbGrid::create({5, 4});
  int n = 20;
  VectorDouble top(n, TEST), bot(n, TEST), sel(n, 1.);
  for (int i = 0; i < 5; i++) sel[i] = 0.;                 // first row masked
  top[19] = 2.; bot[19] = 1.;                              // only the LAST node (4,3) carries a valid interval
  top[7] = 2.;  bot[7] = 1.;                               // and node (2,1)
  g->addColumns(top, "top");
  g->addColumns(bot, "bot");
  g->addColumns(sel, "sel", ELoc::SEL, 0);
  VectorVectorInt lim = g->getLimitsFromVariableExtend("top", "bot");
  printf("getLimitsFromVariableExtend: x in [%d,%d] y in [%d,%d]  (expected [2,4] and [1,3])\n", lim[0][0], lim[0][1], lim[1][0], lim[1][1]);
  return (lim[0][0] == 2 && lim[0][1] == 4 && lim[1][0] == 1 && lim[1][1] == 3) ? 0 : 1;
}

static int locate()
{
  DbGrid* g = DbGrid::create({5, 5});
  Db* d = Db::create();
  d->addColumns({0.2, 1.2, 2.2, 3.2, 4.2, 0.2}, "x", ELoc::X, 0);
  d->addColumns({0.2, 0.2, 1.2, 2.2, 3.2, 4.2}, "y", ELoc::X, 1);
  d->addColumns({0., 0., 1., 1., 1., 1.}, "sel", ELoc::SEL, 0);
  VectorInt r = g->locateDataInGrid(d, VectorInt(), false, true);
  printf("locateDataInGrid(useSel=true) with 4 active samples out of 6: %d answers\n", (int) r.size());
  return r.size() == 4 ? 0 : 1;
}

int main()
{
  defineDefaultSpace(ESpaceType::RN, 2);
  int bad = 0;
  bad += expand() != 0;
  bad += shrink() != 0;
  bad += limits() != 0;
  bad += locate() != 0;
  printf(bad ? "VIOLATED (%d of 4 cases)\n" : "HOLDS (%d)\n", bad);
  return bad ? 1 : 0;
}
