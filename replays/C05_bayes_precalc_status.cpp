// Replay: KrigingSystem::isReady() drops the status of _bayesPreCalculations(): when the posterior drift coefficients cannot be
// computed (singular system: duplicated data) the Bayesian kriging goes on and reports success with meaningless results.
#include "Db/Db.hpp"
#include "Db/DbGrid.hpp"
#include "Model/Model.hpp"
#include "Neigh/NeighUnique.hpp"
#include "Estimation/CalcKriging.hpp"
#include "Matrix/MatrixSquareSymmetric.hpp"
#include "Space/ASpaceObject.hpp"
#include "Basic/Law.hpp"
#include <iostream>
#include <cmath>
int main() {
  defineDefaultSpace(ESpaceType::RN, 2);
  law_set_random_seed(31);
  Db* data = Db::createFillRandom(12, 2, 1);
  // duplicate a sample: the kriging matrix of the data is singular
  data->setCoordinate(1, 0, data->getCoordinate(0, 0));
  data->setCoordinate(1, 1, data->getCoordinate(0, 1));
  DbGrid* grid = DbGrid::create({3, 3}, {0.3, 0.3}, {0.2, 0.2});
  Model* model = Model::createFromParam(ECov::SPHERICAL, 0.5, 1.);
  model->setDriftIRF(1);
  NeighUnique* nu = NeighUnique::create();
  VectorDouble pm = {0., 0., 0.};
  MatrixSquareSymmetric pc(3); for (int i = 0; i < 3; i++) pc.setValue(i, i, 1.);
  int err = kribayes(data, grid, model, nu, pm, pc);
  int ndef = 0;
  if (grid->getColumnNumber() > 3) { VectorDouble e = grid->getColumn("*estim"); for (double v : e) if (!std::isnan(v) && v < 1e29) ndef++; }
  std::cout << "kribayes on singular data: error code " << err << ", defined estimates written: " << ndef << std::endl;
  bool bad = (err == 0 && ndef > 0);
  std::cout << (bad ? "FAIL: success reported although the Bayesian pre-calculation failed" : "PASS") << std::endl;
  return bad;
}
