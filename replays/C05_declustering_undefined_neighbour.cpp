// Replay: declustering by the moving-window count (method 1) tested, in the loop over the SECOND sample, the value of the
// FIRST one again: an active sample without value was counted in the window of every other sample, so the weights differ
// from those obtained when the sample is physically removed.
#include "Db/Db.hpp"
#include "geoslib_f.h"
#include <cmath>
#include <cstdio>
static Db* buildDb(const VectorDouble& x, const VectorDouble& y, const VectorDouble& z)
{
  Db* db = Db::create();
  db->addColumns(x, "x", ELoc::X, 0);
  db->addColumns(y, "y", ELoc::X, 1);
  db->addColumns(z, "z", ELoc::Z, 0);
  return db;
}
int main()
{
  int n = 10, k = 3;
  VectorDouble x(n), y(n), z(n), xr, yr, zr;
  for (int i = 0; i < n; i++)
  {
    x[i] = 10. * fmod(0.37 * i + 0.11, 1.);
    y[i] = 10. * fmod(0.61 * i + 0.29, 1.);
    z[i] = 3. + sin(0.9 * i) + 0.15 * i;
    if (i != k) { xr.push_back(x[i]); yr.push_back(y[i]); zr.push_back(z[i]); }
  }
  VectorDouble zu = z; zu[k] = TEST;
  Db* dbU = buildDb(x, y, zu);
  Db* dbR = buildDb(xr, yr, zr);
  declustering(dbU, nullptr, 1, nullptr, nullptr, {4., 4.});
  declustering(dbR, nullptr, 1, nullptr, nullptr, {4., 4.});
  VectorDouble wU = dbU->getColumnByUID(dbU->getLastUID());
  VectorDouble wR = dbR->getColumnByUID(dbR->getLastUID());
  int jr = 0, ndiff = 0;
  for (int i = 0; i < n; i++)
  {
    if (i == k) continue;
    if (std::abs(wU[i] - wR[jr]) > 1.e-10) { ndiff++; printf("  sample %d: weight %.6f vs %.6f after removal\n", i, wU[i], wR[jr]); }
    jr++;
  }
  printf("%d weights out of %d differ from the ones obtained without the undefined sample (expected 0)\n", ndiff, n - 1);
  return ndiff != 0;
}
