#include "Db/DbGrid.hpp"
#include "Model/Model.hpp"
#include "Neigh/NeighImage.hpp"
#include "Estimation/CalcImage.hpp"
#include "Space/ASpaceObject.hpp"
#include "Basic/Law.hpp"
#include <iostream>
static double run(double maskedValue) {
  law_set_random_seed(5);
  DbGrid* g = DbGrid::create({20,20});
  VectorDouble z(400); for (int i=0;i<400;i++) z[i] = law_gaussian();
  z[210] = maskedValue;
  g->addColumns(z, "Simu", ELoc::Z);
  VectorDouble sel(400, 1.); sel[210] = 0.;
  g->addSelection(sel, "sel");
  Model* model = new Model();
  model->addCovFromParam(ECov::NUGGET, 0., 1.);
  model->addCovFromParam(ECov::SPHERICAL, 8., 2.);
  model->setCovaFiltered(0, true);
  NeighImage* nI = NeighImage::create({2,2}, 1);
  krimage(g, model, nI);
  double v = g->getArray(211, g->getColumnNumber()-1);
  delete g; delete model; delete nI;
  return v;
}
int main() {
  defineDefaultSpace(ESpaceType::RN, 2);
  double a = run(0.3), b = run(1.234e30);
  std::cout << "active node 211 next to masked node 210: masked value 0.3 -> " << a << " ; masked value NA -> " << b << std::endl;
  return a != b;
}
