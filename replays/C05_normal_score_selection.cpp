// Replay: the normal score transform ranked the masked samples with the others: the scores of the active samples depended on the
// values of the masked ones (and the masked samples received a score).
#include "Db/Db.hpp"
#include "Anamorphosis/AnamHermite.hpp"
#include <cmath>
#include <cstdio>
int main()
{
  int n = 10;
  VectorDouble x(n), z(n), sel(n);
  for (int i = 0; i < n; i++) { x[i] = i; z[i] = i; sel[i] = (i >= 5); }   // the 5 smallest values are masked
  Db* db = Db::create();
  db->addColumns(x, "x", ELoc::X, 0);
  db->addColumns(z, "z", ELoc::Z, 0);
  db->addColumns(sel, "sel", ELoc::SEL, 0);
  Db* ref = Db::create();                                                    // the same data with the masked samples removed
  ref->addColumns(VectorDouble(x.begin() + 5, x.end()), "x", ELoc::X, 0);
  ref->addColumns(VectorDouble(z.begin() + 5, z.end()), "z", ELoc::Z, 0);
  AnamHermite anam(3);
  anam.normalScore(db, "z");
  anam.normalScore(ref, "z");
  VectorDouble a = db->getColumnByUID(db->getLastUID()), b = ref->getColumnByUID(ref->getLastUID());
  int bad = 0;
  for (int i = 0; i < n; i++)
  {
    if (i < 5) { if (!FFFF(a[i])) { bad++; printf("masked sample %d received the score %g\n", i, a[i]); } continue; }
    if (std::abs(a[i] - b[i - 5]) > 1.e-10) { bad++; printf("active sample %d: score %.4f vs %.4f when the masked samples are removed\n", i, a[i], b[i - 5]); }
  }
  printf("%d difference(s) (expected 0)\n", bad);
  return bad != 0;
}
