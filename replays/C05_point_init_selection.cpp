// C05 / C05g: db_point_init() drawing points in the cells of a grid (st_point_init_inhomogeneous) runs its loops over the
// number of ACTIVE cells while using the loop variable as an absolute cell rank, and (without density) draws an absolute
// rank below the active count: with a selection the masked cells receive points and the last cells never do.
#include "geoslib_old_f.h"
#include "Enum/ESpaceType.hpp"
#include "Enum/ELoc.hpp"
#include "Db/Db.hpp"
#include "Db/DbGrid.hpp"
#include "Space/ASpaceObject.hpp"
#include <cstdio>

int main()
{
  defineDefaultSpace(ESpaceType::RN, 2);
  int bad = 0;
  VectorDouble sel(16, 1.);
  for (int i = 0; i < 4; i++) sel[i] = 0.;                 // first row (y in [0,1[) masked
  {
    // density positive on the last row only
    DbGrid* g = DbGrid::create({4, 4});
    VectorDouble dens(16, 0.);
    for (int i = 12; i < 16; i++) dens[i] = 1.;
    g->addColumns(dens, "dens", ELoc::Z, 0);
    g->addColumns(sel, "sel", ELoc::SEL, 0);
    Db* p = db_point_init(40, VectorDouble(), VectorDouble(), g);
    int nout = 0;
    for (int i = 0; i < p->getSampleNumber(); i++)
      if (p->getCoordinate(i, 1) < 3.) nout++;
    printf("density on the last row, first row masked: %d of %d points outside the last row\n", nout, p->getSampleNumber());
    if (nout > 0 || p->getSampleNumber() == 0) bad++;
  }
  {
    // no density: uniform over the ACTIVE cells
    DbGrid* g = DbGrid::create({4, 4});
    g->addColumns(sel, "sel", ELoc::SEL, 0);
    Db* p = db_point_init(200, VectorDouble(), VectorDouble(), g);
    int nmasked = 0, nlast = 0;
    for (int i = 0; i < p->getSampleNumber(); i++)
    {
      if (p->getCoordinate(i, 1) < 1.) nmasked++;
      if (p->getCoordinate(i, 1) >= 3.) nlast++;
    }
    printf("no density, first row masked: %d points in the masked row, %d in the last (active) row, out of %d\n", nmasked, nlast, p->getSampleNumber());
    if (nmasked > 0 || nlast == 0) bad++;
  }
  printf(bad ? "VIOLATED (%d)\n" : "HOLDS (%d)\n", bad);
  return bad ? 1 : 0;
}
