// Replay: Vario::_evalAverageDbIncr loops `for (iech = 0; iech < db.getSampleNumber(true); ...)` (ACTIVE count) over absolute ranks:
// with a selection, the samples whose rank exceeds the number of active samples are never visited. The regularised variogram
// computed on a grid with masked cells differs from the one computed on the physically reduced grid.
#include "Db/Db.hpp"
#include "Db/DbGrid.hpp"
#include "Model/Model.hpp"
#include "Variogram/Vario.hpp"
#include "Variogram/VarioParam.hpp"
#include "Space/ASpaceObject.hpp"
#include <iostream>
#include <cmath>
int main() {
  defineDefaultSpace(ESpaceType::RN, 2);
  DbGrid* grid = DbGrid::create({6, 6}, {1., 1.});
  VectorDouble sel(36, 1.); for (int i = 0; i < 12; i++) sel[i] = 0.;        // the first two rows are masked
  grid->addSelection(sel, "sel");
  Db* reduced = Db::createReduce(grid);
  Model* model = Model::createFromParam(ECov::SPHERICAL, 3., 1.);
  VarioParam* vp = VarioParam::createOmniDirection(4, 1.);
  Vario* v1 = Vario::create(*vp);
  Vario* v2 = Vario::create(*vp);
  if (v1->regularizeFromDbGrid(model, *grid) || v2->regularizeFromDbGrid(model, *reduced)) { std::cout << "regularisation failed" << std::endl; return 2; }
  double worst = 0.;
  for (int i = 0; i < 4; i++) worst = std::max(worst, std::abs(v1->getGg(0, 0, 0, i) - v2->getGg(0, 0, 0, i)));
  std::cout << "lag 1: masked grid " << v1->getGg(0, 0, 0, 1) << " , reduced data base " << v2->getGg(0, 0, 0, 1) << " ; largest difference " << worst << std::endl;
  std::cout << (worst > 1e-10 ? "FAIL" : "PASS") << std::endl;
  return worst > 1e-10;
}
