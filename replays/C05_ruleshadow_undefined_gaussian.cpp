// Replay of the C05d report: RuleShadow::gaus2facResult tests `if (FFFF(y[0])) break;` inside the loop on the grid nodes:
// ONE undefined Gaussian value stops the conversion for every following node (db_rule_shadow on user-supplied Gaussians).
#include "Db/DbGrid.hpp"
#include "LithoRule/RuleShadow.hpp"
#include "LithoRule/Rule.hpp"
#include "Model/Model.hpp"
#include "Space/ASpaceObject.hpp"
#include "Basic/Law.hpp"
#include "Basic/VectorHelper.hpp"
#include <iostream>
#include <cmath>
static VectorDouble run(const VectorDouble& gaus) {
  DbGrid* grid = DbGrid::create({20, 20});
  grid->addColumns(gaus, "g", ELoc::Z);
  RuleShadow* rule = new RuleShadow(0.5, 0.5, -0.2, {1., 0.});
  Model* model = Model::createFromParam(ECov::CUBIC, 5., 1.);
  int err = db_rule_shadow(grid, nullptr, rule, model, {0.4, 0.2, 0.4}, 1, 3);
  VectorDouble fac = err ? VectorDouble() : grid->getColumnByLocator(ELoc::FACIES);
  delete rule; delete grid; delete model;
  return fac;
}
int main() {
  defineDefaultSpace(ESpaceType::RN, 2);
  law_set_random_seed(133);
  VectorDouble g = VH::simulateGaussian(400);
  VectorDouble ref = run(g);
  VectorDouble g2 = g; g2[37] = TEST;          // one undefined value, at node 37
  VectorDouble res = run(g2);
  if (ref.empty() || res.empty()) { std::cout << "conversion failed" << std::endl; return 2; }
  int ndiff = 0, first = -1, last = -1;
  for (int i = 0; i < 400; i++) {
    bool same = (std::isnan(ref[i]) && std::isnan(res[i])) || ref[i] == res[i];
    if (!same) { ndiff++; if (first < 0) first = i; last = i; }
  }
  std::cout << "nodes whose facies differ when node 37 is undefined: " << ndiff << " (first " << first << ", last " << last << ")" << std::endl;
  bool bad = ndiff > 25;        // the shadow of node 37 may legitimately change a few nodes of its row
  std::cout << (bad ? "FAIL: one undefined value changes the facies of all the following nodes" : "PASS") << std::endl;
  return bad;
}
