// Replay of the C05d reports: RuleShift::gaus2facResult (and RuleShadow) test `if (FFFF(y[0])) break;` inside the loop on the
// grid nodes: ONE undefined Gaussian value stops the conversion for every following node.
#include "Db/DbGrid.hpp"
#include "LithoRule/RuleShift.hpp"
#include "LithoRule/RuleProp.hpp"
#include "Space/ASpaceObject.hpp"
#include "Basic/Law.hpp"
#include "Basic/VectorHelper.hpp"
#include <iostream>
#include <cmath>
static VectorDouble run(const VectorDouble& gaus) {
  DbGrid* grid = DbGrid::create({20, 20});
  grid->addColumns(gaus, "g", ELoc::Z);
  RuleShift* rule = RuleShift::createFromNames({"S", "S", "F1", "F2", "F3"}, {1., 0.});
  RuleProp* rp = RuleProp::createFromRule(rule, {0.3, 0.3, 0.4});
  int err = rp->gaussToCategory(grid);
  VectorDouble fac = err ? VectorDouble() : grid->getColumnByLocator(ELoc::FACIES);
  delete rp; delete rule; delete grid;
  return fac;
}
int main() {
  defineDefaultSpace(ESpaceType::RN, 2);
  law_set_random_seed(133);
  VectorDouble g = VH::simulateGaussian(400);
  VectorDouble ref = run(g);
  VectorDouble g2 = g; g2[37] = TEST;          // one undefined value, at node 37
  VectorDouble res = run(g2);
  if (ref.empty() || res.empty()) { std::cout << "conversion failed" << std::endl; return 2; }
  int ndiff = 0, first = -1, last = -1;
  for (int i = 0; i < 400; i++) {
    bool same = (std::isnan(ref[i]) && std::isnan(res[i])) || ref[i] == res[i];
    if (!same) { ndiff++; if (first < 0) first = i; last = i; }
  }
  std::cout << "nodes whose facies differ when node 37 is undefined: " << ndiff << " (first " << first << ", last " << last << ")" << std::endl;
  // node 37 itself and the node whose shifted partner it is may legitimately differ
  bool bad = ndiff > 2;
  std::cout << (bad ? "FAIL: one undefined value changes the facies of other nodes" : "PASS") << std::endl;
  return bad;
}
