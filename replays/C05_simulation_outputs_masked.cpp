// Replay of the C05b reports found by the thorough tier: tessellation_poisson() and substitution() skip the masked grid nodes
// but created their output with the value 0: a masked node carried a legal-looking 0 instead of the undefined value.
#include "Db/DbGrid.hpp"
#include "Model/Model.hpp"
#include "Simulation/CalcSimuPartition.hpp"
#include "Simulation/CalcSimuSubstitution.hpp"
#include "Simulation/SimuPartitionParam.hpp"
#include "Simulation/SimuSubstitutionParam.hpp"
#include "Space/ASpaceObject.hpp"
#include <iostream>
#include <cmath>
static int check(DbGrid* grid, const char* what, const String& name) {
  VectorDouble v = grid->getColumn(name);
  if (v.empty()) { std::cout << what << ": no output" << std::endl; return 0; }
  int bad = 0;
  for (int i = 0; i < 5; i++) if (!(std::isnan(v[i]) || v[i] > 1e29)) bad++;       // nodes 0..4 are masked
  std::cout << what << ": masked nodes holding a defined value: " << bad << " / 5" << std::endl;
  return bad;
}
int main() {
  defineDefaultSpace(ESpaceType::RN, 2);
  int bad = 0;
  {
    DbGrid* grid = DbGrid::create({20, 20});
    VectorDouble sel(400, 1.); for (int i = 0; i < 5; i++) sel[i] = 0.;
    grid->addSelection(sel, "sel");
    Model* model = Model::createFromParam(ECov::SPHERICAL, 10.);
    SimuPartitionParam par(50, 0.1);
    (void) tessellation_poisson(grid, model, par, 4321, false);
    bad += check(grid, "tessellation_poisson", "Poisson*");
  }
  {
    DbGrid* grid = DbGrid::create({20, 20});
    VectorDouble sel(400, 1.); for (int i = 0; i < 5; i++) sel[i] = 0.;
    grid->addSelection(sel, "sel");
    SimuSubstitutionParam sub(3, 1.);
    (void) substitution(grid, sub, 4321, false);
    bad += check(grid, "substitution", "SimSub*");
  }
  std::cout << (bad ? "FAIL" : "PASS") << std::endl;
  return bad != 0;
}
