// Replay: with the ball-tree search, masked samples took places among the nmaxi points returned by the tree and were then
// discarded: the neighbourhood held fewer samples than the nmaxi closest ACTIVE ones (19 of 20 targets differ from the plain search).
#include "Db/Db.hpp"
#include "Neigh/NeighMoving.hpp"
#include "Space/ASpaceObject.hpp"
#include "Basic/Law.hpp"
#include <iostream>
#include <algorithm>
int main() {
  defineDefaultSpace(ESpaceType::RN, 2);
  law_set_random_seed(5);
  Db* data = Db::createFillRandom(60, 2, 1);
  VectorDouble sel(60, 1.); for (int i = 0; i < 60; i += 3) sel[i] = 0.;     // one sample out of three is masked
  data->addSelection(sel, "sel");
  Db* target = Db::createFillRandom(20, 2, 0);
  int ndiff = 0;
  for (int it = 0; it < 20; it++) {
    NeighMoving* a = NeighMoving::create(false, 6, 10.); a->attach(data, target);
    NeighMoving* b = NeighMoving::create(false, 6, 10.); b->setBallSearch(true, 5); b->attach(data, target);
    VectorInt ra, rb; a->select(it, ra); b->select(it, rb);
    std::sort(ra.begin(), ra.end()); std::sort(rb.begin(), rb.end());
    if (ra != rb) { ndiff++; if (ndiff <= 3) std::cout << "target " << it << ": plain search " << ra.size() << " samples, ball search " << rb.size() << " samples" << std::endl; }
  }
  std::cout << "targets whose neighbourhood differs between the two searches: " << ndiff << " / 20" << std::endl;
  std::cout << (ndiff ? "FAIL" : "PASS") << std::endl;
  return ndiff != 0;
}
