// Replay: with the ball-tree search a moving neighbourhood whose nmaxi exceeds the number of samples made EVERY target fail
// (the tree refuses k > n): 0 / 9 defined estimates, against 9 / 9 with the plain search.
#include "Db/Db.hpp"
#include "Db/DbGrid.hpp"
#include "Model/Model.hpp"
#include "Neigh/NeighMoving.hpp"
#include "Estimation/CalcKriging.hpp"
#include "Space/ASpaceObject.hpp"
#include "Basic/Law.hpp"
#include <iostream>
#include <cmath>
int main() {
  defineDefaultSpace(ESpaceType::RN, 2);
  law_set_random_seed(31);
  Db* data = Db::createFillRandom(10, 2, 1);
  Model* model = Model::createFromParam(ECov::SPHERICAL, 0.5, 1.);
  for (int ball = 0; ball < 2; ball++) {
    DbGrid* grid = DbGrid::create({3, 3}, {0.3, 0.3}, {0.2, 0.2});
    NeighMoving* nm = NeighMoving::create(false, 20, 10.);     // nmaxi = 20 > 10 samples
    nm->setBallSearch(ball == 1, 5);
    int err = kriging(data, grid, model, nm);
    VectorDouble e = grid->getColumn("*estim");
    int ndef = 0; for (double v : e) if (!std::isnan(v) && v < 1e29) ndef++;
    std::cout << (ball ? "ball search" : "plain search") << ": error " << err << ", defined estimates " << ndef << " / 9" << std::endl;
  }
  return 0;
}
