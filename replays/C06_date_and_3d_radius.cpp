// Replay of two defects of the moving neighbourhood pair checkers:
//  (1) Db::getSampleAsSTInPlace stored the DATE of a sample with setCode(): the dates of the space targets stayed undefined and
//      BiTargetCheckDate refused every pair (empty neighbourhood);
//  (2) BiTargetCheckDistance without anisotropy hard-coded 2 dimensions: in 3-D a sample 100 units above the target was
//      "within radius 5".
#include "Db/Db.hpp"
#include "Neigh/NeighMoving.hpp"
#include "Geometry/BiTargetCheckDate.hpp"
#include "Space/ASpaceObject.hpp"
#include <cstdio>
static void show(const char* t, const VectorInt& r) { printf("%s [", t); for (int i : r) printf(" %d", i); printf(" ]\n"); }
int main()
{
  int bad = 0;
  {
    defineDefaultSpace(ESpaceType::RN, 2);
    Db* dbin = Db::create(); Db* dbout = Db::create();
    dbin->addColumns({0., 1., 2., 3.}, "x", ELoc::X, 0); dbin->addColumns({0., 0., 0., 0.}, "y", ELoc::X, 1);
    dbout->addColumns({1.5}, "x", ELoc::X, 0);           dbout->addColumns({0.}, "y", ELoc::X, 1);
    dbin->addColumns({10., 11., 12., 13.}, "date", ELoc::DATE);
    dbout->addColumns({10.}, "date", ELoc::DATE);
    NeighMoving* neigh = NeighMoving::create(false, 10, 5.);
    neigh->addBiTargetCheck(new BiTargetCheckDate(-5., 5.));
    neigh->attach(dbin, dbout);
    VectorInt r; neigh->select(0, r);
    show("(1) date differences all within [-5,5[: expected [ 0 1 2 3 ], got", r);
    if (r.size() != 4) bad++;
  }
  {
    defineDefaultSpace(ESpaceType::RN, 3);
    Db* dbin = Db::create(); Db* dbout = Db::create();
    dbin->addColumns({0., 1.}, "x", ELoc::X, 0); dbin->addColumns({0., 0.}, "y", ELoc::X, 1); dbin->addColumns({100., 0.}, "z", ELoc::X, 2);
    dbout->addColumns({0.}, "x", ELoc::X, 0);    dbout->addColumns({0.}, "y", ELoc::X, 1);    dbout->addColumns({0.}, "z", ELoc::X, 2);
    NeighMoving* neigh = NeighMoving::create(false, 10, 5.);
    neigh->attach(dbin, dbout);
    VectorInt r; neigh->select(0, r);
    show("(2) 3-D, radius 5, sample 0 is 100 above the target: expected [ 1 ], got", r);
    if (r.size() != 1) bad++;
  }
  printf("%d defect(s) shown\n", bad);
  return bad != 0;
}
