// Replay of the C06 finding reported while seeding C06: the k nearest neighbours of the ball tree are not returned in
// increasing distance order for k >= 7: simultaneous_sort guards the recursion on the right part with `pivot_idx * 2 < size`
// (the algorithm it is ported from uses `pivot_idx + 2 < size`, i.e. "the right part has more than one element").
#include "Db/Db.hpp"
#include "Tree/Ball.hpp"
#include "Tree/KNN.hpp"
#include "Space/ASpaceObject.hpp"
#include "Basic/Law.hpp"
#include <iostream>
int main() {
  defineDefaultSpace(ESpaceType::RN, 2);
  law_set_random_seed(4242);
  Db* db = Db::createFillRandom(300, 2, 0);
  Ball ball(db);
  int bad = 0, total = 0;
  for (int k : {3, 5, 7, 8, 12, 20}) {
    int badk = 0;
    for (int it = 0; it < 200; it++) {
      VectorDouble t = {law_uniform(0., 1.), law_uniform(0., 1.)};
      KNN knn = ball.queryOneAsVD(t, k);
      VectorDouble d = knn.getDistances(0);
      for (int i = 1; i < (int) d.size(); i++) if (d[i] < d[i - 1]) { badk++; break; }
      total++;
    }
    std::cout << "k = " << k << ": queries whose neighbours are not in increasing distance order: " << badk << " / 200" << std::endl;
    bad += badk;
  }
  std::cout << (bad ? "FAIL" : "PASS") << std::endl;
  return bad != 0;
}
