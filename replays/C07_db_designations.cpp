// C07: designations of cells / columns of a Db that do not refer to what they say (unchanged tree; five places)
//  S1  Db::setItem(name, values, useSel=true) -> _setItem swaps the two ranks: setArray(<rank among active>, .., values[<sample rank>])
//  S5  Db::isUIDDefined(iuid) subscripts the identifier table with the column index
//  S9  Db::getAllCoordinatesMat() writes row <sample rank> of a matrix that has one row per ACTIVE sample (heap corruption)
//  S10 Db::getLastUID(number) accepts number == number of columns and reads ranks[-1]
//  S15 Db::deleteColumnsByUIDRange(0, n) returns without deleting (a range starting at identifier 0 is legal)
#include "Enum/ESpaceType.hpp"
#include "Enum/ELoc.hpp"
#include "Db/Db.hpp"
#include "Matrix/MatrixRectangular.hpp"
#include "Space/ASpaceObject.hpp"
#include <cstdio>
#include <cmath>

static Db* mk()
{
  Db* db = Db::create();
  db->addColumns({10., 11., 12., 13.}, "a");
  db->addColumns({20., 21., 22., 23.}, "b");
  db->addColumns({30., 31., 32., 33.}, "c");
  return db;
}

int main(int argc, char** argv)
{
  defineDefaultSpace(ESpaceType::RN, 2);
  int which = (argc > 1) ? atoi(argv[1]) : 0;
  int bad = 0;
  if (which == 0 || which == 1)
  {
    Db* db = mk();
    db->addSelection({1., 0., 1., 1.});
    db->setItem("a", VectorDouble({-1., -2., -3.}), true);
    VectorDouble a = db->getColumn("a", false);
    printf("S1  a = {%g, %g, %g, %g} (expected {-1, 11, -2, -3})\n", a[0], a[1], a[2], a[3]);
    if (!(a[0] == -1. && a[1] == 11. && a[2] == -2. && a[3] == -3.)) bad++;
  }
  if (which == 0 || which == 5)
  {
    Db* db = mk();
    db->deleteColumn("a");
    bool d1 = db->isUIDDefined(1), d2 = db->isUIDDefined(2);
    printf("S5  after deleting 'a': isUIDDefined(1) = %d, isUIDDefined(2) = %d (both columns are alive)\n", (int) d1, (int) d2);
    if (!d1 || !d2) bad++;
  }
  if (which == 0 || which == 10)
  {
    Db* db = mk();
    int u = db->getLastUID(2), v = db->getLastUID(3);
    printf("S10 getLastUID(2) = %d (expected 0), getLastUID(3) = %d (expected -1: there are 3 columns)\n", u, v);
    if (u != 0 || v != -1) bad++;
  }
  if (which == 0 || which == 15)
  {
    Db* db = mk();
    db->deleteColumnsByUIDRange(0, 2);
    printf("S15 deleteColumnsByUIDRange(0, 2): %d columns left (expected 1)\n", db->getColumnNumber());
    if (db->getColumnNumber() != 1) bad++;
  }
  if (which == 0 || which == 9)
  {
    Db* db = Db::create();
    db->addColumns({10., 11., 12., 13.}, "x", ELoc::X, 0);
    db->addColumns({20., 21., 22., 23.}, "y", ELoc::X, 1);
    db->addSelection({0., 0., 1., 1.});
    MatrixRectangular m = db->getAllCoordinatesMat();
    printf("S9  coordinates of the 2 active samples: {%g,%g} {%g,%g} (expected {12,22} {13,23})\n", m.getValue(0, 0), m.getValue(0, 1), m.getValue(1, 0), m.getValue(1, 1));
    if (!(m.getValue(0, 0) == 12. && m.getValue(0, 1) == 22. && m.getValue(1, 0) == 13. && m.getValue(1, 1) == 23.)) bad++;
  }
  printf(bad ? "VIOLATED (%d)\n" : "HOLDS (%d)\n", bad);
  fflush(stdout);
  _Exit(bad ? 1 : 0);          // (S9 corrupts the heap on the unchanged tree: leave without running destructors)
}
