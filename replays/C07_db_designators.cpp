// Replay of the two C07 defects of the pinned commit (both fixed): setLocatorsByColIdx ignored its column indices,
// the public setNameByColIdx created duplicate names.
#include "Db/Db.hpp"
#include "Space/ASpaceObject.hpp"
#include <iostream>
int main() {
  defineDefaultSpace(ESpaceType::RN, 2);
  Db* db = Db::createFillRandom(5, 2, 3);           // rank, x-1, x-2, z-1, z-2, z-3
  db->clearLocators(ELoc::Z);
  int last = db->getColumnNumber() - 1;
  db->setLocatorsByColIdx({last}, ELoc::F, 0);      // the role is asked for the LAST column
  std::cout << "column carrying F1: " << db->getNameByLocator(ELoc::F, 0) << " (expected " << db->getNameByColIdx(last) << ")" << std::endl;
  bool bad1 = db->getNameByLocator(ELoc::F, 0) != db->getNameByColIdx(last);
  db->setNameByColIdx(1, "dup");
  db->setNameByColIdx(2, "dup");
  std::cout << "names: " << db->getNameByColIdx(1) << " , " << db->getNameByColIdx(2) << std::endl;
  bool bad2 = db->getNameByColIdx(1) == db->getNameByColIdx(2);
  std::cout << (bad1 || bad2 ? "FAIL" : "PASS") << std::endl;
  return bad1 || bad2;
}
