// C07: Db::resetReduce (createReduce) re-creates the coordinates of a reduced GRID when the requested variables do not include
// them.  It decides whether to pick the coordinates of the selected samples with `flagMask = (_nech != dbin->getSampleNumber())`:
// a rank list as long as the grid (a permutation, or repeated ranks) gets the coordinates in the ORIGINAL order while the values
// follow the list - the rows of the new data base no longer describe one sample each.
#include "Enum/ESpaceType.hpp"
#include "Enum/ELoc.hpp"
#include "Db/Db.hpp"
#include "Db/DbGrid.hpp"
#include "Space/ASpaceObject.hpp"
#include <cstdio>
#include <cmath>

int main()
{
  defineDefaultSpace(ESpaceType::RN, 2);
  DbGrid* g = DbGrid::create({3, 2}, {1., 1.}, {10., 20.});
  VectorDouble z(6);
  for (int i = 0; i < 6; i++) z[i] = 100. + i;           // z identifies the node
  g->addColumns(z, "z", ELoc::Z, 0);
  VectorInt ranks = {5, 4, 3, 2, 1, 0};                   // all the nodes, reversed
  Db* r = Db::createReduce(g, {"z"}, ranks);
  int bad = 0;
  for (int i = 0; i < r->getSampleNumber(); i++)
  {
    int node = (int) (r->getValue("z", i) - 100.);
    double xe = g->getCoordinate(node, 0), ye = g->getCoordinate(node, 1);
    double x = r->getCoordinate(i, 0), y = r->getCoordinate(i, 1);
    if (std::fabs(x - xe) > 1e-12 || std::fabs(y - ye) > 1e-12)
    {
      printf("row %d: z says node %d at (%g,%g), stored coordinates (%g,%g)\n", i, node, xe, ye, x, y);
      bad++;
    }
  }
  printf(bad ? "VIOLATED (%d rows)\n" : "HOLDS (%d)\n", bad);
  return bad ? 1 : 0;
}
