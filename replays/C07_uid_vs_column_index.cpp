// C07 / C19 (rule K, uidkinds.py): column INDICES used where the Db API expects persistent identifiers (UID).  The two numberings
// coincide until a column is deleted.  On a grid from which a column was deleted before:
//  (a) tessellation_poisson() takes `getColumnNumber() - 1` as the UID of its internal simulation: it reads / writes / deletes another
//      column - the call returns 0, its own result is deleted and the internal Gaussian simulation is left in the grid;
//  (b) simtub_constraints() takes `getColumnNumber()` as the UID of the first simulation it will create: it validates and returns
//      other columns than the ones it simulated.
#include "geoslib_f.h"
#include "geoslib_old_f.h"
#include "Enum/ESpaceType.hpp"
#include "Enum/ECov.hpp"
#include "Db/DbGrid.hpp"
#include "Model/Model.hpp"
#include "Simulation/CalcSimuPartition.hpp"
#include "Simulation/SimuPartitionParam.hpp"
#include "Space/ASpaceObject.hpp"
#include <cstdio>

static int valid_all(int, int, int, int*, double*, double*, double, double, VectorDouble&) { return 1; }

int main()
{
  defineDefaultSpace(ESpaceType::RN, 2);
  int bad = 0;
  {
    DbGrid* grid = DbGrid::create({20, 20}, {1., 1.}, {0., 0.});
    grid->addColumnsByConstant(1, 1., "A");
    grid->addColumnsByConstant(1, 2., "B");
    grid->deleteColumn("A");                              // from now on UID != column index
    Model* model = Model::createFromParam(ECov::SPHERICAL, 5., 1.);
    SimuPartitionParam parparam(100, 0.5);
    VectorString before = grid->getAllNames();
    int err = tessellation_poisson(grid, model, parparam, 1234, 0);
    VectorString after = grid->getAllNames();
    printf("(a) tessellation_poisson returns %d; columns:", err);
    for (auto& s : after) printf(" %s", s.c_str());
    printf("\n");
    bool has_result = false, has_simu = false;
    for (auto& s : after) { if (s.find("Poisson") != String::npos) has_result = true; if (s.find("Simu") != String::npos) has_simu = true; }
    if (err == 0 && (!has_result || has_simu)) { printf("    the documented output is %s, the internal simulation is %s\n", has_result ? "present" : "MISSING", has_simu ? "LEFT in the grid" : "removed"); bad++; }
  }
  {
    DbGrid* grid = DbGrid::create({12, 10}, {1., 1.});
    grid->addColumnsByConstant(1, 1., "A");
    grid->addColumnsByConstant(1, 7., "B");
    grid->deleteColumn("A");
    Model* model = Model::createFromParam(ECov::SPHERICAL, 5., 1.);
    VectorInt cols;
    int err = simtub_constraints(nullptr, grid, model, nullptr, 5321, 30, 2, 1, 5, cols, valid_all);
    printf("(b) simtub_constraints returns %d, %d identifiers:", err, (int) cols.size());
    int nconst = 0;
    for (int iuid : cols)
    {
      String nm = grid->getNameByUID(iuid);
      VectorDouble v = grid->getColumnByUID(iuid);
      bool cst = !v.empty();
      for (double x : v) if (x != v[0]) cst = false;
      printf(" %d('%s'%s)", iuid, nm.c_str(), v.empty() ? ", no such column" : (cst ? ", constant" : ""));
      if (v.empty() || cst) nconst++;
    }
    printf("\n");
    if (err == 0 && nconst > 0) { printf("    %d of the returned identifiers do not designate a simulation\n", nconst); bad++; }
  }
  printf(bad ? "VIOLATED (%d)\n" : "HOLDS (%d)\n", bad);
  return bad ? 1 : 0;
}
