// C08 (save / reload): the reader of locator names (locatorIdentify) matches the keywords by PREFIX in enum order, so "facies1" is
// read as keyword "f" (external drift) with rank atoi("acies1") = 0, "gausfac1" as "g" (gradient), ...: a Db whose column carries
// the role FACIES (or GAUSFAC, SIMU? ...) comes back from a neutral file with another role.
#include "Enum/ESpaceType.hpp"
#include "Enum/ELoc.hpp"
#include "Db/Db.hpp"
#include "Basic/ASerializable.hpp"
#include "Space/ASpaceObject.hpp"
#include <cstdio>
#include <string>
#include <unistd.h>

int main()
{
  defineDefaultSpace(ESpaceType::RN, 2);
  char tmpl[] = "/tmp/c08lpXXXXXX";
  std::string DIR = std::string(mkdtemp(tmpl)) + "/";
  ASerializable::setContainerName(true, DIR, false);
  ASerializable::setPrefixName("");
  int bad = 0;
  auto it = ELoc::getIterator();
  while (it.hasNext())
  {
    ELoc loc = *it;
    it.toNext();
    if (loc == ELoc::UNKNOWN) continue;
    Db* db = Db::create();
    db->addColumns({1., 2., 3.}, "x", ELoc::X, 0);
    db->addColumns({0., 1., 0.}, "v", loc, 0);
    if (db->getLocNumber(loc) != 1) continue;
    if (!db->dumpToNF("d.nf")) continue;
    Db* back = Db::createFromNF("d.nf", false);
    if (back == nullptr) { printf("role %s: the saved file is refused\n", std::string(loc.getKey()).c_str()); bad++; continue; }
    if (back->getLocNumber(loc) != 1)
    {
      ELoc l2; int r2 = -1;
      (void) back->getLocatorByColIdx(back->getColIdx("v"), &l2, &r2);
      printf("role %s: lost at reload (column 'v' now has role %s, rank %d)\n", std::string(loc.getKey()).c_str(), std::string(l2.getKey()).c_str(), r2);
      bad++;
    }
  }
  printf(bad ? "VIOLATED (%d roles do not survive a save / reload)\n" : "HOLDS (%d)\n", bad);
  return bad ? 1 : 0;
}
