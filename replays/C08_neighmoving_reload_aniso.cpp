// Replay: an anisotropic moving neighbourhood did not come back from its own neutral file: the reader multiplied the anisotropy
// coefficients by the radius (semi-axes radius^2 * coeff) and restored the rotation matrix without its flag (rotation dropped).
#include "Neigh/NeighMoving.hpp"
#include "Db/Db.hpp"
#include "Basic/ASerializable.hpp"
#include "Space/ASpaceObject.hpp"
#include <cstdio>
#include <cstdlib>
int main()
{
  defineDefaultSpace(ESpaceType::RN, 2);
  ASerializable::setContainerName(true);
  NeighMoving* neigh = NeighMoving::create(false, 10000, 10., 1, 1, ITEST, {1., 0.5}, {30., 0.});
  neigh->dumpToNF("replay_neigh.ascii");
  NeighMoving* neigh2 = NeighMoving::createFromNF("replay_neigh.ascii", false);
  VectorDouble x, y; srand(7);
  for (int i = 0; i < 400; i++) { x.push_back(-20. + 40. * rand() / RAND_MAX); y.push_back(-20. + 40. * rand() / RAND_MAX); }
  Db* dbin = Db::create(); dbin->addColumns(x, "x", ELoc::X, 0); dbin->addColumns(y, "y", ELoc::X, 1);
  Db* dbout = Db::create(); dbout->addColumns({0.}, "x", ELoc::X, 0); dbout->addColumns({0.}, "y", ELoc::X, 1);
  neigh->attach(dbin, dbout); neigh2->attach(dbin, dbout);
  VectorInt r1, r2; neigh->select(0, r1); neigh2->select(0, r2);
  bool same = r1.size() == r2.size();
  for (int i = 0; same && i < (int) r1.size(); i++) same = r1[i] == r2[i];
  printf("original: %d neighbours; reloaded: %d neighbours; identical=%d (expected identical)\n", (int) r1.size(), (int) r2.size(), (int) same);
  remove("replay_neigh.ascii");
  return !same;
}
