// Replay of the C08 'clean start' finding (fixed): Faults::_deserialize / FracEnviron::_deserialize appended to the
// containers of an object that already held data.
#include "Faults/Faults.hpp"
#include "Basic/PolyLine2D.hpp"
#include <sstream>
#include <iostream>
int main() {
  Faults f;
  f.addFault(PolyLine2D({0., 1.}, {0., 1.}));
  std::stringstream ss;
  f.serialize(ss);
  std::string text = ss.str();
  std::stringstream in(text);
  f.deserialize(in);                       // reload the same content into the populated object
  std::cout << "faults after reloading 1 fault into an object holding 1 fault: " << f.getNFaults() << " (expected 1)" << std::endl;
  return f.getNFaults() != 1;
}
