// C08: objects that do not come back from their own neutral file, and writers that report a success they did not have (unchanged tree)
//  (a) NeighImage::createFromNF crashes on any file written by NeighImage::dumpToNF (_imageRadius[idim] written into an empty vector)
//  (b) MeshEStandard::_deserialize never sets the space dimension it read: the reloaded meshing has getNDim() = 0
//  (c) ASerializable::dumpToNF returns true when the file cannot be opened
//  (d) Rotation::isSame compares the object with itself (always true)
#include "Enum/ESpaceType.hpp"
#include "Neigh/NeighImage.hpp"
#include "Mesh/MeshEStandard.hpp"
#include "Matrix/MatrixRectangular.hpp"
#include "Matrix/MatrixInt.hpp"
#include "Basic/ASerializable.hpp"
#include "Geometry/Rotation.hpp"
#include "Db/Db.hpp"
#include "Space/ASpaceObject.hpp"
#include <cstdio>
#include <string>
#include <unistd.h>
#include <sys/wait.h>

int main()
{
  defineDefaultSpace(ESpaceType::RN, 2);
  char tmpl[] = "/tmp/c08rbXXXXXX";
  std::string DIR = std::string(mkdtemp(tmpl)) + "/";
  ASerializable::setContainerName(true, DIR, false);
  ASerializable::setPrefixName("");
  int bad = 0;
  {
    NeighImage* n = NeighImage::create({2, 3}, 1);
    n->dumpToNF("ni.nf");
    pid_t pid = fork();
    if (pid == 0)
    {
      NeighImage* m = NeighImage::createFromNF("ni.nf", false);
      _exit((m != nullptr && m->getImageRadius().size() == 2 && m->getImageRadius(1) == 3) ? 0 : 3);
    }
    int st = 0; waitpid(pid, &st, 0);
    if (WIFSIGNALED(st)) { printf("(a) NeighImage::createFromNF on its own file: killed by signal %d\n", WTERMSIG(st)); bad++; }
    else { printf("(a) NeighImage reload: exit %d\n", WEXITSTATUS(st)); if (WEXITSTATUS(st)) bad++; }
  }
  {
    MatrixRectangular apices(4, 2);
    double xy[4][2] = {{0, 0}, {1, 0}, {0, 1}, {1, 1}};
    for (int i = 0; i < 4; i++) for (int j = 0; j < 2; j++) apices.setValue(i, j, xy[i][j]);
    MatrixInt meshes(2, 3);
    int tr[2][3] = {{0, 1, 2}, {1, 2, 3}};
    for (int i = 0; i < 2; i++) for (int j = 0; j < 3; j++) meshes.setValue(i, j, tr[i][j]);
    MeshEStandard* me = MeshEStandard::createFromExternal(apices, meshes, false);
    me->dumpToNF("me.nf");
    MeshEStandard* back = MeshEStandard::createFromNF("me.nf", false);
    if (back) printf("(b) MeshEStandard: ndim %d -> %d, meshes %d -> %d\n", me->getNDim(), back->getNDim(), me->getNMeshes(), back->getNMeshes());
    if (!back || back->getNDim() != me->getNDim() || back->getNMeshes() != me->getNMeshes()) bad++;
  }
  {
    Db* db = Db::create();
    db->addColumns({1., 2.}, "a");
    bool ok = db->dumpToNF("/nonexistent_dir_xyz/sub/d.nf");
    printf("(c) dumpToNF towards a directory that does not exist returns %s\n", ok ? "true" : "false");
    if (ok) bad++;
  }
  {
    Rotation r1(2), r2(2);
    r1.setAngles({30., 0.});
    r2.setAngles({75., 0.});
    bool same = r1.isSame(r2);
    printf("(d) rotations of 30 and 75 degrees: isSame = %d\n", (int) same);
    if (same) bad++;
  }
  printf(bad ? "VIOLATED (%d)\n" : "HOLDS (%d)\n", bad);
  return bad ? 1 : 0;
}
