// Replay: Vario::deserialize on an object that already holds calculation directions appended the directions of the file
// to the old ones (the result arrays are resized, the VarioParam was not emptied).
#include "Variogram/Vario.hpp"
#include "Variogram/VarioParam.hpp"
#include "Variogram/DirParam.hpp"
#include "Db/Db.hpp"
#include "Basic/VectorHelper.hpp"
#include "Basic/Law.hpp"
#include <sstream>
#include <cstdio>
int main()
{
  law_set_random_seed(13);
  int n = 50;
  Db* db = Db::create();
  db->addColumns(VH::simulateUniform(n), "x", ELoc::X, 0);
  db->addColumns(VH::simulateUniform(n), "y", ELoc::X, 1);
  db->addColumns(VH::simulateGaussian(n), "z", ELoc::Z, 0);
  VarioParam vp;
  DirParam dp(4, 0.1);
  vp.addDir(dp);
  Vario v(vp);
  v.compute(db, ECalcVario::VARIOGRAM);
  std::stringstream ss;
  v.serialize(ss, false);
  Vario w(vp);
  w.compute(db, ECalcVario::VARIOGRAM);
  std::stringstream s1(ss.str());
  bool ok = w.deserialize(s1, false);
  printf("Vario::deserialize over an object in use: ok=%d, directions saved=%d, after reload=%d (expected equal)\n", (int) ok, v.getDirectionNumber(), w.getDirectionNumber());
  return w.getDirectionNumber() != v.getDirectionNumber();
}
