#!/bin/sh
# usage: ./build.sh X   (compiles X.cpp -> X against the pristine library)
g++ -std=gnu++20 -O1 -g -I/tmp/wt-C08/include -I/tmp/wt-C08/_build -isystem /usr/include/eigen3 $1.cpp -o $1 -L/tmp/wt-C08/_build/RelWithDebInfo -lgstlearn -Wl,-rpath,/tmp/wt-C08/_build/RelWithDebInfo
