// C09 replay, kind 3 (GridF2G::readGridFromFile). There is no F2G writer in the library, so the
// driver writes the text itself, following the grammar of the reader.
// usage: f2g valid | long <n> | val <n>
//   long <n>: the first header token is n characters long (char string[100])
//   val <n> : one data value is n characters long (char valread[10])
#include "Db/DbGrid.hpp"
#include "OutputFormat/AOF.hpp"
#include <fstream>
#include <iostream>
#include <string>
int main(int argc, char* argv[])
{
  std::string mode = argc > 1 ? argv[1] : "valid";
  int n = argc > 2 ? atoi(argv[2]) : 0;
  std::string fn = "/tmp/replay09/r9-f2g-" + mode + ".grid";
  {
    std::ofstream o(fn);
    if (mode == "long") o << std::string(n, 'A') << " 2\n"; else o << "F2G_DIM 2\n";
    o << "F2G_VERSION 1\nF2G_LOCATION 0 0 0\nF2G_ROTATION 0\nF2G_ORIGIN 0 0\nF2G_NB_NODES 2 2\nF2G_LAGS 1 1\n"
         "F2G_ORDER +Y +X +Z\nF2G_NB_VARIABLES 1\nF2G_VARIABLE_1 v\nF2G_UNDEFINED_1 -999\nF2G_VALUES\n";
    if (mode == "val") o << "1 " << std::string(n, '7') << " 3 4\n"; else o << "1 2 3 4\n";
  }
  std::cout << "[driver] reading " << fn << std::endl;
  DbGrid* r = db_grid_read_f2g(fn.c_str(), 1);
  std::cout << "[driver] db_grid_read_f2g returned " << (r ? "NON-NULL" : "nullptr") << std::endl;
  if (r) r->display();
  std::cout << "[driver] normal end" << std::endl;
  return 0;
}
