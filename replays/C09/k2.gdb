set pagination off
set breakpoint pending on
break io.cpp:392
run nul
printf "at io.cpp:392: LINE[0]=0x%02x LINE[1]='%c'  => strlen(LINE)=%d ;  &LINE=%p\n", (unsigned char)LINE[0], LINE[1], $_strlen(LINE), &LINE[0]
printf "LINE_MEM=%p..%p (10000 bytes); byte at LINE-1 (%p) holds 0x%02x\n", &LINE_MEM[0], &LINE_MEM[0]+10000, &LINE[0]-1, (unsigned char)*(&LINE[0]-1)
set var *(&LINE[0]-1) = 0x5a
printf "sentinel 0x5a planted at LINE-1\n"
watch -l *(char*)(&LINE[0]-1)
continue
printf "after watchpoint hit: byte at LINE-1 = 0x%02x\n", (unsigned char)*(&LINE[0]-1)
bt 4
delete
continue
