// Generic replay driver for C09 (neutral-file readers)
// usage: nf <class> show                      : write the valid file and print it with line numbers
//        nf <class> <lineno> <newtext>        : replace line <lineno> (1-based) by <newtext>
//        nf <class> <lineno> +<text>          : append <text> at the end of line <lineno>
//        nf <class> <lineno> CUT              : truncate the file just after line <lineno>
//        nf <class> <lineno> CUTAT<k>         : keep lines 1..lineno-1 and the first k bytes of line <lineno>
//        nf <class> 0 NONE                    : no corruption (control)
// The driver writes the valid file through the API (dumpToNF), corrupts the text,
// loads it again through createFromNF, prints what came back, then (if non null)
// displays and re-saves the object.
#include "Db/Db.hpp"
#include "Db/DbGrid.hpp"
#include "Variogram/VarioParam.hpp"
#include "Variogram/Vario.hpp"
#include "Matrix/Table.hpp"
#include "Matrix/MatrixRectangular.hpp"
#include "Matrix/MatrixInt.hpp"
#include "Model/Model.hpp"
#include "Basic/File.hpp"
#include "Basic/Law.hpp"
#include "Basic/PolyLine2D.hpp"
#include "Basic/VectorHelper.hpp"
#include "Polygon/Polygons.hpp"
#include "LithoRule/Rule.hpp"
#include "Anamorphosis/AnamHermite.hpp"
#include "Mesh/MeshEStandard.hpp"
#include "Neigh/NeighMoving.hpp"
#include "Faults/Faults.hpp"
#include "Fractures/FracEnviron.hpp"
#include "Fractures/FracFamily.hpp"
#include "Fractures/FracFault.hpp"
#include <fstream>
#include <iostream>
#include <string>
#include <vector>
#include <cstring>

static const std::string DIR = "/tmp/replay09/";
static const std::string PFX = "r9-";

static Db* makeDb()
{
  int nech = 4;
  Db* db = Db::createFromBox(nech, {0., 0.}, {1., 1.}, 32432);
  VectorDouble v1 = VH::simulateGaussian(nech);
  db->addColumns(v1, "myvar1", ELoc::Z, 0);
  return db;
}

int main(int argc, char* argv[])
{
  if (argc < 3) { std::cerr << "usage\n"; return 2; }
  std::string cls = argv[1];
  std::string a2  = argv[2];
  std::string a3  = (argc > 3) ? argv[3] : "";

  ASerializable::setContainerName(false, DIR);
  ASerializable::setPrefixName(PFX);

  std::string good = cls + ".nf";
  std::string bad  = cls + "-bad.nf";
  std::string again = cls + "-again.nf";

  // ---------- 1. write a valid file through the API
  Db* db = makeDb();
  if (cls == "Db") db->dumpToNF(good);
  else if (cls == "DbGrid")
  {
    DbGrid* g = DbGrid::create({3, 2}, {0.1, 0.3}, {0.2, 0.4});
    VectorDouble v = VH::simulateGaussian(g->getSampleNumber());
    g->addColumns(v, "myvar1", ELoc::Z, 0);
    g->dumpToNF(good);
  }
  else if (cls == "Model")
  {
    Model* m = Model::createFromParam(ECov::EXPONENTIAL, 0.3, 0.2, 1.);
    m->dumpToNF(good);
  }
  else if (cls == "Vario")
  {
    Db* d2 = Db::createFromBox(20, {0., 0.}, {1., 1.}, 32432);
    VectorDouble v1 = VH::simulateGaussian(20);
    d2->addColumns(v1, "myvar1", ELoc::Z, 0);
    VarioParam vp;
    DirParam dp(3, 0.1);
    vp.addDir(dp);
    Vario va(vp);
    va.compute(d2, ECalcVario::VARIOGRAM);
    va.dumpToNF(good);
  }
  else if (cls == "Polygons")
  {
    Polygons p;
    p.resetFromDb(db);
    p.dumpToNF(good);
  }
  else if (cls == "Table")
  {
    Table* t = Table::create(3, 2);
    for (int i = 0; i < 3; i++)
      for (int j = 0; j < 2; j++) t->setValue(i, j, 10. * i + j + 0.5);
    t->dumpToNF(good);
  }
  else if (cls == "AnamHermite")
  {
    AnamHermite* a = AnamHermite::create(5);
    VectorDouble z = VH::simulateGaussian(50);
    a->fitFromArray(z);
    a->dumpToNF(good);
  }
  else if (cls == "MeshEStandard")
  {
    MatrixRectangular ap(4, 2);
    double xy[4][2] = {{0, 0}, {1, 0}, {0, 1}, {1, 1}};
    for (int i = 0; i < 4; i++)
      for (int j = 0; j < 2; j++) ap.setValue(i, j, xy[i][j]);
    MatrixInt ms(2, 3);
    int tr[2][3] = {{0, 1, 2}, {1, 2, 3}};
    for (int i = 0; i < 2; i++)
      for (int j = 0; j < 3; j++) ms.setValue(i, j, tr[i][j]);
    MeshEStandard* m = MeshEStandard::createFromExternal(ap, ms);
    m->dumpToNF(good);
  }
  else if (cls == "NeighMoving")
  {
    NeighMoving* n = NeighMoving::create(false, 10, 0.5);
    n->dumpToNF(good);
  }
  else if (cls == "Rule")
  {
    Rule* r = Rule::createFromNames({"S", "F1", "T", "F2", "S", "F3", "F4"});
    r->dumpToNF(good);
  }
  else if (cls == "Faults")
  {
    Faults f;
    PolyLine2D pl({0., 1., 2.}, {0., 1., 0.});
    f.addFault(pl);
    f.dumpToNF(good);
  }
  else if (cls == "PolyLine2D")
  {
    PolyLine2D pl({0., 1., 2.}, {0., 1., 0.});
    pl.dumpToNF(good);
  }
  else if (cls == "FracEnviron")
  {
    FracEnviron* e = FracEnviron::create(10., 10., 0., 0., 1., 0.1);
    FracFamily fam(0., 5., 1., 0.1, 0.5, 1., 1., 1.);
    e->addFamily(fam);
    FracFault flt(3., 10.);
    flt.addFaultPerFamily(1., 1., 2., 2.);
    e->addFault(flt);
    e->dumpToNF(good);
  }
  else { std::cerr << "unknown class\n"; return 2; }

  // ---------- 2. corrupt the text
  std::vector<std::string> lines;
  {
    std::ifstream in(DIR + PFX + good);
    std::string l;
    while (std::getline(in, l)) lines.push_back(l);
  }
  if (a2 == "show")
  {
    for (size_t i = 0; i < lines.size(); i++)
      std::cout << (i + 1) << ": " << lines[i] << "\n";
    return 0;
  }
  int ln = atoi(a2.c_str());
  {
    std::ofstream out(DIR + PFX + bad, std::ios::binary);
    for (int i = 0; i < (int)lines.size(); i++)
    {
      if (i + 1 == ln)
      {
        if (a3 == "CUT") { out << lines[i] << "\n"; break; }
        if (a3.rfind("CUTAT", 0) == 0)
        {
          int k = atoi(a3.c_str() + 5);
          out << lines[i].substr(0, k);
          break;
        }
        if (!a3.empty() && a3[0] == '+') out << lines[i] << a3.substr(1) << "\n";
        else out << a3 << "\n";
      }
      else
        out << lines[i] << "\n";
    }
  }
  if (ln > 0)
    std::cout << "[driver] line " << ln << " was: '" << lines[ln - 1] << "'  op: '" << a3 << "'" << std::endl;

  // ---------- 3. load it again
  std::cout << "[driver] loading " << DIR + PFX + bad << std::endl;
  bool verbose = true;
#define REPORT(p) std::cout << "[driver] createFromNF returned " << ((p) ? "NON-NULL (success)" : "nullptr (failure)") << std::endl
  if (cls == "Db")
  {
    Db* r = Db::createFromNF(bad, verbose); REPORT(r);
    if (r) { std::cout << "[driver] ncol=" << r->getColumnNumber() << " nech=" << r->getSampleNumber() << std::endl; r->display(); r->dumpToNF(again); }
  }
  else if (cls == "DbGrid")
  {
    DbGrid* r = DbGrid::createFromNF(bad, verbose); REPORT(r);
    if (r)
    {
      std::cout << "[driver] ndim=" << r->getNDim() << " grid ntotal=" << r->getGrid().getNTotal()
                << " ncol=" << r->getColumnNumber() << " nech=" << r->getSampleNumber()
                << " isConsistent=" << r->isConsistent() << std::endl;
      r->display(); r->dumpToNF(again);
    }
  }
  else if (cls == "Model") { Model* r = Model::createFromNF(bad, verbose); REPORT(r); if (r) { r->display(); r->dumpToNF(again);} }
  else if (cls == "Vario") { Vario* r = Vario::createFromNF(bad, verbose); REPORT(r); if (r) { r->display(); r->dumpToNF(again);} }
  else if (cls == "Polygons") { Polygons* r = Polygons::createFromNF(bad, verbose); REPORT(r); if (r) { r->display(); r->dumpToNF(again);} }
  else if (cls == "Table")
  {
    Table* r = Table::createFromNF(bad, verbose); REPORT(r);
    if (r) { std::cout << "[driver] nrows=" << r->getNRows() << " ncols=" << r->getNCols() << std::endl; r->display(); r->dumpToNF(again);}
  }
  else if (cls == "AnamHermite") { AnamHermite* r = AnamHermite::createFromNF(bad, verbose); REPORT(r); if (r) { r->display(); r->dumpToNF(again);} }
  else if (cls == "MeshEStandard") { MeshEStandard* r = MeshEStandard::createFromNF(bad, verbose); REPORT(r); if (r) { r->display(); r->dumpToNF(again);} }
  else if (cls == "NeighMoving") { NeighMoving* r = NeighMoving::createFromNF(bad, verbose); REPORT(r); if (r) { r->display(); r->dumpToNF(again);} }
  else if (cls == "Rule") { Rule* r = Rule::createFromNF(bad, verbose); REPORT(r); if (r) { r->display(); r->dumpToNF(again);} }
  else if (cls == "Faults") { Faults* r = Faults::createFromNF(bad, verbose); REPORT(r); if (r) { r->display(); r->dumpToNF(again);} }
  else if (cls == "PolyLine2D") { PolyLine2D* r = PolyLine2D::createFromNF(bad, verbose); REPORT(r); if (r) { r->display(); r->dumpToNF(again);} }
  else if (cls == "FracEnviron") { FracEnviron* r = FracEnviron::createFromNF(bad, verbose); REPORT(r); if (r) { r->display(); r->dumpToNF(again);} }
  std::cout << "[driver] normal end" << std::endl;
  return 0;
}
