#!/bin/bash
# kind 4: class, line, new text
run() {
  echo "##### ./nf $1 $2 '$3'"
  timeout 120 ./nf "$1" "$2" "$3" > out4.tmp 2>&1
  st=$?
  grep -E "^\[driver\] (line|createFromNF|ncol|nrows|ndim|normal)|terminate|what\(\)|Segmentation|Aborted|expecting|Error|rror" out4.tmp | cut -c1-200 | head -8
  echo "exit=$st"
}
run Db 3 "-1 # Number of samples"
run Db 3 "2000000000 # Number of samples"
run Db 2 "-1 # Number of variables"
run DbGrid 2 "-1 # Space Dimension"
run DbGrid 2 "2000000000 # Space Dimension"
run Vario 3 "-1 # Number of variables"
run Vario 3 "2000000000 # Number of variables"
run Polygons 5 "-1 # Number of Points"
run Polygons 5 "2000000000 # Number of Points"
run Table 2 "-1 # Number of Columns"
run Table 3 "2000000000 # Number of Rows"
run AnamHermite 9 "-1 # Number of Hermite Polynomials"
run AnamHermite 9 "2000000000 # Number of Hermite Polynomials"
run MeshEStandard 3 "-1 # Napices"
run MeshEStandard 3 "2000000000 # Napices"
run MeshEStandard 5 "-1 # Number of Meshes"
run Rule 4 "-1 # Number of nodes"
run Rule 4 "2000000000 # Number of nodes"
run Faults 3 "-1 # Number of Points"
run Faults 3 "2000000000 # Number of Points"
run Faults 2 "2000000000 # Number of Faults"
run FracEnviron 24 "-1 # Number of Families"
run FracEnviron 24 "2000000000 # Number of Families"
run Model 2 "-1 1 NA # General parameters"
run Model 2 "2000000000 1 NA # General parameters"
run NeighMoving 2 "-1 # Space Dimension"
run NeighMoving 2 "2000000000 # Space Dimension"
