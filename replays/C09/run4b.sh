#!/bin/bash
# kind 4, second pass on the cases that did not finish in 120 s: bounded address space (20 GB) and 40 s,
# report elapsed, peak RSS, and a stack sample taken after 15 s
run() {
  echo "##### ./nf $1 $2 '$3'   [ulimit -v 20GB, timeout 40s]"
  ( ulimit -v 20000000; /usr/bin/time -f "elapsed=%es maxrss=%MKB" timeout 40 ./nf "$1" "$2" "$3" > out4.tmp 2>&1 ) &
  sleep 15
  pid=$(pgrep -n -x nf)
  if [ -n "$pid" ]; then
     echo "--- still running after 15 s; stack sample:"
     gdb -q -batch -p $pid -ex "bt 8" 2>/dev/null | grep "^#" | cut -c1-170
  fi
  wait
  grep -E "^\[driver\] (createFromNF|normal)|terminate|what\(\)|expecting|elapsed|Command" out4.tmp | cut -c1-200 | head -8
}
run "$@"
