// C09 replay, kinds 2 and 3: Zycor grid reader (GridZycor::readGridFromFile, built on _record_read/_file_read)
// usage: zycor none | nul | long <n> | nx <value>
//   none : control (valid file is read back)
//   nul  : the first line of the file is made to start with a NUL byte
//   long <n> : the 2nd header token ("GRID") is replaced by a token of n characters 'A'
//   dims <nx> <ny> : replace the two grid counts of header line 3 (see the valid file)
#include "Db/DbGrid.hpp"
#include "Basic/VectorHelper.hpp"
#include "Basic/ASerializable.hpp"
#include "OutputFormat/AOF.hpp"
#include <fstream>
#include <iostream>
#include <string>
#include <vector>
int main(int argc, char* argv[])
{
  std::string mode = argc > 1 ? argv[1] : "none";
  ASerializable::setContainerName(false, "/tmp/replay09/");
  ASerializable::setPrefixName("r9-");
  DbGrid* g = DbGrid::create({4, 3}, {1., 1.}, {0., 0.});
  VectorDouble v = VH::simulateGaussian(g->getSampleNumber());
  g->addColumns(v, "z", ELoc::Z, 0);
  std::string good = ASerializable::buildFileName(2, "Zycor.grid");
  std::string bad  = ASerializable::buildFileName(2, "Zycor-bad.grid");
  if (db_grid_write_zycor(good.c_str(), g, g->getLastUID())) { std::cerr << "write failed\n"; return 2; }

  std::vector<std::string> lines;
  { std::ifstream in(good); std::string l; while (std::getline(in, l)) lines.push_back(l); }
  if (mode == "show") { for (size_t i = 0; i < lines.size(); i++) std::cout << i + 1 << ": " << lines[i] << "\n"; return 0; }
  {
    std::ofstream out(bad, std::ios::binary);
    for (size_t i = 0; i < lines.size(); i++)
    {
      std::string l = lines[i];
      if (i == 0 && mode == "nul") { out.put('\0'); out << l << "\n"; continue; }
      if (mode == "long")
      {
        size_t p = l.find("GRID");
        if (p != std::string::npos) l.replace(p, 4, std::string(atoi(argv[2]), 'A'));
      }
      out << l << "\n";
    }
  }
  std::cout << "[driver] reading " << bad << " (mode " << mode << ")" << std::endl;
  DbGrid* r = db_grid_read_zycor(bad.c_str(), 1);
  std::cout << "[driver] db_grid_read_zycor returned " << (r ? "NON-NULL" : "nullptr") << std::endl;
  if (r) std::cout << "[driver] nech=" << r->getSampleNumber() << " ncol=" << r->getColumnNumber() << std::endl;
  std::cout << "[driver] normal end" << std::endl;
  return 0;
}
