// Replay: a CSV file cut inside a data row (or reduced to its header) made Db::createFromCSV terminate the process (uncaught
// AException 'Error in the dimension of names'): csv_table_read reported success with a table that is not rows x columns.
#include "Db/Db.hpp"
#include "Basic/CSVformat.hpp"
#include "Space/ASpaceObject.hpp"
#include <fstream>
#include <iostream>
#include <sys/wait.h>
#include <unistd.h>
static int run(const char* what, const char* content) {
  { std::ofstream f("/tmp/rp/cut.csv"); f << content; }
  pid_t p = fork();
  if (p == 0) { CSVformat fmt(true, 0, ',', '.', "NA"); Db* db = Db::createFromCSV("/tmp/rp/cut.csv", fmt, false); _exit(db == nullptr ? 0 : 0); }
  int st = 0; waitpid(p, &st, 0);
  bool bad = !(WIFEXITED(st) && WEXITSTATUS(st) == 0);
  std::cout << what << ": " << (bad ? "process terminated (uncaught exception / signal)" : "returned") << std::endl;
  return bad;
}
int main() {
  defineDefaultSpace(ESpaceType::RN, 2);
  int bad = 0;
  bad += run("complete file      ", "x,y,z\n1,2,3\n4,5,6\n");
  bad += run("cut inside a row   ", "x,y,z\n1,2,3\n4,5\n");
  bad += run("header only        ", "x,y,z\n");
  std::cout << (bad ? "FAIL" : "PASS") << std::endl;
  return bad != 0;
}
