// C09: two ways a refused file is not "failed cleanly" (unchanged tree)
//  (a) every early `return` of the grid exchange readers (Zycor, BMP, IfpEn, F2G, LAS) leaves the FILE* open: with 256 descriptors
//      allowed, 300 refused files make the next VALID file be refused
//  (b) Db::_deserialize returns TRUE when locatorIdentify refuses a locator name: the file is reported as read and the object is empty
#include "geoslib_f.h"
#include "geoslib_old_f.h"
#include "Enum/ESpaceType.hpp"
#include "Enum/ELoc.hpp"
#include "Db/Db.hpp"
#include "Db/DbGrid.hpp"
#include "Basic/ASerializable.hpp"
#include "OutputFormat/AOF.hpp"
#include "Space/ASpaceObject.hpp"
#include <cstdio>
#include <cstdlib>
#include <string>
#include <sys/resource.h>
#include <unistd.h>

static void spit(const std::string& f, const std::string& s) { FILE* p = fopen(f.c_str(), "w"); fputs(s.c_str(), p); fclose(p); }

int main()
{
  defineDefaultSpace(ESpaceType::RN, 2);
  char tmpl[] = "/tmp/c09rfXXXXXX";
  std::string DIR = std::string(mkdtemp(tmpl)) + "/";
  ASerializable::setContainerName(true, DIR, false);
  ASerializable::setPrefixName("");
  int bad = 0;
  {
    spit(DIR + "q.nf", "Db\n2\n2\nx1 sel2\na b\n1 2\n3 4\n");
    Db* d = Db::createFromNF(DIR + "q.nf", false);
    if (d) printf("(b) Db file with a refused locator name: an object is returned with %d columns and %d samples (the file holds 2 x 2)\n", d->getColumnNumber(), d->getSampleNumber());
    else printf("(b) Db file with a refused locator name: failure reported\n");
    if (d && (d->getColumnNumber() != 2 || d->getSampleNumber() != 2)) bad++;
  }
  {
    struct rlimit rf; rf.rlim_cur = rf.rlim_max = 256; setrlimit(RLIMIT_NOFILE, &rf);
    DbGrid* grid = DbGrid::create({6, 4});
    VectorDouble v(24);
    for (int i = 0; i < 24; i++) v[i] = i;
    grid->addColumns(v, "var", ELoc::Z);
    db_grid_write_zycor((DIR + "j.zyc").c_str(), grid, grid->getUID("var"));
    spit(DIR + "j.bad", "hello\n");
    for (int i = 0; i < 300; i++) (void) db_grid_read_zycor((DIR + "j.bad").c_str());
    DbGrid* g = db_grid_read_zycor((DIR + "j.zyc").c_str());
    printf("(a) valid Zycor file read after 300 refused ones: %s\n", g ? "ok" : "REFUSED (descriptors exhausted)");
    if (!g) bad++;
  }
  printf(bad ? "VIOLATED (%d)\n" : "HOLDS (%d)\n", bad);
  return bad ? 1 : 0;
}
