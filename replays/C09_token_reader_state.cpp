// Replay: the token reader shared by the Zycor / F2G / IfpEn grid readers keeps process-wide state (current line, delimiters):
// after a read that failed in the middle of a file, the next VALID file is refused.
#include "Db/DbGrid.hpp"
#include "OutputFormat/GridZycor.hpp"
#include "Space/ASpaceObject.hpp"
#include "Basic/Law.hpp"
#include "Basic/VectorHelper.hpp"
#include <fstream>
#include <sstream>
#include <iostream>
int main() {
  defineDefaultSpace(ESpaceType::RN, 2);
  law_set_random_seed(3);
  DbGrid* grid = DbGrid::create({7, 5}, {1., 1.});
  grid->addColumns(VH::simulateGaussian(35), "z", ELoc::Z);
  { GridZycor w("/tmp/rp/ok.zyc", grid); w.setCol(grid->getColIdx("z")); if (w.writeInFile()) { std::cout << "cannot write" << std::endl; return 2; } }
  std::string s;
  { std::ifstream in("/tmp/rp/ok.zyc"); std::stringstream ss; ss << in.rdbuf(); s = ss.str(); }
  GridZycor r1("/tmp/rp/ok.zyc");  DbGrid* g1 = r1.readGridFromFile();
  int nfail = 0, nrefused = 0, first = -1;
  for (int cut = 5; cut < (int) s.size(); cut += 3) {
    { std::ofstream out("/tmp/rp/cut.zyc"); out << s.substr(0, cut); }
    GridZycor r2("/tmp/rp/cut.zyc"); DbGrid* g2 = r2.readGridFromFile();        // a prefix of the valid file
    if (g2 != nullptr) { delete g2; continue; }
    nfail++;
    GridZycor r3("/tmp/rp/ok.zyc");  DbGrid* g3 = r3.readGridFromFile();        // the valid file again
    if (g3 == nullptr) { nrefused++; if (first < 0) first = cut; } else delete g3;
  }
  // a malformed token in the middle of a header line (the reader stops there, with the rest of the line pending)
  {
    std::string t = s; size_t p = t.find("15, "); if (p == std::string::npos) p = t.find(",");
    size_t q = t.find_first_of("0123456789", t.find('\n', t.find("@")) + 1);
    t.replace(q, 1, "x");
    std::ofstream out("/tmp/rp/bad.zyc"); out << t;
  }
  {
    GridZycor r2("/tmp/rp/bad.zyc"); DbGrid* g2 = r2.readGridFromFile();
    GridZycor r3("/tmp/rp/ok.zyc");  DbGrid* g3 = r3.readGridFromFile();
    std::cout << "file with a malformed token: " << (g2 ? "read" : "refused") << " ; valid file right after: " << (g3 ? "read" : "REFUSED") << std::endl;
    if (g2 == nullptr && g3 == nullptr) nrefused++;
  }
  std::cout << "valid file read first: " << (g1 ? "yes" : "no") << " ; failing prefixes: " << nfail << " ; valid file REFUSED right after a failure: " << nrefused
            << " (first at cut " << first << ")" << std::endl;
  bool bad = (g1 != nullptr) && nrefused > 0;
  std::cout << (bad ? "FAIL: a failed read changes the answer of the next one" : "PASS") << std::endl;
  return bad;
}
