// Replay: variogram_pgs() returned the address of the Vario it had just deleted when the calculation failed
// (here: a non-standard rule), instead of the documented null pointer: the caller's test `vario == nullptr`
// took the failure for a success and then used / released freed memory.
#include "geoslib_f.h"
#include "Db/Db.hpp"
#include "Basic/Law.hpp"
#include "Variogram/VarioParam.hpp"
#include "Variogram/DirParam.hpp"
#include "Variogram/Vario.hpp"
#include "LithoRule/RuleShift.hpp"
#include "LithoRule/RuleProp.hpp"
#include <cstdio>
int main()
{
  law_set_random_seed(4321);
  int n = 60;
  VectorDouble x(n), y(n), f(n);
  for (int i = 0; i < n; i++) { x[i] = law_uniform(0., 10.); y[i] = law_uniform(0., 10.); f[i] = 1 + (i % 2); }
  Db* db = new Db();
  db->addColumns(x, "x", ELoc::X, 0);
  db->addColumns(y, "y", ELoc::X, 1);
  db->addColumns(f, "facies", ELoc::Z, 0);
  DirParam dir(10, 1.);
  VarioParam* vp = VarioParam::createOmniDirection(10, 1.);
  RuleShift* rule = RuleShift::createFromFaciesCount(2, {1., 0.});
  RuleProp* rp = RuleProp::createFromRule(rule, {0.5, 0.5});
  Vario* v = variogram_pgs(db, vp, rp);
  printf("variogram_pgs with a Shift rule (not supported) returned %s\n", v == nullptr ? "nullptr (failure reported)" : "a NON-NULL pointer (to the deleted Vario)");
  return v == nullptr ? 0 : 1;
}
