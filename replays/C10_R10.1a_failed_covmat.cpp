#include "Db/Db.hpp"
#include "Model/Model.hpp"
#include "Space/ASpaceObject.hpp"
#include "Basic/Law.hpp"
#include "Matrix/MatrixSquareSymmetric.hpp"
#include <iostream>
#include <cmath>
static Model* mk() {
  Model* model = new Model();
  model->addCovFromParam(ECov::SPHERICAL, 0.4, 2., 1., {0.4,0.2});
  return model;
}
int main() {
  defineDefaultSpace(ESpaceType::RN, 2);
  law_set_random_seed(123);
  Db* data = Db::createFillRandom(20, 2, 1);
  Db* masked = Db::createFillRandom(7, 2, 1);
  masked->addSelection(VectorDouble(7, 0.), "sel");           // every sample masked
  Model* m1 = mk();
  VectorDouble ref = m1->evalCovMatrixSymmetricOptim(data).getValues();
  Model* m2 = mk();
  (void) m2->evalCovMatrixSymmetricOptim(masked);              // fails: no valid sample
  VectorDouble got = m2->evalCovMatrixSymmetricOptim(data).getValues();
  double d = 0; for (int i = 0; i < (int)ref.size(); i++) d = std::max(d, std::abs(ref[i]-got[i]));
  std::cout << "max diff after a failed call = " << d << std::endl;
  return d > 1e-10;
}
