#include "Db/Db.hpp"
#include "Db/DbGrid.hpp"
#include "Model/Model.hpp"
#include "Neigh/NeighImage.hpp"
#include "Neigh/NeighUnique.hpp"
#include "Neigh/NeighMoving.hpp"
#include "Estimation/CalcKriging.hpp"
#include "Estimation/CalcImage.hpp"
#include "Space/ASpaceObject.hpp"
#include "Basic/Law.hpp"
#include <iostream>
#include <cmath>
static Model* mk() {
  Model* model = new Model();
  model->addCovFromParam(ECov::SPHERICAL, 40, 2., 1., {40,20});
  model->setDriftIRF(1);
  return model;
}
static VectorDouble krig(Model* model, bool moving) {
  law_set_random_seed(123);
  Db* data = Db::createFillRandom(20, 2, 1);
  DbGrid* grid = DbGrid::create({5,5},{0.2,0.2});
  ANeigh* nu = moving ? (ANeigh*) NeighMoving::create(false, 10, 5.) : (ANeigh*) NeighUnique::create();
  kriging(data, grid, model, nu);
  VectorDouble res = grid->getColumn("Kriging.*.estim");
  delete data; delete grid; delete nu;
  return res;
}
static VectorDouble cm(Model* model) {
  law_set_random_seed(123);
  Db* data = Db::createFillRandom(20, 2, 1);
  MatrixSquareSymmetric m = model->evalCovMatrixSymmetricOptim(data);
  VectorDouble v = m.getValues();
  delete data;
  return v;
}
static double diff(const VectorDouble& a, const VectorDouble& b) {
  if (a.size() != b.size()) return 1e30;
  double d = 0; for (int i = 0; i < (int)a.size(); i++) d = std::max(d, std::abs(a[i]-b[i]));
  return d;
}
int main() {
  defineDefaultSpace(ESpaceType::RN, 2);
  Model* m1 = mk();
  VectorDouble refU = krig(m1,false), refM = krig(m1,true), refC = cm(m1);
  Model* m2 = mk();
  DbGrid* image = DbGrid::create({30,20});
  image->addColumnsByConstant(1, 1.2, "Var", ELoc::Z);
  NeighImage* neighI = NeighImage::create({0,0}, 1);
  int err = krimage(image, m2, neighI);
  std::cout << "krimage returned " << err << std::endl;
  std::cout << "covmat diff = " << diff(refC, cm(m2)) << std::endl;
  Model* m3 = mk();
  err = krimage(image, m3, neighI);
  std::cout << "moving diff = " << diff(refM, krig(m3,true)) << std::endl;
  Model* m4 = mk();
  err = krimage(image, m4, neighI);
  std::cout << "unique diff = " << diff(refU, krig(m4,false)) << std::endl;
  return 0;
}
