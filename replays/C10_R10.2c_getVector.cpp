#include "Basic/VectorNumT.hpp"
#include <iostream>
int main() {
  VectorDouble a = {1., 2.};
  VectorDouble b = a;                 // copy shares the storage until one of them is modified
  const VectorDouble& ca = a;
  ca.getVector()[0] = 9.;             // const accessor, no detach
  (*ca.getVectorPtr())[1] = 8.;
  std::cout << "b = " << b[0] << " " << b[1] << " (expected 1 2)" << std::endl;
  return b[0] != 1.;
}
