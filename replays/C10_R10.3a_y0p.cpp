#include "Estimation/KrigingCalcul.hpp"
#include "Matrix/MatrixSquareSymmetric.hpp"
#include "Matrix/MatrixRectangular.hpp"
#include <iostream>
#include <cmath>
static void show(const char* t, const MatrixRectangular* m) {
  std::cout << t << ": ";
  if (m == nullptr) { std::cout << "nullptr (failure)\n"; return; }
  for (int i=0;i<m->getNRows();i++) for (int j=0;j<m->getNCols();j++) std::cout << m->getValue(i,j) << " ";
  std::cout << "\n";
}
int main() {
  // --- R10.3d: failed fill of the inverse covariance keeps a half-built cache
  {
    MatrixSquareSymmetric Sigma(2);            // singular: all ones
    Sigma.setValue(0,0,1.); Sigma.setValue(0,1,1.); Sigma.setValue(1,1,1.);
    MatrixRectangular Sigma0(2,1); Sigma0.setValue(0,0,0.5); Sigma0.setValue(1,0,0.2);
    VectorDouble Z = {1., 2.};
    VectorDouble Means={0.}; KrigingCalcul kc(false, &Z, &Sigma, nullptr, nullptr, &Means);
    kc.setRHS(&Sigma0);
    {VectorDouble e=kc.getEstimation(); std::cout<<"singular 1st getEstimation size="<<e.size()<<"\n";}
    {VectorDouble e=kc.getEstimation(); std::cout<<"singular 2nd getEstimation size="<<e.size(); if(e.size()) std::cout<<" value="<<e[0]; std::cout<<"\n";}
  }
  // --- R10.3a/b: _Y0p is never reset
  {
    int n = 3;
    MatrixSquareSymmetric Sigma(n);
    for (int i=0;i<n;i++) for (int j=0;j<=i;j++) Sigma.setValue(i,j, i==j ? 2. : 0.5/(1+std::abs(i-j)));
    MatrixRectangular X(n,1); for (int i=0;i<n;i++) X.setValue(i,0,1.);
    MatrixSquareSymmetric Sigma00(2); Sigma00.setValue(0,0,2.); Sigma00.setValue(1,0,0.3); Sigma00.setValue(1,1,2.);
    VectorDouble Z = {1.,2.,3.};
    MatrixRectangular S0a(n,2), S0b(n,2), X0(2,1);
    for (int i=0;i<n;i++) { S0a.setValue(i,0,0.1*(i+1)); S0a.setValue(i,1,0.05*(i+1)); S0b.setValue(i,0,0.3/(i+1)); S0b.setValue(i,1,0.7/(i+1)); }
    X0.setValue(0,0,1.); X0.setValue(1,0,1.);
    VectorDouble Zp = {0.5, 0.7}; VectorInt rank = {1};
    KrigingCalcul kc(false, &Z, &Sigma, &X, &Sigma00);
    kc.setRHS(&S0a, &X0); kc.setColCokUnique(&Zp, &rank);
    show("Y0p with first RHS", kc.getY0p());
    kc.setRHS(&S0b, &X0);
    show("Y0p after setRHS(second RHS)", kc.getY0p());
    KrigingCalcul kf(false, &Z, &Sigma, &X, &Sigma00);
    kf.setRHS(&S0b, &X0); kf.setColCokUnique(&Zp, &rank);
    show("Y0p of a fresh object with second RHS", kf.getY0p());
  }
  return 0;
}
