#include "Estimation/KrigingCalcul.hpp"
#include "Matrix/MatrixSquareSymmetric.hpp"
#include "Matrix/MatrixRectangular.hpp"
#include <iostream>
int main() {
  MatrixSquareSymmetric Sigma(2);
  Sigma.setValue(0,0,2.); Sigma.setValue(0,1,.5); Sigma.setValue(1,1,2.);
  MatrixSquareSymmetric Sigma00(1); Sigma00.setValue(0,0,2.);
  VectorDouble Z = {1., 2.}; VectorDouble Means = {0.};
  KrigingCalcul kc(false, &Z, &Sigma, nullptr, &Sigma00, &Means);
  // no RHS given: the request must fail
  VectorDouble a = kc.getStdv();
  VectorDouble b = kc.getStdv();
  std::cout << "1st getStdv size=" << a.size() << "   2nd getStdv size=" << b.size();
  if (b.size()) std::cout << " value=" << b[0];
  std::cout << std::endl;
  return a.size() != b.size();
}
