#include "Db/Db.hpp"
#include "Variogram/Vario.hpp"
#include "Variogram/VarioParam.hpp"
#include "Space/ASpaceObject.hpp"
#include "Basic/Law.hpp"
#include <iostream>
#include <cmath>
int main() {
  defineDefaultSpace(ESpaceType::RN, 2);
  law_set_random_seed(123);
  Db* data = Db::createFillRandom(60, 2, 1);
  VarioParam* vp2 = VarioParam::createMultiple(2, 5, 0.1);
  Vario* v = Vario::computeFromDb(*vp2, data, ECalcVario::VARIOGRAM, true);
  std::cout << "flag_sample=true: dir0 sw=" << VH::cumul(v->getSwVec(0,0,0)) << "  dir1 sw=" << VH::cumul(v->getSwVec(1,0,0)) << std::endl;
  Vario* w = Vario::computeFromDb(*vp2, data, ECalcVario::VARIOGRAM, false);
  std::cout << "flag_sample=false: dir0 sw=" << VH::cumul(w->getSwVec(0,0,0)) << "  dir1 sw=" << VH::cumul(w->getSwVec(1,0,0)) << std::endl;
  Vario* v2 = Vario::computeFromDb(*vp2, data, ECalcVario::VARIOGRAM, true);
  std::cout << "flag_sample=true again (after another call): dir0 sw=" << VH::cumul(v2->getSwVec(0,0,0)) << "  dir1 sw=" << VH::cumul(v2->getSwVec(1,0,0)) << std::endl;
  return 0;
}
