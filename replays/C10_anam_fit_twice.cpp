// Replay: AnamHermite::fitFromArray accumulates into _psiHn after `resize(nbpoly, 0.)`, which keeps the old content when the
// size does not change: fitting the same object twice doubles the Hermite coefficients.
#include "Anamorphosis/AnamHermite.hpp"
#include "Basic/Law.hpp"
#include "Basic/VectorHelper.hpp"
#include <iostream>
#include <cmath>
int main() {
  law_set_random_seed(13);
  VectorDouble z = VH::simulateGaussian(200);
  for (double& v : z) v = std::exp(v);
  AnamHermite* a = AnamHermite::create(10);
  a->fitFromArray(z);
  VectorDouble p1 = a->getPsiHns();
  a->fitFromArray(z);                                  // same data, same object
  VectorDouble p2 = a->getPsiHns();
  std::cout << "psi[1] after the first fit " << p1[1] << ", after the second fit of the same data " << p2[1] << std::endl;
  bool bad = std::abs(p1[1] - p2[1]) > 1e-10;
  std::cout << (bad ? "FAIL: the second fit depends on the first one" : "PASS") << std::endl;
  return bad;
}
