// Replay: operator= of ACovAnisoList / DriftList appended the elements of the source to those the object already held:
// after `a = b` the object answered with its previous structures AND those of b.
#include "Model/Model.hpp"
#include "Covariances/ACovAnisoList.hpp"
#include "Drifts/DriftList.hpp"
#include "Space/ASpaceObject.hpp"
#include <iostream>
int main() {
  defineDefaultSpace(ESpaceType::RN, 2);
  Model* ma = Model::createFromParam(ECov::SPHERICAL, 10., 2.);
  Model* mb = Model::createFromParam(ECov::EXPONENTIAL, 5., 1.);
  ma->setDriftIRF(1);
  mb->setDriftIRF(0);
  ACovAnisoList a(*ma->getCovAnisoList());
  const ACovAnisoList& b = *mb->getCovAnisoList();
  a = b;
  DriftList da(*ma->getDriftList());
  da = *mb->getDriftList();
  std::cout << "covariance list after `a = b`: " << a.getCovaNumber() << " structure(s), source has " << b.getCovaNumber()
            << " ; drift list: " << da.getDriftNumber() << " function(s), source has " << mb->getDriftList()->getDriftNumber() << std::endl;
  bool bad = a.getCovaNumber() != b.getCovaNumber() || da.getDriftNumber() != mb->getDriftList()->getDriftNumber();
  std::cout << (bad ? "FAIL: the assigned object keeps its previous elements" : "PASS") << std::endl;
  return bad;
}
