// Replay: Chebychev::eval read _ncMax coefficients although the polynomial
// keeps only the coefficients stored by setCoeffs()/kept by fit(): the value
// returned depended on whatever followed the vector in memory.
#include "Polynomials/Chebychev.hpp"
#include <cstdio>
#include <cstdlib>
#include <vector>
int main()
{
  // Dirty the heap so that the words following the small vector are non-zero
  {
    std::vector<double*> blocks;
    for (int i = 0; i < 64; i++)
    {
      double* p = (double*) malloc(100000 * sizeof(double));
      for (int j = 0; j < 100000; j++) p[j] = 1.e3 + j;
      blocks.push_back(p);
    }
    for (auto p : blocks) free(p);
  }
  Chebychev* cheb = Chebychev::createFromCoeffs({1., 0.5, 0.25});
  double v = cheb->eval(0.3);
  printf("eval(0.3) with coeffs {1,0.5,0.25} on [0,1] = %.10g (expected 0.63)\n", v);
  delete cheb;
  return 0;
}
