// Replay of the R10.7 reports: the copy constructor and the copy assignment of a class do not carry the same members.
#include "Covariances/CovMatern.hpp"
#include "Covariances/CovContext.hpp"
#include "Mesh/MeshETurbo.hpp"
#include "Gibbs/GibbsUPropMono.hpp"
#include "Space/ASpaceObject.hpp"
#include <iostream>
int main() {
  defineDefaultSpace(ESpaceType::RN, 2);
  int bad = 0;
  {   // CovMatern::operator= forgets _correc and _markovCoeffs: the target keeps those of its previous life
    CovContext ctxt(1, 2);
    CovMatern a(ctxt); a.setParam(2.); a.computeCorrec(2); a.computeMarkovCoeffs(2);
    CovMatern b(ctxt); b.setParam(0.5); b.computeCorrec(2); b.computeMarkovCoeffs(2);
    CovMatern c(a);            // copy construction
    b = a;                     // assignment
    std::cout << "CovMatern correc: source " << a.getCorrec() << " copy-constructed " << c.getCorrec() << " assigned " << b.getCorrec()
              << " ; markov coeffs: " << a.getMarkovCoeffs().size() << " / " << c.getMarkovCoeffs().size() << " / " << b.getMarkovCoeffs().size() << std::endl;
    if (b.getCorrec() != a.getCorrec() || b.getMarkovCoeffs().size() != a.getMarkovCoeffs().size()) { bad++; std::cout << "  FAIL: assigned CovMatern keeps its previous correction / Markov coefficients" << std::endl; }
  }
  {   // MeshETurbo copy constructor resets _nPerCell to 0
    MeshETurbo* m = MeshETurbo::create({4, 4}, {1., 1.}, {0., 0.});
    MeshETurbo c(*m);
    MeshETurbo d; d = *m;
    std::cout << "MeshETurbo meshes: source " << m->getNMeshes() << " copy-constructed " << c.getNMeshes() << " assigned " << d.getNMeshes() << std::endl;
    if (c.getNMeshes() != m->getNMeshes()) { bad++; std::cout << "  FAIL: the copy-constructed (cloned) turbo mesh has no mesh" << std::endl; }
    delete m;
  }
  std::cout << (bad ? "FAIL" : "PASS") << std::endl;
  return bad;
}
