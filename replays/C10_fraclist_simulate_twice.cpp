// C10 / R10.8: FracList::simulate appends the simulated fractures to `_descs` and never empties it: a second simulate() on the same
// object (same environment, same seed) returns the fractures of the first run plus the new ones.
#include "Enum/ESpaceType.hpp"
#include "Fractures/FracEnviron.hpp"
#include "Fractures/FracFamily.hpp"
#include "Fractures/FracList.hpp"
#include "Space/ASpaceObject.hpp"
#include <cstdio>

int main()
{
  defineDefaultSpace(ESpaceType::RN, 2);
  FracEnviron env = FracEnviron(300., 100., 0., 0., 20., 10.);
  FracFamily family1 = FracFamily(0., 20., 0.2, 1., 1., 0.5, 0.2, 1.2, 2.4, 5.);
  env.addFamily(family1);
  FracList fl;
  if (fl.simulate(env, true, true, 1234, false, VectorDouble())) return 2;
  int n1 = fl.getNFracs();
  if (fl.simulate(env, true, true, 1234, false, VectorDouble())) return 2;
  int n2 = fl.getNFracs();
  printf("fractures after the first simulate: %d, after the second identical simulate: %d\n", n1, n2);
  bool bad = (n1 != n2);
  printf(bad ? "VIOLATED\n" : "HOLDS\n");
  return bad ? 1 : 0;
}
