// Replay of the R10.2d findings: library functions that write through VectorT::getVector() const (no copy-on-write
// detach): a copy that still shares the storage is modified too.
#include "Geometry/Rotation.hpp"
#include "Basic/VectorNumT.hpp"
#include <iostream>
int main() {
  Rotation rot(2);
  rot.setAngles({30., 0.});
  VectorDouble in = {1., 0.};
  VectorDouble out(2, 7.);
  VectorDouble keep = out;            // copy made BEFORE the call: must stay (7, 7)
  rot.rotateDirect(in, out);
  std::cout << "out = " << out[0] << " " << out[1] << " ; copy made before the call = " << keep[0] << " " << keep[1] << " (expected 7 7)" << std::endl;
  return keep[0] != 7.;
}
