// Replay: DbGrid::resetFromPolygon handed four uninitialised doubles to Polygons::getExtension, which only UPDATED them
// (`if (xmin_loc < *xmin) ...`): the grid "covering" the polygon depended on what earlier calls had left on the stack.
// The stack content is not controllable from here: run under `valgrind -q --error-exitcode=3` (memcheck reports the
// conditional jumps on uninitialised values in Polygons::getExtension before the repair, nothing after).
#include "Db/DbGrid.hpp"
#include "Polygon/Polygons.hpp"
#include "Polygon/PolyElem.hpp"
#include <cstdio>
#include <cstring>
static void __attribute__((noinline)) dirty(double v)
{
  volatile double a[16384];
  for (int i = 0; i < 16384; i++) a[i] = v;
  (void) a[17];
}
static void __attribute__((noinline)) build(Polygons* p, double* x0, double* x1)
{
  DbGrid g;
  g.resetFromPolygon(p, {10, 5}, VectorDouble(), false);
  *x0 = g.getX0(0);
  *x1 = g.getX0(0) + g.getDX(0) * g.getNX(0);
}
int main()
{
  Polygons p; p.addPolyElem(PolyElem({0., 10., 10., 0., 0.}, {0., 0., 5., 5., 0.}));
  double a0, a1, b0, b1;
  dirty(-7777.); build(&p, &a0, &a1);
  dirty(+9999.); build(&p, &b0, &b1);
  printf("grid covering the polygon [0,10]x[0,5]: x from %g to %g after one history, from %g to %g after another (expected 0 to 10 both times)\n", a0, a1, b0, b1);
  return !(a0 == 0. && b0 == 0. && a1 == 10. && b1 == 10.);
}
