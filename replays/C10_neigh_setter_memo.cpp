// Replay: the parameter setters of NeighMoving do not invalidate the memorised neighbourhood: asking the same target again after
// changing nmaxi returns the neighbourhood computed with the OLD parameter.
#include "Db/Db.hpp"
#include "Neigh/NeighMoving.hpp"
#include "Space/ASpaceObject.hpp"
#include "Basic/Law.hpp"
#include <iostream>
int main() {
  defineDefaultSpace(ESpaceType::RN, 2);
  law_set_random_seed(5);
  Db* data = Db::createFillRandom(50, 2, 1);
  Db* target = Db::createFillRandom(3, 2, 0);
  NeighMoving* nm = NeighMoving::create(false, 5, 10.);
  nm->attach(data, target);
  VectorInt r1; nm->select(1, r1);
  nm->setNMaxi(12);
  VectorInt r2; nm->select(1, r2);                 // same target, new parameter
  NeighMoving* fresh = NeighMoving::create(false, 12, 10.);
  fresh->attach(data, target);
  VectorInt r3; fresh->select(1, r3);
  std::cout << "nmaxi=5: " << r1.size() << " samples; after setNMaxi(12): " << r2.size() << " samples; fresh object with nmaxi=12: " << r3.size() << std::endl;
  bool bad = r2 != r3;
  std::cout << (bad ? "FAIL: the answer depends on the previous call" : "PASS") << std::endl;
  return bad;
}
