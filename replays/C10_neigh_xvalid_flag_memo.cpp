// Replay: switching the cross-validation option of a neighbourhood did not invalidate the neighbourhood memorised for the last
// target: the next search for the same target still contained the target itself.
#include "Neigh/NeighMoving.hpp"
#include "Db/Db.hpp"
#include "Space/ASpaceObject.hpp"
#include <cstdio>
static void show(const char* t, const VectorInt& r) { printf("%s [", t); for (int i : r) printf(" %d", i); printf(" ]\n"); }
int main()
{
  defineDefaultSpace(ESpaceType::RN, 2);
  Db* db = Db::create();
  db->addColumns({0., 1., 2., 3.}, "x", ELoc::X, 0); db->addColumns({0., 0., 0., 0.}, "y", ELoc::X, 1);
  db->addColumns({1., 2., 3., 4.}, "z", ELoc::Z, 0);
  NeighMoving* neigh = NeighMoving::create(false, 10, 5.);
  neigh->attach(db, db);
  VectorInt r; neigh->select(1, r);
  show("before setFlagXvalid(true), target 1:", r);
  neigh->setFlagXvalid(true);
  neigh->select(1, r);
  show("after  setFlagXvalid(true), target 1 (expected [ 0 2 3 ]):", r);
  return r.size() != 3;
}
