// Replay: NeighBench::hasChanged() returns _isSameTargetBench(): the neighbourhood is RECOMPUTED when the target stays in the
// same bench and the memo of the previous target is REUSED when the target moves to another bench: the first target of
// each new bench gets the samples of the previous bench (the answer depends on the previous call).
#include "Db/Db.hpp"
#include "Db/DbGrid.hpp"
#include "Neigh/NeighBench.hpp"
#include "Space/ASpaceObject.hpp"
#include "Basic/Law.hpp"
#include <iostream>
int main() {
  defineDefaultSpace(ESpaceType::RN, 3);
  law_set_random_seed(99);
  Db* data = Db::createFillRandom(200, 3, 1);                     // z in [0,1]
  DbGrid* grid = DbGrid::create({2, 2, 4}, {0.5, 0.5, 0.25}, {0.25, 0.25, 0.125});
  NeighBench* nb = NeighBench::create(false, 0.2);
  nb->attach(data, grid);
  int bad = 0;
  for (int it = 0; it < grid->getSampleNumber(); it++) {
    VectorInt seq;  nb->select(it, seq);                           // in sequence (memo of the previous target alive)
    NeighBench* fresh = NeighBench::create(false, 0.2);
    fresh->attach(data, grid);
    VectorInt alone; fresh->select(it, alone);                     // same request, first call on a fresh object
    if (seq != alone) { bad++; std::cout << "target " << it << " (z=" << grid->getCoordinate(it, 2) << "): " << seq.size() << " samples in sequence, " << alone.size() << " when asked first" << std::endl; }
    delete fresh;
  }
  std::cout << (bad ? "FAIL: the neighbourhood of a target depends on the target asked before" : "PASS") << std::endl;
  return bad != 0;
}
