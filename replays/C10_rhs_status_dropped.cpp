// Replay: KrigingSystem::estimate() drops the status of _rhsCalcul(): when the drift is undefined at a target the
// right-hand side keeps the drift rows of the PREVIOUS target and an estimate is produced instead of an undefined value;
// that estimate depends on which target was processed before.
#include "Db/Db.hpp"
#include "Db/DbGrid.hpp"
#include "Model/Model.hpp"
#include "Neigh/NeighUnique.hpp"
#include "Estimation/CalcKriging.hpp"
#include "Space/ASpaceObject.hpp"
#include "Basic/Law.hpp"
#include <iostream>
#include <cmath>
static VectorDouble run(bool reverse) {
  law_set_random_seed(31);
  Db* data = Db::createFillRandom(30, 2, 1, 1);           // one variable, one external drift
  DbGrid* grid = DbGrid::create({5, 1}, {0.2, 1.}, {0.1, 0.5});
  VectorDouble f = {1., 2., TEST, 4., 5.};                  // external drift undefined at node 2
  if (reverse) f = {5., 4., TEST, 2., 1.};
  grid->addColumns(f, "f", ELoc::F);
  Model* model = Model::createFromParam(ECov::SPHERICAL, 0.5, 1.);
  model->setDriftIRF(0, 1);
  NeighUnique* nu = NeighUnique::create();
  (void) kriging(data, grid, model, nu);
  VectorDouble est = grid->getColumn("*estim");
  return est;
}
int main() {
  defineDefaultSpace(ESpaceType::RN, 2);
  VectorDouble a = run(false), b = run(true);
  std::cout << "estimate at the node whose drift is undefined: " << a[2] << " (drift of the previous node = 2) / " << b[2] << " (drift of the previous node = 4)" << std::endl;
  bool undefined = (std::isnan(a[2]) || a[2] > 1e29) && (std::isnan(b[2]) || b[2] > 1e29);
  std::cout << (undefined ? "PASS" : "FAIL: an estimate is produced from the drift of the previous target") << std::endl;
  return undefined ? 0 : 1;
}
