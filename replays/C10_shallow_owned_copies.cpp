// Replay of the R10.7d reports: copy operations that store the pointer of the source for a member the destructor deletes.
// Each case copies an object and destroys both (in a forked child): the second destruction frees the same object again.
#include "LinearOp/CholeskyDense.hpp"
#include "Matrix/MatrixSquareSymmetric.hpp"
#include "Neigh/NeighBench.hpp"
#include "Boolean/ModelBoolean.hpp"
#include "Boolean/ShapeEllipsoid.hpp"
#include "Space/ASpaceObject.hpp"
#include <iostream>
#include <sys/wait.h>
#include <unistd.h>
template <typename F> static int crashed(const char* what, F f) {
  pid_t p = fork();
  if (p == 0) { f(); _exit(0); }
  int st = 0; waitpid(p, &st, 0);
  bool bad = !(WIFEXITED(st) && WEXITSTATUS(st) == 0);
  std::cout << what << ": " << (bad ? "CRASH (double free / invalid free)" : "ok") << std::endl;
  return bad ? 1 : 0;
}
int main() {
  defineDefaultSpace(ESpaceType::RN, 2);
  int bad = 0;
  bad += crashed("copy of a CholeskyDense", [] {
    MatrixSquareSymmetric m(3); for (int i = 0; i < 3; i++) m.setValue(i, i, 2.);
    CholeskyDense a(&m); (void) a.computeLogDeterminant();
    { CholeskyDense b(a); }
  });
  bad += crashed("assignment of a CholeskyDense", [] {
    MatrixSquareSymmetric m(3); for (int i = 0; i < 3; i++) m.setValue(i, i, 2.);
    CholeskyDense a(&m); (void) a.computeLogDeterminant();
    { CholeskyDense b; b = a; }
  });
  bad += crashed("copy of a NeighBench", [] {
    NeighBench* a = NeighBench::create(false, 1.);
    { NeighBench b(*a); }
    delete a;
  });
  bad += crashed("copy of a ModelBoolean", [] {
    ModelBoolean a;
    ShapeEllipsoid e(0.1, 1., 1., 1.);
    a.addToken(e);
    { ModelBoolean b(a); }
  });
  std::cout << (bad ? "FAIL" : "PASS") << std::endl;
  return bad != 0;
}
