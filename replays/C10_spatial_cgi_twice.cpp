// C10 / R10.8: SpatialIndices::computeCGI() prepares its accumulator with `_center.resize(ndim, 0.)` (which keeps the content of
// a vector that already has that size) and then adds the weighted coordinates into it: a second call on the same object starts
// from the centre of gravity found by the first one.  Expected: the same call gives the same centre every time.
#include "Enum/ESpaceType.hpp"
#include "Enum/ELoc.hpp"
#include "Db/Db.hpp"
#include "Spatial/SpatialIndices.hpp"
#include "Space/ASpaceObject.hpp"
#include <cstdio>
#include <cmath>

int main()
{
  defineDefaultSpace(ESpaceType::RN, 2);
  Db* db = Db::create();
  db->addColumns({1., 2., 4., 7.}, "x", ELoc::X, 0);
  db->addColumns({1., 5., 2., 3.}, "y", ELoc::X, 1);
  db->addColumns({1., 2., 3., 4.}, "z", ELoc::Z, 0);
  SpatialIndices sp(db);
  if (sp.computeCGI("z")) return 2;
  VectorDouble c1 = sp.getCenter();
  if (sp.computeCGI("z")) return 2;
  VectorDouble c2 = sp.getCenter();
  printf("first call : centre = (%g, %g)\nsecond call: centre = (%g, %g)\n", c1[0], c1[1], c2[0], c2[1]);
  bool same = std::fabs(c1[0] - c2[0]) < 1e-12 && std::fabs(c1[1] - c2[1]) < 1e-12;
  printf(same ? "HOLDS\n" : "VIOLATED: the second identical call returns another centre of gravity\n");
  return same ? 0 : 1;
}
