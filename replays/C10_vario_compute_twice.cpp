// Replay: Vario::compute() on an object that was already computed accumulates onto the previous results
// (prepare() -> internalDirectionResize() keeps the content of _sw/_gg/_hh when the sizes do not change).
#include "Db/Db.hpp"
#include "Variogram/Vario.hpp"
#include "Variogram/VarioParam.hpp"
#include "Variogram/DirParam.hpp"
#include "Space/ASpaceObject.hpp"
#include "Basic/Law.hpp"
#include <iostream>
#include <cmath>
int main() {
  defineDefaultSpace(ESpaceType::RN, 2);
  law_set_random_seed(77);
  Db* db = Db::createFillRandom(100, 2, 1);
  VarioParam* vp = VarioParam::createOmniDirection(8, 0.1);
  Vario* v = Vario::create(*vp);
  v->compute(db, ECalcVario::VARIOGRAM);
  VectorDouble sw1 = v->getSwVec(0, 0, 0), gg1 = v->getGgVec(0, 0, 0);
  v->compute(db, ECalcVario::VARIOGRAM);          // same request, same object
  VectorDouble sw2 = v->getSwVec(0, 0, 0), gg2 = v->getGgVec(0, 0, 0);
  Vario* w = Vario::create(*vp);
  w->compute(db, ECalcVario::VARIOGRAM);          // fresh object
  VectorDouble sw3 = w->getSwVec(0, 0, 0);
  int bad = 0;
  for (int i = 0; i < (int) sw1.size(); i++) if (sw1[i] != sw2[i] || std::abs(gg1[i] - gg2[i]) > 1e-12) bad++;
  std::cout << "lag 1: pairs first call " << sw1[1] << ", second call on the same object " << sw2[1] << ", fresh object " << sw3[1]
            << " ; gg " << gg1[1] << " / " << gg2[1] << std::endl;
  std::cout << (bad ? "FAIL: the second computation depends on the first one" : "PASS") << std::endl;
  return bad != 0;
}
