// C10 / R10.10: Vario::_compute stores the optional `model` (which triggers the removal of a drift) only when it is given
// (`if (model != nullptr) _model = model->clone();`) and `_flag_UK` is never reset: a calculation WITHOUT model on an object that was
// once computed WITH a model still returns the variogram of the residuals.
#include "Enum/ESpaceType.hpp"
#include "Enum/ELoc.hpp"
#include "Enum/ECov.hpp"
#include "Enum/ECalcVario.hpp"
#include "Db/Db.hpp"
#include "Model/Model.hpp"
#include "Variogram/Vario.hpp"
#include "Variogram/VarioParam.hpp"
#include "Variogram/DirParam.hpp"
#include "Space/ASpaceObject.hpp"
#include <cstdio>
#include <cmath>

int main()
{
  defineDefaultSpace(ESpaceType::RN, 2);
  int n = 60;
  VectorDouble x(n), y(n), z(n);
  unsigned s = 12345;
  auto rnd = [&s]() { s = s * 1103515245u + 12345u; return ((s >> 8) & 0xffff) / 65536.; };
  for (int i = 0; i < n; i++) { x[i] = rnd(); y[i] = rnd(); z[i] = 3. * x[i] + 0.3 * std::sin(17. * x[i] + 5. * y[i]); }
  Db* db = Db::create();
  db->addColumns(x, "x", ELoc::X, 0);
  db->addColumns(y, "y", ELoc::X, 1);
  db->addColumns(z, "z", ELoc::Z, 0);
  DirParam dir(5, 0.1);
  VarioParam vp;
  vp.addDir(dir);
  Model* model = Model::createFromParam(ECov::SPHERICAL, 0.3, 1.);
  model->setDriftIRF(1);
  Vario fresh(vp);
  if (fresh.compute(db, ECalcVario::VARIOGRAM)) return 2;
  Vario reused(vp);
  if (reused.compute(db, ECalcVario::VARIOGRAM, false, false, model)) return 2;
  if (reused.compute(db, ECalcVario::VARIOGRAM)) return 2;          // same call as `fresh`
  int bad = 0;
  for (int ipas = 1; ipas < 5; ipas++)
  {
    double a = fresh.getGg(0, 0, 0, ipas), b = reused.getGg(0, 0, 0, ipas);
    printf("lag %d: fresh object %g, object computed before with a drift model %g\n", ipas, a, b);
    if (std::fabs(a - b) > 1e-9 * (1. + std::fabs(a))) bad++;
  }
  printf(bad ? "VIOLATED (%d lags)\n" : "HOLDS (%d)\n", bad);
  return bad ? 1 : 0;
}
