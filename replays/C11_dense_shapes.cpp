// Replay of the C11 shape / sentinel defects of the pinned commit (fixed): kernels of the dense matrix class that are only
// conformant for square matrices, and VectorNumT::maximum starting from the smallest positive double.
#include "Matrix/MatrixRectangular.hpp"
#include "Basic/VectorNumT.hpp"
#include <iostream>
#include <cmath>
int main() {
  int bad = 0;
  MatrixRectangular m(2, 3);                       // rows scaled by (10, 100)
  for (int i = 0; i < 2; i++) for (int j = 0; j < 3; j++) m.setValue(i, j, 1. + i + 10. * j);
  MatrixRectangular r = m;
  r.multiplyRow({10., 100.});
  for (int i = 0; i < 2; i++) for (int j = 0; j < 3; j++) {
    double want = m.getValue(i, j) * (i == 0 ? 10. : 100.);
    if (std::abs(r.getValue(i, j) - want) > 1e-9) { bad++; std::cout << "multiplyRow (" << i << "," << j << ") = " << r.getValue(i, j) << " expected " << want << std::endl; }
  }
  MatrixRectangular c = m;
  c.multiplyColumn({1., 10., 100.});
  for (int i = 0; i < 2; i++) for (int j = 0; j < 3; j++) {
    double want = m.getValue(i, j) * std::pow(10., j);
    if (std::abs(c.getValue(i, j) - want) > 1e-9) { bad++; std::cout << "multiplyColumn (" << i << "," << j << ") = " << c.getValue(i, j) << " expected " << want << std::endl; }
  }
  // t(M) * x with M 2x3: x has 2 elements, y has 3
  VectorDouble x = {1., 2.}, y(3, 0.);
  m.prodMatVecInPlace(x, y, true);
  for (int j = 0; j < 3; j++) {
    double want = m.getValue(0, j) * 1. + m.getValue(1, j) * 2.;
    if (std::abs(y[j] - want) > 1e-9) { bad++; std::cout << "t(M)*x [" << j << "] = " << y[j] << " expected " << want << std::endl; }
  }
  VectorDouble v = {-3., -1.};
  if (v.maximum() != -1.) { bad++; std::cout << "maximum(-3,-1) = " << v.maximum() << " expected -1" << std::endl; }
  std::cout << (bad ? "FAIL" : "PASS") << std::endl;
  return bad != 0;
}
