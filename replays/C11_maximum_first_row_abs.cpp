// Replay: VH::maximum(std::vector<std::vector<double>>, flagAbs) did not hand flagAbs to the maximum of the FIRST row
// (its sibling overloads do): the largest absolute value was missed when it sits, negative, in the first row.
#include "Basic/VectorHelper.hpp"
#include <cstdio>
#include <vector>
int main()
{
  std::vector<std::vector<double>> v = {{-5., 1.}, {2., 3.}};
  double m = VH::maximum(v, true);
  printf("maximum of {{-5,1},{2,3}} in absolute value = %g (expected 5)\n", m);
  return m != 5.;
}
