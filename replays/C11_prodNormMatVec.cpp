#include "Matrix/MatrixSquareGeneral.hpp"
#include "Matrix/MatrixSquareSymmetric.hpp"
#include "Matrix/MatrixRectangular.hpp"
#include <iostream>
int main() {
  MatrixRectangular a(2, 3);
  double k = 1.; for (int i = 0; i < 2; i++) for (int j = 0; j < 3; j++) a.setValue(i, j, k++);
  VectorDouble v = {2., 5.};
  MatrixSquareSymmetric r(3);
  r.prodNormMatVecInPlace(a, v, true);     // t(A) diag(v) A : 3x3
  int bad = 0;
  std::cout << "result " << r.getNRows() << "x" << r.getNCols() << std::endl;
  for (int i = 0; i < 3; i++) for (int j = 0; j < 3; j++) {
    double want = 0; for (int l = 0; l < 2; l++) want += a.getValue(l, i) * v[l] * a.getValue(l, j);
    double got = (i < r.getNRows() && j < r.getNCols()) ? r.getValue(i, j) : -999;
    if (std::abs(got - want) > 1e-9) { bad++; if (bad < 4) std::cout << "(" << i << "," << j << ") = " << got << " expected " << want << std::endl; }
  }
  std::cout << (bad ? "FAIL" : "PASS") << std::endl;
  return bad != 0;
}
