// C11: VH::quantiles sorted the undefined values (1.234e30) with the data: quantiles of {1,2,3,4,NA} at 0.5 / 0.9 were 3.5 / 1.234e30 instead of 3 / 4.
#include "Basic/VectorHelper.hpp"
#include <cstdio>
int main(){ VectorDouble q=VH::quantiles({1.,2.,3.,4.,TEST},{0.5,0.9}); printf("quantiles(0.5,0.9) of {1,2,3,4,NA} = %g %g (expected 3, 4)\n",q[0],q[1]); return (q[0]==3.&&q[1]==4.)?0:1; }
