// C11 / C11u: MatrixFactory::prodMatMat(sparse, sparse) built its result with `new MatrixSparse(flag)`: the back-end flag was taken as the number of rows
// and the result got the global default back-end: with two cs operands and the (default) global Eigen flag the product reads back as zeros.
#include "Matrix/MatrixSparse.hpp"
#include "Matrix/MatrixFactory.hpp"
#include "Matrix/NF_Triplet.hpp"
#include <cstdio>
int main(){
  NF_Triplet T; double a[2][2]={{1,2},{3,4}};
  for(int i=0;i<2;i++)for(int j=0;j<2;j++)T.add(i,j,a[i][j]);
  MatrixSparse* A=MatrixSparse::createFromTriplet(T,2,2,0);   // cs back-end, global default = Eigen
  AMatrix* R=MatrixFactory::prodMatMat(A,A);
  printf("A*A (two cs operands) = [%g %g; %g %g] (expected [7 10; 15 22])\n",R->getValue(0,0),R->getValue(0,1),R->getValue(1,0),R->getValue(1,1));
  return R->getValue(1,1)==22.?0:1;
}
