// C11: reductions of the vector helper and vector x sparse-matrix products that do not return their defined values (unchanged tree)
//  (a) VH::minimum(VectorVectorDouble) combines the rows with MAX; minimum / maximum ignore flagAbs for the first row
//  (b) VH::maximum / minimum(vec, flagAbs, aux, mode != 0): the `continue` taken when the condition on aux fails skips the advance of the
//      two pointers: every following element is read one position too early
//  (c) MatrixSparse::prodVecMat, cs back-end: x*A sized with the number of rows, x*t(A) with the number of columns
//  (d) MatrixSparse::prodVecMatInPlace(x, y, transpose=true), Eigen back-end: a spurious `* xm`
#include "Basic/VectorHelper.hpp"
#include "Matrix/MatrixSparse.hpp"
#include "Matrix/NF_Triplet.hpp"
#include <cstdio>
#include <cmath>

int main(int argc, char** argv)
{
  int which = (argc > 1) ? atoi(argv[1]) : 0;
  int bad = 0;
  if (which == 0 || which == 1)
  {
    VectorVectorDouble v = {{1., 2.}, {-5., 3.}, {0., 4.}};
    double mn = VH::minimum(v);
    VectorVectorDouble w = {{-9., 2.}, {-5., 3.}};
    double mxabs = VH::maximum(w, true);
    printf("(a) minimum{{1,2},{-5,3},{0,4}} = %g (expected -5); maximum of absolute values {{-9,2},{-5,3}} = %g (expected 9)\n", mn, mxabs);
    if (mn != -5. || mxabs != 9.) bad++;
  }
  if (which == 0 || which == 2)
  {
    VectorDouble vec = {1., 5., 2., 9.}, aux = {3., 4., 1., 10.};
    double m1 = VH::maximum(vec, false, aux, 1);      // largest vec[i] among those with aux[i] <= vec[i]: 5
    double m2 = VH::maximum(vec, false, aux, -1);     // largest vec[i] among those with aux[i] >= vec[i]: 9
    printf("(b) maximum(vec, aux, mode=1) = %g (expected 5); mode=-1: %g (expected 9)\n", m1, m2);
    if (m1 != 5. || m2 != 9.) bad++;
  }
  if (which == 0 || which == 3)
  {
    // A = [1 2 3; 4 5 6] (2 x 3), cs back-end
    NF_Triplet T;
    double a[2][3] = {{1, 2, 3}, {4, 5, 6}};
    for (int i = 0; i < 2; i++) for (int j = 0; j < 3; j++) T.add(i, j, a[i][j]);
    MatrixSparse* A = MatrixSparse::createFromTriplet(T, 2, 3, 0);
    VectorDouble xa = {1., 10.};
    VectorDouble r = A->prodVecMat(xa, false);        // x*A = {41, 52, 63}
    printf("(c) x*A on a 2x3 matrix returns %d terms (expected 3)\n", (int) r.size());
    if (r.size() != 3) bad++;
  }
  if (which == 0 || which == 4)
  {
    NF_Triplet T;
    double a[2][2] = {{1, 2}, {3, 4}};
    for (int i = 0; i < 2; i++) for (int j = 0; j < 2; j++) T.add(i, j, a[i][j]);
    MatrixSparse* A = MatrixSparse::createFromTriplet(T, 2, 2, 1);      // Eigen back-end
    VectorDouble x = {1., 10.}, y(2, 0.);
    A->prodVecMatInPlace(x, y, true);                  // x * t(A) = {21, 43}
    printf("(d) x*t(A), Eigen back-end: {%g, %g} (expected {21, 43})\n", y[0], y[1]);
    if (y[0] != 21. || y[1] != 43.) bad++;
  }
  printf(bad ? "VIOLATED (%d)\n" : "HOLDS (%d)\n", bad);
  fflush(stdout);
  _Exit(bad ? 1 : 0);
}
