// Replay: with a date interval the inner loop on the second sample starts at the left-most sample, and the pruning
// `if (db->getDistance1D(iech, jech) > maxdist) break;` measured x(first) - x(second): positive and large at once, so the whole
// inner loop was abandoned for every first sample farther than the maximum distance from the left end (3 pairs instead of 29).
// Without dates the test could never fire (the second sample is always to the right): the pruning it was meant to be was dead code.
#include "Db/Db.hpp"
#include "Variogram/Vario.hpp"
#include "Variogram/VarioParam.hpp"
#include "Space/ASpaceObject.hpp"
#include <cmath>
#include <cstdio>
#include <vector>
int main()
{
  const int n = 30, npas = 3; const double dpas = 1., tol = 0.5;
  VectorDouble tab(3 * n);
  std::vector<double> x(n), z(n), t(n);
  for (int i = 0; i < n; i++)
  {
    x[i] = i; z[i] = sin(1.7 * i) + 0.1 * i; t[i] = (double) (i % 2);
    tab[i] = x[i]; tab[n + i] = z[i]; tab[2 * n + i] = t[i];
  }
  defineDefaultSpace(ESpaceType::RN, 1);
  Db* db = Db::createFromSamples(n, ELoadBy::COLUMN, tab, {"x", "z", "t"}, {"x1", "z1", "date1"});
  // pairs with date2 - date1 in [0.5 , 1.5) i.e. from an even sample to an odd one
  VarioParam* vp = VarioParam::createOmniDirection(npas, dpas, tol, 0, 0, TEST, TEST, 0., VectorDouble(), 0., {0.5, 1.5});
  Vario* v = Vario::computeFromDb(*vp, db, ECalcVario::VARIOGRAM);
  if (v == nullptr) { printf("no variogram\n"); return 2; }
  std::vector<double> sw(npas, 0.);
  for (int i = 0; i < n; i++)
    for (int j = 0; j < n; j++)
    {
      if (i == j) continue;
      double dt = t[j] - t[i];
      if (dt < 0.5 || dt >= 1.5) continue;
      double h = std::fabs(x[j] - x[i]);
      int k = (int) floor(h / dpas + 0.5);
      if (k >= npas || std::fabs(h - k * dpas) > tol * dpas) continue;
      sw[k] += 1;
    }
  VectorDouble s1 = v->getSwVec(0, 0, 0, false);
  int bad = 0;
  for (int k = 0; k < npas; k++)
  {
    printf("lag %d: library sw=%g | ordered pairs in the date interval sw=%g\n", k, s1[k], sw[k]);
    if (std::fabs(s1[k] - sw[k]) > 1e-9) bad++;
  }
  printf("%d lag(s) differ\n", bad);
  return bad != 0;
}
