// Replay: Vario::_getStatistics computes the means in a loop `for (iech = 0; iech < nvar; iech++)`: only the first nvar samples
// are visited (and undefined values are added). The mean is reported by getMean() and enters the POISSON estimator.
#include "Db/Db.hpp"
#include "Variogram/Vario.hpp"
#include "Variogram/VarioParam.hpp"
#include "Space/ASpaceObject.hpp"
#include "Basic/Law.hpp"
#include <iostream>
#include <cmath>
int main() {
  defineDefaultSpace(ESpaceType::RN, 2);
  law_set_random_seed(77);
  Db* db = Db::createFillRandom(100, 2, 1);
  VectorDouble z = db->getColumnByLocator(ELoc::Z, 0);
  double m = 0.; for (double v : z) m += v; m /= (double) z.size();
  VarioParam* vp = VarioParam::createOmniDirection(8, 0.1);
  Vario* v = Vario::create(*vp);
  v->compute(db, ECalcVario::VARIOGRAM);
  std::cout << "mean of the variable over the 100 samples: " << m << " ; mean reported by the variogram: " << v->getMean(0) << " ; first sample: " << z[0] << std::endl;
  bool bad = std::abs(v->getMean(0) - m) > 1e-10;
  std::cout << (bad ? "FAIL" : "PASS") << std::endl;
  return bad;
}
