// C12 / C12d (known finding): Vario::createReduce(varcols, dircols) ignores `dircols`: the emptiness test is made on the local list that
// was just declared, so all the directions are always kept.
#include "Enum/ESpaceType.hpp"
#include "Enum/ELoc.hpp"
#include "Enum/ECalcVario.hpp"
#include "Db/Db.hpp"
#include "Variogram/Vario.hpp"
#include "Variogram/VarioParam.hpp"
#include "Variogram/DirParam.hpp"
#include "Space/ASpaceObject.hpp"
#include <cstdio>

int main()
{
  defineDefaultSpace(ESpaceType::RN, 2);
  Db* db = Db::create();
  VectorDouble x, y, z;
  unsigned s = 4321;
  auto rnd = [&s]() { s = s * 1103515245u + 12345u; return ((s >> 8) & 0xffff) / 65536.; };
  for (int i = 0; i < 50; i++) { x.push_back(rnd()); y.push_back(rnd()); z.push_back(rnd()); }
  db->addColumns(x, "x", ELoc::X, 0);
  db->addColumns(y, "y", ELoc::X, 1);
  db->addColumns(z, "z", ELoc::Z, 0);
  VarioParam vp;
  vp.addDir(DirParam(4, 0.1, 0.5, 45., 0, 0, TEST, TEST, 0., VectorDouble(), {1., 0.}));
  vp.addDir(DirParam(4, 0.1, 0.5, 45., 0, 0, TEST, TEST, 0., VectorDouble(), {0., 1.}));
  Vario v(vp);
  if (v.compute(db, ECalcVario::VARIOGRAM)) return 2;
  Vario* r = Vario::createReduce(v, VectorInt(), {1}, false);
  printf("directions: %d in the variogram, %d after createReduce(.., dircols = {1})\n", v.getDirectionNumber(), r->getDirectionNumber());
  bool bad = r->getDirectionNumber() != 1;
  printf(bad ? "VIOLATED\n" : "HOLDS\n");
  return bad ? 1 : 0;
}
