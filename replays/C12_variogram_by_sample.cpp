// Replay: the "variogram by sample" (flag_sample = true; always used for the covariogram of scattered data) never emptied the
// accumulators of the current first sample: the term of sample i contained the pairs of the samples 0..i, and the count of a lag
// was the number of samples after the first one that populated it (12 at every lag for 12 samples).
// obs: side observations on the UNMODIFIED library (each block prints its own verdict)
#include "Db/Db.hpp"
#include "Db/DbGrid.hpp"
#include "Variogram/Vario.hpp"
#include "Variogram/VarioParam.hpp"
#include "Variogram/DirParam.hpp"
#include "Space/ASpaceObject.hpp"
#include "Enum/ESpaceType.hpp"
#include "Enum/ELoadBy.hpp"
#include "Enum/ECalcVario.hpp"
#include <cmath>
#include <cstdio>
#include <vector>

static unsigned long long seedv = 99;
static double rnd()
{
  seedv = seedv * 6364136223846793005ULL + 1442695040888963407ULL;
  return (double) ((seedv >> 11) & ((1ULL << 53) - 1)) / (double) (1ULL << 53);
}
static int lagOf(double d, double dpas, double tol, int npas)
{
  int k = (int) std::floor(d / dpas + 0.5);
  if (std::fabs(d - k * dpas) > tol * dpas) return -1;
  if (k < 0 || k >= npas) return -1;
  return k;
}

int main()
{
  
  const int n = 12, npas = 4; const double dpas = 1., tol = 0.5;
  VectorDouble tab(2 * n), tabm(2 * n);
  std::vector<double> x(n), z(n);
  for (int i = 0; i < n; i++)
  {
    x[i] = i + 0.2 * rnd(); z[i] = rnd() * (1 + i);
    tab[i] = x[i]; tab[n + i] = z[i];
    tabm[i] = -x[i]; tabm[n + i] = z[i];
  }
  defineDefaultSpace(ESpaceType::RN, 1);
  Db* db  = Db::createFromSamples(n, ELoadBy::COLUMN, tab,  {"x", "z"}, {"x1", "z1"});
  Db* dbm = Db::createFromSamples(n, ELoadBy::COLUMN, tabm, {"x", "z"}, {"x1", "z1"});
  VarioParam* vp = VarioParam::createOmniDirection(npas, dpas, tol);
  Vario* v  = Vario::computeFromDb(*vp, db,  ECalcVario::VARIOGRAM, true);
  Vario* vm = Vario::computeFromDb(*vp, dbm, ECalcVario::VARIOGRAM, true);

  // definition: g(h) = sum_i g_i(h) / #{i : N_i(h) > 0}, g_i(h) = mean over the pairs (i,j), j after i in x-order
  std::vector<double> sw(npas, 0.), gg(npas, 0.);
  for (int i = 0; i < n; i++)
  {
    std::vector<double> s(npas, 0.), g(npas, 0.);
    for (int j = i + 1; j < n; j++)
    {
      int k = lagOf(std::fabs(x[j] - x[i]), dpas, tol, npas);
      if (k < 0) continue;
      s[k] += 1; g[k] += 0.5 * (z[i] - z[j]) * (z[i] - z[j]);
    }
    for (int k = 0; k < npas; k++) if (s[k] > 0) { sw[k] += 1; gg[k] += g[k] / s[k]; }
  }
  VectorDouble g1 = v->getGgVec(0, 0, 0, false, false, false), g2 = vm->getGgVec(0, 0, 0, false, false, false);
  VectorDouble s1 = v->getSwVec(0, 0, 0, false), s2 = vm->getSwVec(0, 0, 0, false);
  int bad = 0;
  for (int k = 1; k < npas; k++)
  {
    printf("lag %d: original sw=%g gg=%g | mirrored sw=%g gg=%g | per-sample definition sw=%g gg=%g\n",
           k, s1[k], g1[k], s2[k], g2[k], sw[k], sw[k] > 0 ? gg[k] / sw[k] : NAN);
    if (std::fabs(g1[k] - gg[k] / sw[k]) > 1e-9 || std::fabs(s1[k] - sw[k]) > 1e-9) bad++;
  }
  printf("%d lag(s) differ from the per-sample definition\n", bad);
  return bad != 0;
}

