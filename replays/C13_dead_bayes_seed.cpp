// Replay driver for report on KrigingSystem::_seedForBayes (C13)
//
// Part A: direct use of KrigingSystem in Bayesian simulation mode.
//   The only random draws in the whole scenario are the law_gaussian() calls
//   of KrigingSystem::_bayesPreSimulate(): the "non conditional simulations"
//   normally produced by turning bands are replaced by deterministic columns.
//   -> compare outputs for (generator state, Bayes seed) combinations.
// Part B: public function simbayes(): is its 'seed' enough for reproducibility?
#include "Basic/Law.hpp"
#include "Basic/OptDbg.hpp"
#include "Basic/VectorHelper.hpp"
#include "Basic/NamingConvention.hpp"
#include "Enum/ECov.hpp"
#include "Db/Db.hpp"
#include "Db/DbGrid.hpp"
#include "Enum/EDbg.hpp"
#include "Enum/ELoc.hpp"
#include "Estimation/KrigingSystem.hpp"
#include "Matrix/MatrixSquareSymmetric.hpp"
#include "Model/Model.hpp"
#include "Neigh/NeighUnique.hpp"
#include "Simulation/CalcSimuTurningBands.hpp"
#include "Space/ASpaceObject.hpp"

#include <cstdio>
#include <cstring>
#include <vector>

static const int NBSIMU = 3;

static Model* makeModel()
{
  Model* model = Model::createFromParam(ECov::SPHERICAL, 0.4, 1.0);
  model->setDriftIRF(1); // 1, x, y  -> 3 drift equations
  return model;
}

// Direct KrigingSystem run. Returns the NBSIMU simulated columns of the grid.
static std::vector<double> runDirect(int genSeed, int bayesSeed, bool verbose)
{
  Db* data     = Db::createFillRandom(20, 2, 1); // fixed internal seed 124234
  DbGrid* grid = DbGrid::create({5, 5}, {0.25, 0.25});
  Model* model = makeModel();
  NeighUnique* neigh = NeighUnique::create();

  // SIMU columns, as CalcSimuTurningBands::_preprocess would allocate them
  int nech    = data->getSampleNumber();
  int iptr_in = data->addColumnsByConstant(NBSIMU, 0., "SimuIn", ELoc::SIMU);
  int iptrOut = grid->addColumnsByConstant(NBSIMU, 0., "SimuOut", ELoc::SIMU);
  // Deterministic stand-in for "(NC simu - data) at data points": NC simu = 0
  for (int is = 0; is < NBSIMU; is++)
    for (int ie = 0; ie < nech; ie++)
      data->setArray(ie, iptr_in + is, -data->getZVariable(ie, 0));

  VectorDouble mean = {0., 0., 0.};
  MatrixSquareSymmetric cov(3);
  for (int i = 0; i < 3; i++) cov.setValue(i, i, 1.);

  // ---- the only thing that differs between "gen" runs: global generator state
  law_set_random_seed(genSeed);

  std::vector<double> res;
  {
    KrigingSystem ksys(data, grid, model, neigh);
    int e1 = ksys.setKrigOptFlagSimu(true, NBSIMU, 0);
    int e2 = ksys.updKrigOptEstim(iptrOut, -1, -1);
    int e3 = ksys.setKrigOptBayes(true, mean, cov, bayesSeed);
    if (verbose) OptDbg::define(EDbg::BAYES);
    bool ready = ksys.isReady();
    if (verbose) OptDbg::undefine(EDbg::BAYES);
    if (e1 || e2 || e3 || !ready)
    {
      printf("SETUP FAILED e1=%d e2=%d e3=%d ready=%d\n", e1, e2, e3, (int)ready);
      return res;
    }
    for (int iech = 0; iech < grid->getSampleNumber(); iech++)
      if (ksys.estimate(iech)) { printf("estimate failed at %d\n", iech); return res; }
    ksys.conclusion();
  }
  if (verbose)
  {
    // Side observation: _bayesPreSimulate ends with law_set_random_seed(memo), i.e. it
    // re-seeds the generator with the last seed VALUE (stream rewound), not its state.
    double after = law_gaussian();
    law_set_random_seed(genSeed);
    double fresh = law_gaussian();
    printf("next draw after KrigingSystem = %.17g ; first draw of a fresh seed %d = %.17g\n",
           after, genSeed, fresh);
  }
  for (int is = 0; is < NBSIMU; is++)
    for (int iech = 0; iech < grid->getSampleNumber(); iech++)
      res.push_back(grid->getArray(iech, iptrOut + is));

  delete data; delete grid; delete model; delete neigh;
  return res;
}

// Public simbayes() run
static std::vector<double> runSimbayes(int genSeed, int seed)
{
  Db* data     = Db::createFillRandom(20, 2, 1);
  DbGrid* grid = DbGrid::create({5, 5}, {0.25, 0.25});
  Model* model = makeModel();
  NeighUnique* neigh = NeighUnique::create();
  VectorDouble mean = {0., 0., 0.};
  MatrixSquareSymmetric cov(3);
  for (int i = 0; i < 3; i++) cov.setValue(i, i, 1.);

  law_set_random_seed(genSeed);
  // burn a genSeed-dependent number of draws too, so the state is really different
  for (int i = 0; i < genSeed % 17; i++) (void) law_gaussian();

  std::vector<double> res;
  int err = simbayes(data, grid, model, neigh, NBSIMU, seed, mean, cov, 50);
  if (err) { printf("simbayes failed\n"); return res; }
  VectorString names = grid->getNamesByLocator(ELoc::Z);
  if (names.empty()) names = grid->getName("SimBayes*");
  for (const auto& n : names)
  {
    VectorDouble col = grid->getColumn(n);
    res.insert(res.end(), col.begin(), col.end());
  }
  delete data; delete grid; delete model; delete neigh;
  return res;
}

static bool same(const std::vector<double>& a, const std::vector<double>& b)
{
  return !a.empty() && a.size() == b.size() &&
         memcmp(a.data(), b.data(), a.size() * sizeof(double)) == 0;
}

static void show(const char* tag, const std::vector<double>& v)
{
  printf("%-34s n=%zu first:", tag, v.size());
  for (size_t i = 0; i < 4 && i < v.size(); i++) printf(" %.17g", v[i]);
  printf("\n");
}

int main()
{
  defineDefaultSpace(ESpaceType::RN, 2);

  printf("===== Part A: KrigingSystem used directly =====\n");
  printf("--- debug printout of the simulated drift coefficients ---\n");
  printf(">>> gen=1 bayesSeed=777\n");       auto a1 = runDirect(1, 777, true);
  printf(">>> gen=99999 bayesSeed=777\n");   auto a2 = runDirect(99999, 777, true);
  printf(">>> gen=1 bayesSeed=888\n");       auto a3 = runDirect(1, 888, true);
  auto a4 = runDirect(1, 777, false);
  show("A1 gen=1     bayesSeed=777", a1);
  show("A2 gen=99999 bayesSeed=777", a2);
  show("A3 gen=1     bayesSeed=888", a3);
  show("A4 gen=1     bayesSeed=777 (again)", a4);
  printf("A1 vs A4 (same gen state, same Bayes seed)  : %s\n", same(a1, a4) ? "IDENTICAL" : "DIFFERENT");
  printf("A1 vs A2 (gen state differs, same Bayes seed): %s   [expected IDENTICAL if seed honoured]\n",
         same(a1, a2) ? "IDENTICAL" : "DIFFERENT");
  printf("A1 vs A3 (same gen state, Bayes seed differs): %s   [expected DIFFERENT if seed honoured]\n",
         same(a1, a3) ? "IDENTICAL" : "DIFFERENT");

  printf("\n===== Part B: public simbayes() =====\n");
  auto b1 = runSimbayes(1, 5555);
  auto b2 = runSimbayes(99999, 5555);
  auto b3 = runSimbayes(1, 6666);
  show("B1 gen=1     seed=5555", b1);
  show("B2 gen=99999 seed=5555", b2);
  show("B3 gen=1     seed=6666", b3);
  printf("B1 vs B2 (gen state differs, same seed): %s\n", same(b1, b2) ? "IDENTICAL" : "DIFFERENT");
  printf("B1 vs B3 (same gen state, seed differs): %s\n", same(b1, b3) ? "IDENTICAL" : "DIFFERENT");
  return 0;
}
