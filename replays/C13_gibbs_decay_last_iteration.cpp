// Replay: the relaxation of the bounds during the burning stage of the Gibbs sampler ignored the number of iterations: with
// niter <= nburn the LAST iteration still drew within relaxed bounds (and nburn = 0 divided by zero), so the values stored
// violated the intervals of the data although gibbs_sampler returned 0.
#include "geoslib_f.h"
#include "geoslib_old_f.h"
#include "Db/Db.hpp"
#include "Model/Model.hpp"
#include "Basic/Law.hpp"
#include "Basic/VectorHelper.hpp"
#include <cmath>
#include <cstdio>
int main()
{
  int bad = 0;
  for (int icas = 0; icas < 4; icas++)
  {
    int nburn = (icas == 0) ? 50 : (icas == 1) ? 10 : (icas == 2) ? 0 : 10;
    int niter = (icas == 0) ? 20 : (icas == 1) ? 10 : (icas == 2) ? 1 : 100;
    int nech = 30;
    law_set_random_seed(99);
    VectorDouble x = VH::simulateUniform(nech, 0., 20.);
    VectorDouble y = VH::simulateUniform(nech, 0., 20.);
    VectorDouble l(nech), u(nech);
    for (int i = 0; i < nech; i++) { l[i] = (i % 2) ? 1.0 : -1.6; u[i] = (i % 2) ? 1.5 : -1.1; }
    Db* db = Db::create();
    db->addColumns(x, "x1", ELoc::X, 0);
    db->addColumns(y, "x2", ELoc::X, 1);
    db->addColumns(l, "L", ELoc::L, 0);
    db->addColumns(u, "U", ELoc::U, 0);
    Model* model = Model::createFromParam(ECov::EXPONENTIAL, 8., 1.);
    int err = gibbs_sampler(db, model, 1, 3241, nburn, niter, false, false, false, false, false, 0, 5., false, false, false);
    VectorString n = db->getName("Gibbs*");
    int nout = 0, nnan = 0;
    if (!n.empty())
    {
      VectorDouble g = db->getColumn(n[0]);
      for (int i = 0; i < nech; i++)
      {
        if (std::isnan(g[i])) nnan++;
        else if (g[i] < l[i] || g[i] > u[i]) nout++;
      }
    }
    printf("gibbs_sampler nburn=%d niter=%d: err=%d, %d values outside their bounds, %d NaN (of %d)\n", nburn, niter, err, nout, nnan, nech);
    bad += nout + nnan;
    delete db; delete model;
  }
  return bad != 0;
}
