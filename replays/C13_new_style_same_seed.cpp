// Replay (known finding S12): with the new-style generator (law_set_old_style(false)) law_get_random_seed() returns a constant,
// so CalcSimuTurningBands::_initializeSeedBands gives every band / simulation the same seed: the nugget component of two
// simulations of the same run is identical.
#include "Basic/Law.hpp"
#include "Model/Model.hpp"
#include "Db/DbGrid.hpp"
#include "Simulation/CalcSimuTurningBands.hpp"
#include <cmath>
#include <cstdio>
int main()
{
  law_set_old_style(false);
  Model* model = Model::createFromParam(ECov::NUGGET, 0., 1.);
  DbGrid* g = DbGrid::create({10, 10});
  (void) simtub(nullptr, g, model, nullptr, 2, 4321, 10);
  VectorString n = g->getName("Simu*");
  if (n.size() != 2) { printf("unexpected number of simulations %d\n", (int) n.size()); return 2; }
  VectorDouble a = g->getColumn(n[0]), b = g->getColumn(n[1]);
  double d = 0.;
  for (int i = 0; i < (int) a.size(); i++) d = fmax(d, fabs(a[i] - b[i]));
  printf("new-style generator, pure nugget, 2 simulations of one run: max |simu1 - simu2| = %g (expected > 0)\n", d);
  return d == 0.;
}
