// C13 / S8: simbipgs() sets `local_seed = seed` INSIDE its loop on the two plurigaussians (and hands `seed` again to the
// Gibbs sampler of each): the turning bands of the first GRF of the second PGS are drawn from the generator reseeded with
// the same seed as for the first PGS.  When both first GRFs share their model, the "two" underlying Gaussian fields are
// one and the same realisation, although the bi-plurigaussian model takes them as independent.
#include "geoslib_f.h"
#include "geoslib_old_f.h"
#include "Enum/ECov.hpp"
#include "Enum/ESpaceType.hpp"
#include "Db/DbGrid.hpp"
#include "Model/Model.hpp"
#include "Neigh/NeighUnique.hpp"
#include "Space/ASpaceObject.hpp"
#include "LithoRule/Rule.hpp"
#include "LithoRule/RuleProp.hpp"
#include <cstdio>
#include <cmath>

int main()
{
  defineDefaultSpace(ESpaceType::RN, 2);
  DbGrid* grid = DbGrid::create({40, 40}, {0.025, 0.025});
  Model* m11 = Model::createFromParam(ECov::SPHERICAL, 0.2, 1.);
  Model* m12 = Model::createFromParam(ECov::EXPONENTIAL, 0.3, 1.);
  Model* m21 = Model::createFromParam(ECov::SPHERICAL, 0.2, 1.);   // same structure as m11, meant to be an independent field
  Model* m22 = Model::createFromParam(ECov::SPHERICAL, 0.1, 1.);
  Rule* rule1 = Rule::createFromNames({"S", "S", "F1", "F2", "F3"});
  Rule* rule2 = Rule::createFromNames({"S", "F1", "F2"});
  RuleProp* rp = RuleProp::createFromRules(rule1, rule2, {0.1, 0.2, 0.1, 0.3, 0.1, 0.2});
  NeighUnique* neigh = NeighUnique::create();
  int ncol0 = grid->getColumnNumber();
  int err = simbipgs(nullptr, grid, rp, m11, m12, m21, m22, neigh, 1, 43243, true);
  if (err) { printf("simbipgs failed\n"); return 2; }
  int nnew = grid->getColumnNumber() - ncol0;
  printf("%d gaussian columns:", nnew);
  for (int i = 0; i < nnew; i++) printf(" %s", grid->getNameByColIdx(ncol0 + i).c_str());
  printf("\n");
  int bad = 0;
  for (int i = 0; i < nnew; i++)
    for (int j = i + 1; j < nnew; j++)
    {
      VectorDouble a = grid->getColumnByColIdx(ncol0 + i), b = grid->getColumnByColIdx(ncol0 + j);
      double d = 0.;
      for (size_t k = 0; k < a.size(); k++) d = std::fmax(d, std::fabs(a[k] - b[k]));
      if (d == 0.)
      {
        printf("column %s and column %s are the SAME realisation\n", grid->getNameByColIdx(ncol0 + i).c_str(), grid->getNameByColIdx(ncol0 + j).c_str());
        bad++;
      }
    }
  printf(bad ? "VIOLATED\n" : "HOLDS\n");
  return bad ? 1 : 0;
}
