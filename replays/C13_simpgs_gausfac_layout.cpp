// C13 / S7: conditional plurigaussian simulation with TWO underlying Gaussian functions and several simulations.
// AGibbs::storeResult wrote the Gaussian value of (GRF icase, simulation isimu) into item `icase + nsize*isimu` of the
// GAUSFAC locator, while every reader (CalcSimuTurningBands::_difference / _updateData2ToTarget, Rule::gaus2facData) uses
// Db::getSimRank = `isimu + nbsimu*icase`.  With 2 GRFs and nbsimu >= 2 the conditioning mixes the Gaussians of
// different GRFs / simulations: the simulated facies at data nodes differ from the observed facies.
#include "geoslib_f.h"
#include "geoslib_old_f.h"
#include "Enum/ECov.hpp"
#include "Enum/ELoc.hpp"
#include "Db/Db.hpp"
#include "Db/DbGrid.hpp"
#include "Model/Model.hpp"
#include "Neigh/NeighUnique.hpp"
#include "Space/ASpaceObject.hpp"
#include "LithoRule/Rule.hpp"
#include "LithoRule/RuleProp.hpp"
#include <cstdio>

int main()
{
  defineDefaultSpace(ESpaceType::RN, 2);
  DbGrid* grid = DbGrid::create({12, 10}, {1., 1.});
  int n = 10;
  VectorDouble x = {1, 3, 5, 7, 2, 8, 10, 4, 6, 9}, y = {1, 5, 2, 6, 4, 3, 8, 8, 0, 1};
  VectorDouble fac = {1, 2, 3, 1, 2, 3, 3, 1, 2, 2};
  Db* db = Db::create();
  db->addColumns(x, "x", ELoc::X, 0);
  db->addColumns(y, "y", ELoc::X, 1);
  db->addColumns(fac, "fac", ELoc::Z, 0);
  NeighUnique* neigh = NeighUnique::create();
  int total = 0;
  for (int nbsimu = 1; nbsimu <= 3; nbsimu++)
  {
    Model* model1 = Model::createFromParam(ECov::EXPONENTIAL, 4., 1.);
    Model* model2 = Model::createFromParam(ECov::SPHERICAL, 6., 1.);
    Rule* rule = Rule::createFromNames({"S", "T", "F1", "F2", "F3"});
    RuleProp* ruleprop = RuleProp::createFromRule(rule, {0.3, 0.3, 0.4});
    DbGrid* g = grid->clone();
    Db* d = db->clone();
    int err = simpgs(d, g, ruleprop, model1, model2, neigh, nbsimu, 4242, false, false, false, false, 50, 20, 100);
    if (err) { printf("simpgs failed\n"); return 2; }
    VectorString names = g->getAllNames();
    int nbad = 0;
    for (int is = 0; is < nbsimu; is++)
    {
      String nm = names[names.size() - nbsimu + is];
      for (int i = 0; i < n; i++)
      {
        int node = (int)x[i] + 12 * (int)y[i];
        double v = g->getValue(nm, node);
        if (v != fac[i]) { nbad++; printf("  nbsimu=%d simulation %d datum %d: observed facies %g, simulated %g\n", nbsimu, is, i, fac[i], v); }
      }
    }
    printf("nbsimu=%d: %d data nodes with another facies\n", nbsimu, nbad);
    total += nbad;
  }
  printf(total ? "VIOLATED (%d)\n" : "HOLDS (%d)\n", total);
  return total ? 1 : 0;
}
