// C13 / S6: conditional turning bands towards a POINT target file.  CalcSimuTurningBands::_updateData2ToTarget
// (point branch) read the coordinates of target `ik` from the DATA file (`dbin->getSampleCoordinatesInPlace(ik, ..)`):
// target k received the value of datum k wherever it lies, instead of the value of the datum coinciding with it.
// Expected: every target coinciding with a datum carries exactly that datum's value in each simulation.
#include "geoslib_f.h"
#include "Enum/ECov.hpp"
#include "Enum/ESpaceType.hpp"
#include "Db/Db.hpp"
#include "Model/Model.hpp"
#include "Neigh/NeighUnique.hpp"
#include "Space/ASpaceObject.hpp"
#include "Simulation/CalcSimuTurningBands.hpp"
#include <cstdio>
#include <cmath>

int main()
{
  defineDefaultSpace(ESpaceType::RN, 2);
  const int n = 6;
  VectorDouble x = {1., 4., 7., 2., 9., 5.}, y = {1., 8., 3., 6., 9., 5.}, z = {-2., -1., 0., 1., 2., 3.};
  Db* dbin = Db::create();
  dbin->addColumns(x, "x", ELoc::X, 0);
  dbin->addColumns(y, "y", ELoc::X, 1);
  dbin->addColumns(z, "z", ELoc::Z, 0);
  // targets: the same points in REVERSE order, plus two points elsewhere
  VectorDouble xo, yo;
  for (int i = n - 1; i >= 0; i--) { xo.push_back(x[i]); yo.push_back(y[i]); }
  xo.push_back(3.3); yo.push_back(3.3);
  xo.push_back(6.6); yo.push_back(7.7);
  Db* dbout = Db::create();
  dbout->addColumns(xo, "x", ELoc::X, 0);
  dbout->addColumns(yo, "y", ELoc::X, 1);
  Model* model = Model::createFromParam(ECov::SPHERICAL, 6., 1.);
  NeighUnique* neigh = NeighUnique::create();
  int nbsimu = 2;
  int err = simtub(dbin, dbout, model, neigh, nbsimu, 4321, 100);
  if (err) { printf("simtub failed\n"); return 2; }
  int bad = 0;
  for (int isimu = 0; isimu < nbsimu; isimu++)
  {
    VectorDouble s = dbout->getColumn("Simu." + std::to_string(isimu + 1));
    if (s.empty()) s = dbout->getColumnByLocator(ELoc::Z, isimu);
    for (int k = 0; k < n; k++)
    {
      double expect = z[n - 1 - k];
      if (std::fabs(s[k] - expect) > 1e-6)
      {
        printf("simulation %d target %d at (%g,%g): %g, datum there is %g\n", isimu, k, xo[k], yo[k], s[k], expect);
        bad++;
      }
    }
  }
  printf(bad ? "VIOLATED: %d coinciding targets do not carry their datum\n" : "HOLDS (%d)\n", bad);
  return bad ? 1 : 0;
}
