// Replay: a CalcSimuTurningBands object used twice with the same inputs and seed did not give the same simulation for the models
// whose band process depends on the field extension (LINEAR, ORDER*_GC): `_field` and `_npointSimulated` were only ever increased.
#include "Simulation/CalcSimuTurningBands.hpp"
#include "Model/Model.hpp"
#include "Db/DbGrid.hpp"
#include <cmath>
#include <cstdio>
int main()
{
  Model* model = Model::createFromParam(ECov::LINEAR, 1., 1.);
  DbGrid* g1 = DbGrid::create({20, 15});
  DbGrid* g2 = DbGrid::create({20, 15});
  CalcSimuTurningBands situba(1, 50, false, 4321);
  int e1 = situba.simulate(nullptr, g1, model, nullptr, 0);
  int e2 = situba.simulate(nullptr, g2, model, nullptr, 0);
  VectorDouble a = g1->getColumn(g1->getLastName()), b = g2->getColumn(g2->getLastName());
  double d = 0.;
  for (int i = 0; i < (int) a.size(); i++) d = fmax(d, fabs(a[i] - b[i]));
  printf("err=%d/%d: same object, same seed, same inputs, LINEAR model: max |run1 - run2| = %g (expected 0)\n", e1, e2, d);
  return d != 0.;
}
