// Replay: DbGrid::centerCoordinateInPlace took the failure status (-1: undefined coordinate / wrong dimension) of the conversion
// for a success: the point was "centred" onto the grid origin (the indices had not been computed) and 0 was returned.
#include "Db/DbGrid.hpp"
#include <cstdio>
int main()
{
  DbGrid* g = DbGrid::create({5, 4}, {2., 3.}, {10., 20.});
  VectorDouble c = {TEST, 25.};
  int err = g->centerCoordinateInPlace(c, true, true);
  printf("centerCoordinateInPlace({NA, 25}, stopIfOut) returned %d, coordinates (%g, %g)  (expected: -1, coordinates untouched)\n", err, c[0], c[1]);
  return err == 0;
}
