// Replay: Grid::dilate() calls the value-returning indicesToCoordinate(indice, percent) with its scratch vector as the
// `percent` argument and drops the result: the origin of the dilated grid is not the parent node (-nshift).
#include "Basic/Grid.hpp"
#include "Space/ASpaceObject.hpp"
#include <iostream>
#include <cmath>
int main() {
  defineDefaultSpace(ESpaceType::RN, 2);
  Grid g(2, {5, 5}, {10., 20.}, {1., 2.});
  VectorInt nx(2); VectorDouble dx(2), x0(2);
  g.dilate(1, {1, 1}, nx, dx, x0);
  VectorDouble want = g.indicesToCoordinate({-1, -1});
  std::cout << "dilated origin (" << x0[0] << "," << x0[1] << "), parent node (-1,-1) is at (" << want[0] << "," << want[1] << ")" << std::endl;
  bool bad = std::abs(x0[0] - want[0]) > 1e-10 || std::abs(x0[1] - want[1]) > 1e-10;
  std::cout << (bad ? "FAIL" : "PASS") << std::endl;
  return bad;
}
