// Replay: Grid::multiple / Grid::divider (cell matching) scale the ROTATED half-diagonal of a cell component by component with the
// per-direction factors: on a rotated parent with different factors the first cell centre of the derived grid is misplaced.
#include "Basic/Grid.hpp"
#include "Space/ASpaceObject.hpp"
#include <iostream>
#include <cmath>
int main() {
  defineDefaultSpace(ESpaceType::RN, 2);
  Grid g(2, {6, 4}, {10., 20.}, {1., 2.});
  g.setRotationByAngles({30., 0.});
  int bad = 0;
  {
    VectorInt nmult = {2, 1};
    VectorInt nx(2); VectorDouble dx(2), x0(2);
    g.multiple(nmult, true, nx, dx, x0);
    // the first coarse cell covers the parent cells (0,0) and (1,0): its centre is the mean of their centres
    VectorDouble a = g.indicesToCoordinate({0, 0}), b = g.indicesToCoordinate({1, 0});
    double ex = (a[0] + b[0]) / 2., ey = (a[1] + b[1]) / 2.;
    double d = std::hypot(x0[0] - ex, x0[1] - ey);
    std::cout << "multiple(2,1): first coarse cell centre (" << x0[0] << "," << x0[1] << "), expected (" << ex << "," << ey << "), distance " << d << std::endl;
    if (d > 1e-9) bad++;
  }
  {
    VectorInt nmult = {2, 1};
    VectorInt nx(2); VectorDouble dx(2), x0(2);
    g.divider(nmult, true, nx, dx, x0);
    // the first fine cell is the left half of the parent cell (0,0): its centre is a quarter of a mesh left of the parent centre, along the rotated axis
    VectorDouble c = g.indicesToCoordinate({0, 0}, {-0.25, 0.});
    double d = std::hypot(x0[0] - c[0], x0[1] - c[1]);
    std::cout << "divider(2,1): first fine cell centre (" << x0[0] << "," << x0[1] << "), expected (" << c[0] << "," << c[1] << "), distance " << d << std::endl;
    if (d > 1e-9) bad++;
  }
  std::cout << (bad ? "FAIL" : "PASS") << std::endl;
  return bad != 0;
}
