// C16: Rotation::resetFromSpaceDimension() resized `_angles` (std::vector::resize keeps the existing elements) while it set both
// matrices back to the identity: after resetting a rotated grid to an unrotated one the grid is not rotated, yet getAngles()
// still reports the old angles, and every grid derived from getAngles() (coarsify, refine, createSubGrid, neutral file) is
// rotated although its parent is not - its nodes are not those of the parent.
#include "Enum/ESpaceType.hpp"
#include "Db/DbGrid.hpp"
#include "Space/ASpaceObject.hpp"
#include <cstdio>
#include <cmath>

int main()
{
  defineDefaultSpace(ESpaceType::RN, 2);
  DbGrid* g = DbGrid::create({4, 4}, {1., 2.}, {10., 20.}, {30., 0.});
  g->reset({4, 4}, {1., 2.}, {10., 20.});            // same dimension, no rotation any more
  VectorDouble c1 = g->getCoordinatesByIndice({2, 0});
  printf("parent: rotated=%d angles=(%g,%g) node(2,0)=(%g,%g)\n", (int) g->isGridRotated(), g->getAngles()[0], g->getAngles()[1], c1[0], c1[1]);
  DbGrid* c = g->coarsify({2, 1});
  VectorDouble c2 = c->getCoordinatesByIndice({1, 0});
  printf("coarsified child: rotated=%d node(1,0)=(%g,%g)  (centre of parent nodes (2,0),(3,0) expected: (12.5,20))\n", (int) c->isGridRotated(), c2[0], c2[1]);
  int bad = 0;
  if (g->getAngles()[0] != 0.) bad++;
  if (c->isGridRotated()) bad++;
  // cell-wise coarsening by (2,1): child node (1,0) is the centre of parent cells (2,0) and (3,0) of the UNROTATED parent
  if (std::fabs(c2[0] - (c1[0] + 0.5)) > 1e-9 || std::fabs(c2[1] - c1[1]) > 1e-9) bad++;
  printf(bad ? "VIOLATED (%d)\n" : "HOLDS (%d)\n", bad);
  return bad ? 1 : 0;
}
