// Replay: DbGrid::createFromGridShrink validated the LOOP COUNTER instead of the rank to remove: a rank outside [0, ndim[ went
// through and the vectors of the grid were erased past their end (free(): invalid pointer / abort).
#include "Db/DbGrid.hpp"
#include <cstdio>
int main()
{
  DbGrid* g = DbGrid::create({4, 3, 2}, {1., 1., 1.}, {0., 0., 0.});
  DbGrid* h = DbGrid::createFromGridShrink(*g, {7});
  printf("createFromGridShrink(rank 7 of a 3-D grid) returned a grid with %d dimension(s) (refused => 0)\n", h == nullptr ? -1 : h->getNDim());
  DbGrid* k = DbGrid::createFromGridShrink(*g, {1, 0, 1});
  printf("createFromGridShrink({1,0,1}) => %d dimension(s) (expected 1)\n", k == nullptr ? -1 : k->getNDim());
  return 0;
}
