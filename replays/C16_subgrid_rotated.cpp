// Replay: DbGrid::createSubGrid shifts the origin along the coordinate axes (x0 += imin * dx) and forwards the rotation of the
// parent: on a rotated parent the nodes of the sub-grid are not nodes of the parent.
#include "Db/DbGrid.hpp"
#include "Space/ASpaceObject.hpp"
#include <iostream>
#include <cmath>
int main() {
  defineDefaultSpace(ESpaceType::RN, 2);
  DbGrid* parent = DbGrid::create({6, 5}, {1., 2.}, {10., 20.}, {30., 0.});
  DbGrid* sub = DbGrid::createSubGrid(parent, {{2, 5}, {1, 4}}, false);
  double worst = 0.;
  for (int i = 0; i < sub->getSampleNumber(); i++) {
    VectorInt ind(2); sub->rankToIndice(i, ind);
    VectorInt indp = {ind[0] + 2, ind[1] + 1};
    VectorDouble a = sub->getGrid().indicesToCoordinate(ind);
    VectorDouble b = parent->getGrid().indicesToCoordinate(indp);
    worst = std::max(worst, std::hypot(a[0] - b[0], a[1] - b[1]));
  }
  std::cout << "largest distance between a sub-grid node and the parent node it stands for: " << worst << std::endl;
  std::cout << (worst > 1e-9 ? "FAIL" : "PASS") << std::endl;
  return worst > 1e-9;
}
