// Replay: the scalar entry points of the empirical anamorphosis turned an undefined value into the upper end of the table
// (1.234e30 is clamped like any large value) instead of returning an undefined value, unlike AnamHermite.
#include "Anamorphosis/AnamEmpirical.hpp"
#include "Basic/VectorHelper.hpp"
#include "Basic/Law.hpp"
#include <cstdio>
int main()
{
  law_set_random_seed(5);
  VectorDouble z = VH::simulateGaussian(200);
  for (auto& v : z) v = 10. + 2. * v;
  AnamEmpirical* anam = AnamEmpirical::create(30);
  anam->fitFromArray(z);
  double y = anam->rawToTransformValue(TEST);
  double r = anam->transformToRawValue(TEST);
  printf("rawToTransformValue(NA) = %g, transformToRawValue(NA) = %g (expected undefined = 1.234e+30 both)\n", y, r);
  return !(FFFF(y) && FFFF(r));
}
