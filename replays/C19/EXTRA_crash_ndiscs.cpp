// Side observation (not a data-base-state finding): krigingFactors with a change-of-support model,
// EKrigOpt::BLOCK and ndiscs of the wrong length ({2} in 2-D) kills the process (SIGFPE) instead of failing.
#include "common.hpp"
#include "Estimation/CalcKrigingFactors.hpp"
#include "Anamorphosis/AnamHermite.hpp"
int main()
{
  defineDefaultSpace(ESpaceType::RN, 2);
  NeighMoving* neighM = NeighMoving::create(false, 10, 10.);
  AnamHermite* anam = AnamHermite::create(10);
  Db* data = makeData(40);
  VectorDouble z = data->getColumn("z");
  for (auto& v : z) v = 1.5 * exp(0.5 * v);
  data->setColumn(z, "z");
  anam->fitFromLocator(data);
  (void) anam->rawToFactor(data, 3);
  anam->setRCoef(0.8);
  Model* model = Model::createFromParam(ECov::EXPONENTIAL, 0.3, 1.);
  model->setAnam(anam);
  DbGrid* grid = makeGrid(4);
  printf("calling krigingFactors(..., EKrigOpt::BLOCK, ndiscs={2}) in 2-D\n"); fflush(stdout);
  int err = krigingFactors(data, grid, model, neighM, EKrigOpt::BLOCK, {2});
  printf("returned %d\n", err);
  return 0;
}
