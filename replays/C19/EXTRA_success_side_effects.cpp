// Side observations made while triaging (SUCCESSFUL calls that change the input Db / leave dangling roles).
//  1. kriging() with an external drift: ACalcInterpolator::_preprocess migrates the drift into the input Db
//     (_expandInformation(1,F)); CalcKriging::_postprocess never removes it (only CalcSimuTurningBands does).
//  2. krigingFactors() when dbin already holds a different number of F variables: their F locators are lost.
//  3. krigtest() success: Z locator count of dbout becomes 1 although no column carries it.
#include "common.hpp"
#include "Estimation/CalcKriging.hpp"
#include "Estimation/CalcKrigingFactors.hpp"
#include "Anamorphosis/AnamHermite.hpp"
#include "Basic/OptDbg.hpp"

int main()
{
  defineDefaultSpace(ESpaceType::RN, 2);
  NeighMoving* neighM = NeighMoving::create(false, 10, 10.);
  {
    banner("1: kriging(data, grid+F1, model with 1 external drift): success");
    Model* m2 = Model::createFromParam(ECov::EXPONENTIAL, 0.3, 1.);
    m2->setDriftIRF(0, 1);
    Db* data = makeData(30);
    DbGrid* grid = makeGrid(5);
    VectorDouble f(25); for (int i = 0; i < 25; i++) f[i] = (i % 5) + 0.1 * (i / 5);
    grid->addColumns(f, "drift", ELoc::F);
    Watch wi("dbin", data); Watch wo("dbout", grid);
    int err = kriging(data, grid, m2, neighM);
    printf("  kriging() returned %d\n", err);
    wi.report(); wo.report();
    delete data; delete grid; delete m2;
  }
  {
    banner("2: krigingFactors(data with fa:F1, fb:F2, grid+F1, model with 1 external drift): success");
    AnamHermite* anam = AnamHermite::create(10);
    Db* data = makeData(40);
    VectorDouble z = data->getColumn("z");
    for (auto& v : z) v = 1.5 * exp(0.5 * v);
    data->setColumn(z, "z");
    anam->fitFromLocator(data);
    (void) anam->rawToFactor(data, 3);
    Model* model = Model::createFromParam(ECov::EXPONENTIAL, 0.3, 1.);
    model->setDriftIRF(0, 1);
    model->setAnam(anam);
    DbGrid* grid = makeGrid(4);
    VectorDouble f(16); for (int i = 0; i < 16; i++) f[i] = (i % 4) + 0.1 * (i / 4);
    grid->addColumns(f, "drift", ELoc::F);
    VectorDouble f1(40), f2(40); for (int i = 0; i < 40; i++) { f1[i] = i % 5; f2[i] = i % 3; }
    data->addColumns(f1, "fa", ELoc::F, 0);
    data->addColumns(f2, "fb", ELoc::F, 1);
    Watch wi("dbin", data); Watch wo("dbout", grid);
    int err = krigingFactors(data, grid, model, neighM);
    printf("  krigingFactors() returned %d\n", err);
    wi.report(); wo.report();
    delete data; delete grid; delete model; delete anam;
  }
  {
    banner("3: krigtest(data, grid, model, neigh, iech0=3, POINT, verbose=false): success");
    Model* model = Model::createFromParam(ECov::EXPONENTIAL, 0.3, 1.);
    Db* data = makeData(30);
    DbGrid* grid = makeGrid(5);
    Watch wi("dbin", data); Watch wo("dbout", grid);
    Krigtest_Res res = krigtest(data, grid, model, neighM, 3, EKrigOpt::POINT, VectorInt(), false, false);
    printf("  krigtest() returned nech=%d neq=%d\n", res.nech, res.neq);
    wi.report(); wo.report();
    printf("  dbout->getLocNumber(ELoc::Z) = %d ; names by locator Z: ", grid->getLocNumber(ELoc::Z));
    for (const auto& n : grid->getNamesByLocator(ELoc::Z)) printf("'%s' ", n.c_str());
    printf("\n");
    delete data; delete grid; delete model;
  }
  return 0;
}
