// R19.2 / R19.5 CalcAnamTransform: output columns created with getDb()->addColumnsByConstant()
// (not registered for roll-back). Question: is there a failing _run after _preprocess?
// Public calls: DisjunctiveKriging(), ConditionalExpectation(), UniformConditioning()
#include "common.hpp"
#include <cmath>
#include "Anamorphosis/CalcAnamTransform.hpp"
#include "Anamorphosis/AnamHermite.hpp"
#include "Anamorphosis/AnamDiscreteDD.hpp"
#include "Stats/Selectivity.hpp"

// a grid with two "kriging result" like columns est/std (+ some factor-like columns)
static DbGrid* makeResultGrid(int nfac)
{
  DbGrid* g = makeGrid(4);
  int n = g->getSampleNumber();
  VectorDouble e(n), s(n);
  for (int i = 0; i < n; i++) { e[i] = -1. + 2. * i / n; s[i] = 0.3 + 0.02 * i; }
  g->addColumns(e, "est");
  g->addColumns(s, "std");
  for (int k = 0; k < nfac; k++)
  {
    VectorDouble fe(n), fs(n);
    for (int i = 0; i < n; i++) { fe[i] = 0.1 * (k + 1) * (i % 3 - 1); fs[i] = 0.5; }
    g->addColumns(fe, "F" + std::to_string(k + 1) + ".estim");
    g->addColumns(fs, "F" + std::to_string(k + 1) + ".stdev");
  }
  VectorDouble z(n); for (int i = 0; i < n; i++) z[i] = 1. + (i % 5);
  g->addColumns(z, "z", ELoc::Z);     // a Z variable is required by _check
  return g;
}

static AnamHermite* makeAnam(int nbpoly)
{
  AnamHermite* anam = AnamHermite::create(nbpoly);
  Db* tmp = makeData(200, 1, 777);
  VectorDouble z = tmp->getColumn("z");
  for (auto& v : z) v = 1.5 * exp(0.5 * v);
  tmp->setColumn(z, "z");
  anam->fitFromLocator(tmp);
  delete tmp;
  return anam;
}

static void after(Watch& w, DbGrid* g)
{
  w.report();
  VectorString nn = g->getAllNames();
  for (int i = 0; i < (int) nn.size(); i++)
  {
    if (w.before.find(nn[i] + ":") != std::string::npos) continue;
    VectorDouble v = g->getColumnByColIdx(i);
    int ndef = 0; for (double x : v) if (!FFFF(x) && !std::isnan(x)) ndef++;
    printf("  new column '%s': %d defined values out of %d\n", nn[i].c_str(), ndef, (int) v.size());
  }
}

int main()
{
  defineDefaultSpace(ESpaceType::RN, 2);

  {
    banner("A: DisjunctiveKriging with 5 factors but an anamorphosis of only 4 polynomials (error detected in _run)");
    AnamHermite* anam = makeAnam(4);
    Selectivity* sel = Selectivity::createByCodes({ESelectivity::Q, ESelectivity::T}, {1., 2.}, true, true);
    DbGrid* g = makeResultGrid(5);
    Watch w("db", g);
    int err = DisjunctiveKriging(g, anam, sel,
                                 {"F1.estim", "F2.estim", "F3.estim", "F4.estim", "F5.estim"},
                                 {"F1.stdev", "F2.stdev", "F3.stdev", "F4.stdev", "F5.stdev"},
                                 NamingConvention("QT", false));
    printf("  DisjunctiveKriging() returned %d\n", err);
    after(w, g);
    delete g; delete sel; delete anam;
  }
  {
    banner("A-ref: DisjunctiveKriging with 2 factors and 10 polynomials (correct call)");
    AnamHermite* anam = makeAnam(10);
    Selectivity* sel = Selectivity::createByCodes({ESelectivity::Q, ESelectivity::T}, {1., 2.}, true, true);
    DbGrid* g = makeResultGrid(2);
    Watch w("db", g);
    int err = DisjunctiveKriging(g, anam, sel, {"F1.estim", "F2.estim"}, {"F1.stdev", "F2.stdev"},
                                 NamingConvention("QT", false));
    printf("  DisjunctiveKriging() returned %d\n", err);
    after(w, g);
    delete g; delete sel; delete anam;
  }
  {
    banner("B: ConditionalExpectation, QUANT asked with proba undefined (TEST) and negative nbsimu");
    AnamHermite* anam = makeAnam(10);
    Selectivity* sel = Selectivity::createByCodes({ESelectivity::QUANT, ESelectivity::T}, {1., 2.}, true, true);
    DbGrid* g = makeResultGrid(0);
    Watch w("db", g);
    int err = ConditionalExpectation(g, anam, sel, "est", "std", false, TEST, -5,
                                     NamingConvention("CE", false));
    printf("  ConditionalExpectation() returned %d\n", err);
    after(w, g);
    delete g; delete sel; delete anam;
  }
  {
    banner("C: ConditionalExpectation with a NEGATIVE st. dev. column and cut-offs outside the data range");
    AnamHermite* anam = makeAnam(10);
    Selectivity* sel = Selectivity::createByCodes({ESelectivity::Z, ESelectivity::Q, ESelectivity::T},
                                                  {-100., 1.e6}, true, true);
    DbGrid* g = makeResultGrid(0);
    VectorDouble s = g->getColumn("std"); for (auto& v : s) v = -v; g->setColumn(s, "std");
    Watch w("db", g);
    int err = ConditionalExpectation(g, anam, sel, "est", "std", false, TEST, 0,
                                     NamingConvention("CE", false));
    printf("  ConditionalExpectation() returned %d\n", err);
    after(w, g);
    delete g; delete sel; delete anam;
  }
  {
    banner("D: UniformConditioning with a variance column larger than the point variance (inconsistent) ");
    AnamHermite* anam = makeAnam(10);
    Selectivity* sel = Selectivity::createByCodes({ESelectivity::Q, ESelectivity::T}, {1., 2.}, true, true);
    DbGrid* g = makeResultGrid(0);
    VectorDouble s = g->getColumn("std"); for (auto& v : s) v = 1.e4; g->setColumn(s, "std");
    Watch w("db", g);
    int err = UniformConditioning(g, anam, sel, "est", "std", NamingConvention("UC", false));
    printf("  UniformConditioning() returned %d\n", err);
    after(w, g);
    delete g; delete sel; delete anam;
  }
  {
    banner("E: UniformConditioning with an anamorphosis that was never fitted");
    AnamHermite* anam = AnamHermite::create(10);
    Selectivity* sel = Selectivity::createByCodes({ESelectivity::Q, ESelectivity::T}, {1., 2.}, true, true);
    DbGrid* g = makeResultGrid(0);
    Watch w("db", g);
    int err = UniformConditioning(g, anam, sel, "est", "std", NamingConvention("UC", false));
    printf("  UniformConditioning() returned %d\n", err);
    after(w, g);
    delete g; delete sel; delete anam;
  }
  {
    banner("F: DisjunctiveKriging with a discrete (DD) anamorphosis: rejected by _check, before any creation");
    AnamDiscreteDD* anam = AnamDiscreteDD::create();
    Selectivity* sel = Selectivity::createByCodes({ESelectivity::Q, ESelectivity::T}, {1., 2.}, true, true);
    DbGrid* g = makeResultGrid(2);
    Watch w("db", g);
    int err = DisjunctiveKriging(g, anam, sel, {"F1.estim", "F2.estim"}, {"F1.stdev", "F2.stdev"},
                                 NamingConvention("QT", false));
    printf("  DisjunctiveKriging() returned %d\n", err);
    after(w, g);
    delete g; delete sel; delete anam;
  }
  return 0;
}
