// R19.3 CalcGridToGrid: _iattAux (status 2, only in "shrink" mode) is not cleaned by _rollback.
// Public call: dbg2gShrink(). The question: can _run (=_g2gShrink) or _postprocess fail after _preprocess?
// _g2gShrink() has no failing branch (always "return true"), _postprocess neither.
// This driver tries the unusual inputs that pass _check.
#include "common.hpp"
#include "Calculators/CalcGridToGrid.hpp"

static void attempt(const char* title, DbGrid* in, DbGrid* out)
{
  banner(title);
  Watch wi("dbin", in); Watch wo("dbout", out);
  int err = dbg2gShrink(in, out);
  printf("  dbg2gShrink() returned %d\n", err);
  wi.report(); wo.report();
}

int main()
{
  defineDefaultSpace(ESpaceType::RN, 2);
  {
    DbGrid* g3 = DbGrid::create({4, 3, 2});
    VectorDouble v(24); for (int i = 0; i < 24; i++) v[i] = i;
    g3->addColumns(v, "z", ELoc::Z);
    DbGrid* g2 = DbGrid::create({4, 3});
    attempt("A: 3-D grid (with z) -> 2-D grid without variable", g3, g2);
    delete g3; delete g2;
  }
  {
    DbGrid* g3 = DbGrid::create({4, 3, 2});
    VectorDouble v(24); for (int i = 0; i < 24; i++) v[i] = i;
    g3->addColumns(v, "z", ELoc::Z);
    DbGrid* g2 = DbGrid::create({4, 3});
    VectorDouble w(12, TEST);
    g2->addColumns(w, "zout", ELoc::Z);
    attempt("B: 3-D grid -> 2-D grid whose Z variable is entirely undefined", g3, g2);
    delete g3; delete g2;
  }
  {
    DbGrid* g3 = DbGrid::create({4, 3, 2});
    VectorDouble v(24); for (int i = 0; i < 24; i++) v[i] = i;
    g3->addColumns(v, "z", ELoc::Z);
    VectorDouble sel(24, 0.);
    g3->addColumns(sel, "sel", ELoc::SEL);      // everything masked off in the input
    DbGrid* g2 = DbGrid::create({4, 3});
    VectorDouble w(12, 1.);
    g2->addColumns(w, "zout", ELoc::Z);
    attempt("C: 3-D grid fully masked -> 2-D grid", g3, g2);
    delete g3; delete g2;
  }
  {
    DbGrid* g3 = DbGrid::create({4, 3, 2});
    VectorDouble v(24); for (int i = 0; i < 24; i++) v[i] = i;
    g3->addColumns(v, "z", ELoc::Z);
    DbGrid* g2 = DbGrid::create({4, 2});        // different mesh: rejected by _check (before any creation)
    attempt("D: grids that do not match: _check fails", g3, g2);
    delete g3; delete g2;
  }
  return 0;
}
