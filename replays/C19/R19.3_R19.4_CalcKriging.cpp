// CalcKriging:
//  R19.3: single-target mode (krigtest) registers ALL outputs with status 2; _rollback cleans status 1 only
//  R19.3/R19.4: DGM kriging: _centerDataToGrid creates status-2 coordinates in dbin and moves the X locators;
//               only _postprocess puts them back.
// Public calls: krigtest(), kriging(..., EKrigOpt::DGM)
#include "common.hpp"
#include <cmath>
#include "Estimation/CalcKriging.hpp"
#include "Anamorphosis/AnamHermite.hpp"
#include "Matrix/MatrixRectangular.hpp"

int main()
{
  defineDefaultSpace(ESpaceType::RN, 2);
  Model* model = Model::createFromParam(ECov::EXPONENTIAL, 0.3, 1.);
  NeighMoving* neighM = NeighMoving::create(false, 10, 10.);

  // ---------------- R19.3 single target --------------------
  {
    banner("A: krigtest(data, grid, model, neigh, iech0=3, EKrigOpt::BLOCK, ndiscs={}) : _run fails in setKrigOptCalcul");
    Db* data = makeData(30);
    DbGrid* grid = makeGrid(5);
    Watch wi("dbin", data); Watch wo("dbout", grid);
    Krigtest_Res res = krigtest(data, grid, model, neighM, 3, EKrigOpt::BLOCK, VectorInt(), false, false);
    printf("  krigtest() returned a Krigtest_Res with nech=%d neq=%d (no error code in this API)\n", res.nech, res.neq);
    wi.report(); wo.report();

    banner("A2: reference: successful krigtest on fresh objects (columns removed by _postprocess; but see the dangling Z locator count)");
    Db* data2 = makeData(30);
    DbGrid* grid2 = makeGrid(5);
    Watch wi2("dbin", data2); Watch wo2("dbout", grid2);
    Krigtest_Res res2 = krigtest(data2, grid2, model, neighM, 3, EKrigOpt::POINT, VectorInt(), false, false);
    printf("  krigtest() returned a Krigtest_Res with nech=%d neq=%d\n", res2.nech, res2.neq);
    wi2.report(); wo2.report();
    delete data; delete grid; delete data2; delete grid2;
  }
  {
    banner("A3: krigtest(points -> POINTS, BLOCK, ndiscs={2,2}) : block kriging on a non-grid output, _run fails");
    Db* data = makeData(30);
    Db* target = makeData(8, 1, 99);
    Watch wi("dbin", data); Watch wo("dbout", target);
    Krigtest_Res res = krigtest(data, target, model, neighM, 3, EKrigOpt::BLOCK, {2, 2}, false, false);
    printf("  krigtest() returned a Krigtest_Res with nech=%d neq=%d\n", res.nech, res.neq);
    wi.report(); wo.report();
    delete data; delete target;
  }
  {
    banner("A4: reference: same failing input through kriging() (status 1): roll-back works");
    Db* data = makeData(30);
    DbGrid* grid = makeGrid(5);
    Watch wi("dbin", data); Watch wo("dbout", grid);
    int err = kriging(data, grid, model, neighM, EKrigOpt::BLOCK, true, true, false, VectorInt());
    printf("  kriging() returned %d\n", err);
    wi.report(); wo.report();
    delete data; delete grid;
  }

  // ---------------- R19.3 + R19.4 DGM --------------------
  AnamHermite* anam = AnamHermite::create(10);
  {
    Db* tmp = makeData(200, 1, 777);
    anam->fitFromLocator(tmp);
    delete tmp;
  }
  anam->setRCoef(0.8);
  {
    banner("B: kriging(data, grid, modelDGM(sill=2), neigh, EKrigOpt::DGM) : _run fails in setKrigOptDGM");
    Model* modelDGM = Model::createFromParam(ECov::EXPONENTIAL, 0.3, 2.);
    modelDGM->setAnam(anam);
    Db* data = makeData(30);
    DbGrid* grid = makeGrid(5);
    Watch wi("dbin", data); Watch wo("dbout", grid);
    int err = kriging(data, grid, modelDGM, neighM, EKrigOpt::DGM);
    printf("  kriging() returned %d\n", err);
    wi.report(); wo.report();
    printf("  dbin first sample coordinates via locator X: (%g, %g); via names x-1,x-2: (%g, %g)\n",
           data->getCoordinate(0, 0), data->getCoordinate(0, 1),
           data->getValue("x-1", 0), data->getValue("x-2", 0));

    banner("B2: the same 'data' reused afterwards for an ordinary point kriging (its X locators now designate the centred copies)");
    DbGrid* grid2 = makeGrid(5);
    int err2 = kriging(data, grid2, model, neighM);
    Db* fresh = makeData(30);
    DbGrid* grid3 = makeGrid(5);
    int err3 = kriging(fresh, grid3, model, neighM);
    printf("  kriging(reused data) returned %d ; kriging(fresh identical data) returned %d\n", err2, err3);
    VectorDouble e2 = grid2->getColumn("Kriging.z.estim");
    VectorDouble e3 = grid3->getColumn("Kriging.z.estim");
    printf("  reused-data grid: %s\n  fresh-data grid : %s\n", snapshot(grid2).c_str(), snapshot(grid3).c_str());
    printf("  first estimates reused: %g %g %g ; fresh: %g %g %g\n", e2[0], e2[1], e2[2], e3[0], e3[1], e3[2]);
    int nnan = 0, ndiff = 0;
    for (int i = 0; i < (int) e2.size(); i++)
    {
      if (std::isnan(e2[i])) nnan++;
      else if (std::abs(e2[i] - e3[i]) > 1.e-10) ndiff++;
    }
    printf("  over %d targets: %d estimates are NaN with the reused data, %d others differ from the fresh-data result\n",
           (int) e2.size(), nnan, ndiff);
    delete data; delete grid; delete grid2; delete grid3; delete fresh; delete modelDGM;
  }
  {
    banner("B3: reference: successful DGM kriging (sill=1) restores names and locators");
    Model* modelDGM = Model::createFromParam(ECov::EXPONENTIAL, 0.3, 1.);
    modelDGM->setAnam(anam);
    Db* data = makeData(30);
    DbGrid* grid = makeGrid(5);
    Watch wi("dbin", data); Watch wo("dbout", grid);
    int err = kriging(data, grid, modelDGM, neighM, EKrigOpt::DGM);
    printf("  kriging() returned %d\n", err);
    wi.report(); wo.report();
    delete data; delete grid; delete modelDGM;
  }
  return 0;
}
