// R19.5 CalcKriging::_check: "return 1" (=true) after the error message
// "This tool cannot function with an IMAGE neighborhood".
// Public call: kriging(data, grid, model, NeighImage)
#include "common.hpp"
#include "Estimation/CalcKriging.hpp"

static void attempt(const char* title, Db* data, DbGrid* grid, Model* model, ANeigh* neigh)
{
  banner(title);
  Watch wi("dbin", data);
  Watch wo("dbout", grid);
  int err = kriging(data, grid, model, neigh);
  printf("  kriging() returned %d\n", err);
  wi.report();
  wo.report();
  VectorString nn = grid->getAllNames();
  for (const auto& n : nn)
    if (n.find("estim") != std::string::npos || n.find("stdev") != std::string::npos)
    {
      VectorDouble v = grid->getColumn(n);
      int ndef = 0; for (double x : v) if (!FFFF(x)) ndef++;
      printf("  output column '%s': %d defined values out of %d\n", n.c_str(), ndef, (int) v.size());
    }
}

int main()
{
  defineDefaultSpace(ESpaceType::RN, 2);
  Model* model = Model::createFromParam(ECov::EXPONENTIAL, 0.3, 1.);
  NeighImage* neighI = NeighImage::create({1, 1});

  // Case A: point data base as input, grid as output
  {
    Db* data = makeData(30);
    DbGrid* grid = makeGrid(5);
    attempt("A: kriging(points -> grid) with IMAGE neighbourhood", data, grid, model, neighI);
    delete data; delete grid;
  }
  // Case B: the grid (with a variable) as input, another grid as output
  {
    DbGrid* gin = makeGrid(5);
    VectorDouble v(25); for (int i = 0; i < 25; i++) v[i] = i % 7;
    gin->addColumns(v, "z", ELoc::Z);
    DbGrid* gout = makeGrid(5);
    attempt("B: kriging(grid -> grid) with IMAGE neighbourhood", gin, gout, model, neighI);
    delete gin; delete gout;
  }
  return 0;
}
