// R19.5 CalcSimuPartition::_voronoi: "return 1" when expandPointToGrid() fails.
// expandPointToGrid only fails when the point Db has a smaller space dimension than the grid.
// The seed points are created with ndim = _getNDim(), which (dbin being absent) comes from the Model:
// so a 1-D model with a 2-D grid is the only way to reach the branch.
#include "common.hpp"
#include "Simulation/CalcSimuPartition.hpp"
#include "Simulation/SimuPartitionParam.hpp"

int main()
{
  defineDefaultSpace(ESpaceType::RN, 1);
  Model* model1D = Model::createFromParam(ECov::SPHERICAL, 10.);
  printf("model space dimension = %d\n", model1D->getDimensionNumber());
  DbGrid* grid = DbGrid::create({10, 10});
  printf("grid space dimension = %d\n", grid->getNDim());
  SimuPartitionParam parparam(50, 0.1);
  banner("tessellation_voronoi(2-D grid, 1-D model)");
  Watch w("dbout", grid);
  int err = tessellation_voronoi(grid, model1D, parparam, 43243, false);
  printf("  tessellation_voronoi() returned %d\n", err);
  w.report();
  VectorString nn = grid->getAllNames();
  VectorDouble v = grid->getColumnByColIdx(grid->getColumnNumber() - 1);
  int nzero = 0; for (double x : v) if (x == 0.) nzero++;
  printf("  last column '%s': %d values out of %d equal to 0 (initial value)\n", nn.back().c_str(), nzero, (int) v.size());
  return 0;
}
