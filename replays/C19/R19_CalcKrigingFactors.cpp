// CalcKrigingFactors:
//  R19.5: every error branch of _run does "return 1" (= true = success)
//  R19.4: Z locators of the input Db (clearLocators(Z)/setLocatorByUID) restored only by _postprocess
//  R19.3/R19.4 (DGM centring): see the text of REPORT.md (masked by R19.5)
// Public call: krigingFactors()
#include "common.hpp"
#include "Estimation/CalcKrigingFactors.hpp"
#include "Anamorphosis/AnamHermite.hpp"

static Db* makeFactorData(AnamHermite* anam, int nfactor)
{
  Db* data = makeData(40);
  // make the variable positive and skewed
  VectorDouble z = data->getColumn("z");
  for (auto& v : z) v = 1.5 * exp(0.5 * v);
  data->setColumn(z, "z");
  anam->fitFromLocator(data);
  (void) anam->rawToFactor(data, nfactor);   // creates the factors, which take the Z locators
  return data;
}

static void attempt(const char* title, Db* data, Db* out, Model* model, ANeigh* neigh,
                    const EKrigOpt& calcul, const VectorInt& ndiscs)
{
  banner(title);
  Watch wi("dbin", data);
  Watch wo("dbout", out);
  int err = krigingFactors(data, out, model, neigh, calcul, ndiscs);
  printf("  krigingFactors() returned %d\n", err);
  wi.report();
  wo.report();
  VectorString nn = out->getAllNames();
  for (const auto& n : nn)
    if (n.find("estim") != std::string::npos || n.find("stdev") != std::string::npos)
    {
      VectorDouble v = out->getColumn(n);
      int nzero = 0; for (double x : v) if (x == 0.) nzero++;
      printf("  output column '%s': %d values out of %d still equal to the initial 0.\n", n.c_str(), nzero, (int) v.size());
    }
}

int main()
{
  defineDefaultSpace(ESpaceType::RN, 2);
  NeighMoving* neighM = NeighMoving::create(false, 10, 10.);
  NeighImage* neighI = NeighImage::create({1, 1});
  int nfactor = 3;

  {
    AnamHermite* anam = AnamHermite::create(10);
    Db* data = makeFactorData(anam, nfactor);
    Model* model = Model::createFromParam(ECov::EXPONENTIAL, 0.3, 1.);
    model->setAnam(anam);
    Db* target = makeData(8, 1, 99);   // a POINT data base as output
    target->clearLocators(ELoc::Z);
    attempt("A: R19.5 (_run line 167) BLOCK estimate asked on a non-grid output: setKrigOptCalcul fails",
            data, target, model, neighM, EKrigOpt::BLOCK, {2, 2});
    delete data; delete target; delete model; delete anam;
  }
  {
    AnamHermite* anam = AnamHermite::create(10);
    Db* data = makeFactorData(anam, nfactor);
    Model* model = Model::createFromParam(ECov::EXPONENTIAL, 0.3, 1.);   // NO anamorphosis attached
    DbGrid* grid = makeGrid(4);
    attempt("C: R19.4 model without anamorphosis: _check fails after it has already changed the Z locators",
            data, grid, model, neighM, EKrigOpt::POINT, VectorInt());
    delete data; delete grid; delete model; delete anam;
  }
  {
    AnamHermite* anam = AnamHermite::create(10);
    Db* data = makeFactorData(anam, nfactor);
    Model* model = Model::createFromParam(ECov::EXPONENTIAL, 0.3, 1.);
    model->setAnam(anam);
    DbGrid* grid = makeGrid(4);
    attempt("D: R19.4 IMAGE neighbourhood: _check fails (correctly, 'return false') after changing the Z locators",
            data, grid, model, neighI, EKrigOpt::POINT, VectorInt());
    delete data; delete grid; delete model; delete anam;
  }
  {
    AnamHermite* anam = AnamHermite::create(10);
    Db* data = makeFactorData(anam, nfactor);
    // Generalized covariance of order 1 without any drift: Model::isValid() is false,
    // which is only tested by KrigingSystem::isReady(), i.e. in _run
    Model* model = Model::createFromParam(ECov::ORDER1_GC, 0.3, 1.);
    model->setAnam(anam);
    DbGrid* grid = makeGrid(4);
    attempt("B: ATTEMPT on _run line 169: invalid model (ORDER1_GC without drift) to make ksys.isReady() fail",
            data, grid, model, neighM, EKrigOpt::POINT, VectorInt());
    delete data; delete grid; delete model; delete anam;
  }
  {
    // change of support: centring of the data (status-2 coordinates + X locators moved) in _preprocess.
    // No input was found that makes a later step report failure (every error branch of _run returns true,
    // see REPORT.md); this is the successful reference: _postprocess restores dbin.
    AnamHermite* anam = AnamHermite::create(10);
    Db* data = makeFactorData(anam, nfactor);
    anam->setRCoef(0.8);
    Model* model = Model::createFromParam(ECov::EXPONENTIAL, 0.3, 1.);
    model->setAnam(anam);
    DbGrid* grid = makeGrid(4);
    attempt("E: REF change of support (data centring), successful call",
            data, grid, model, neighM, EKrigOpt::POINT, VectorInt());
    delete data; delete grid; delete model; delete anam;
  }
  {
    AnamHermite* anam = AnamHermite::create(10);
    Db* data = makeFactorData(anam, nfactor);
    Model* model = Model::createFromParam(ECov::EXPONENTIAL, 0.3, 1.);
    model->setAnam(anam);
    DbGrid* grid = makeGrid(4);
    attempt("REF: a correct call", data, grid, model, neighM, EKrigOpt::POINT, VectorInt());
    delete data; delete grid; delete model; delete anam;
  }
  return 0;
}
