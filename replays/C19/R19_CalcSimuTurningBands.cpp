// CalcSimuTurningBands: R19.5 (_check nbtuba<=0 "return 1", _run "_krigsim ... return 1"),
// R19.3 (status-2 simulation columns of the input Db, status-2 centred coordinates of DGM),
// R19.4 (X locators of the input Db after _centerDataToGrid)
// Public call: simtub()
#include "common.hpp"
#include "Simulation/CalcSimuTurningBands.hpp"
#include "Anamorphosis/AnamHermite.hpp"

static void attempt(const char* title, Db* data, DbGrid* grid, Model* model, ANeigh* neigh,
                    int nbsimu, int nbtuba, bool flag_dgm)
{
  banner(title);
  Watch* wi = (data != nullptr) ? new Watch("dbin", data) : nullptr;
  Watch wo("dbout", grid);
  int err = simtub(data, grid, model, neigh, nbsimu, 13243, nbtuba, flag_dgm);
  printf("  simtub() returned %d\n", err);
  if (wi) wi->report();
  wo.report();
  if (data != nullptr)
  {
    // Is the data base still usable? coordinates of first sample through the X locator
    printf("  dbin first sample coordinates via locator X: (%g, %g); via names x-1,x-2: (%g, %g)\n",
           data->getCoordinate(0, 0), data->getCoordinate(0, 1),
           data->getValue("x-1", 0), data->getValue("x-2", 0));
  }
  delete wi;
}

int main()
{
  defineDefaultSpace(ESpaceType::RN, 2);
  Model* model = Model::createFromParam(ECov::EXPONENTIAL, 0.3, 1.);
  NeighMoving* neighM = NeighMoving::create(false, 10, 10.);
  NeighImage* neighI = NeighImage::create({1, 1});

  {
    DbGrid* grid = makeGrid(5);
    attempt("A: non-conditional, nbtuba=0 (R19.5 _check)", nullptr, grid, model, nullptr, 2, 0, false);
    delete grid;
  }
  {
    Db* data = makeData(30);
    DbGrid* grid = makeGrid(5);
    attempt("B: conditional, nbtuba=0 (R19.5 _check + R19.3 status-2 SIMU columns of dbin)",
            data, grid, model, neighM, 2, 0, false);
    // Second call on the same objects: are they still usable?
    attempt("B2: same objects, now a correct call (nbtuba=50)", data, grid, model, neighM, 2, 50, false);
    delete data; delete grid;
  }
  {
    // A covariance that the turning bands cannot simulate: detected only in _run
    Model* modelC = Model::createFromParam(ECov::COSEXP, 0.3, 1., 1.);
    Db* data = makeData(30);
    DbGrid* grid = makeGrid(5);
    attempt("C: conditional, legal nbtuba, model COSEXP not simulable by TB (R19.3)",
            data, grid, modelC, neighM, 2, 50, false);
    delete data; delete grid; delete modelC;
  }
  {
    Db* data = makeData(30);
    DbGrid* grid = makeGrid(5);
    attempt("D: conditional with IMAGE neighbourhood: _krigsim fails (R19.5 _run)",
            data, grid, model, neighI, 2, 50, false);
    delete data; delete grid;
  }

  // DGM: model with anamorphosis and change of support
  AnamHermite* anam = AnamHermite::create(10);
  {
    Db* tmp = makeData(200, 1, 777);
    anam->fitFromLocator(tmp);
    delete tmp;
  }
  anam->setRCoef(0.8);
  {
    Model* modelDGM = Model::createFromParam(ECov::EXPONENTIAL, 0.3, 1.);
    modelDGM->setAnam(anam);
    Db* data = makeData(30);
    DbGrid* grid = makeGrid(5);
    attempt("E: DGM conditional, nbtuba=0 (R19.3 centred coordinates + R19.4 X locators)",
            data, grid, modelDGM, neighM, 2, 0, true);
    delete data; delete grid;
  }
  {
    Model* modelDGM = Model::createFromParam(ECov::COSEXP, 0.3, 1., 1.);
    modelDGM->setAnam(anam);
    Db* data = makeData(30);
    DbGrid* grid = makeGrid(5);
    attempt("E2: DGM conditional, legal nbtuba, model COSEXP (R19.3 + R19.4 without the nbtuba trick)",
            data, grid, modelDGM, neighM, 2, 50, true);
    delete data; delete grid;
  }
  {
    Model* modelDGM = Model::createFromParam(ECov::EXPONENTIAL, 0.3, 2.); // sill 2: rejected by setKrigOptDGM
    modelDGM->setAnam(anam);
    Db* data = makeData(30);
    DbGrid* grid = makeGrid(5);
    attempt("F: DGM conditional, sill=2: _krigsim fails in setKrigOptDGM (R19.5 _run)",
            data, grid, modelDGM, neighM, 2, 50, true);
    delete data; delete grid;
  }
  {
    // External drift: the output grid carries F1, the input Db does not: _preprocess migrates it
    // into the input Db (_expandInformation(1,F)); only _postprocess removes it.
    Model* modelF = Model::createFromParam(ECov::COSEXP, 0.3, 1., 1.);
    modelF->setDriftIRF(0, 1);
    Db* data = makeData(30);
    DbGrid* grid = makeGrid(5);
    VectorDouble f(25); for (int i = 0; i < 25; i++) f[i] = (i % 5) + 0.1 * (i / 5);
    grid->addColumns(f, "drift", ELoc::F);
    attempt("G: conditional, external drift, model COSEXP: _run fails (R19.4 _expandInformation(-1,F))",
            data, grid, modelF, neighM, 2, 50, false);
    delete data; delete grid; delete modelF;
  }
  return 0;
}
