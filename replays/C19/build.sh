#!/bin/sh
# usage: ./build.sh X   (compiles X.cpp -> X, runs it; output, with repeated lines collapsed by 'uniq -c', goes to X.out)
g++ -std=gnu++20 -O1 -I/repo/include -I/repo/_build -isystem /usr/include/eigen3 $1.cpp -o $1 -L/repo/_build/RelWithDebInfo -lgstlearn -Wl,-rpath,/repo/_build/RelWithDebInfo || exit 1
( ./$1 2>&1 ; echo "[process exit code $?]" ) 2>&1 | uniq -c | sed 's/^ *1 //' > $1.out
