// Common helpers for the C19 replay drivers
#pragma once
#include "geoslib_define.h"
#include "Enum/ELoc.hpp"
#include "Enum/ECov.hpp"
#include "Enum/EKrigOpt.hpp"
#include "Enum/ESelectivity.hpp"
#include "Space/ASpaceObject.hpp"
#include "Db/Db.hpp"
#include "Db/DbGrid.hpp"
#include "Db/DbStringFormat.hpp"
#include "Model/Model.hpp"
#include "Neigh/NeighMoving.hpp"
#include "Neigh/NeighUnique.hpp"
#include "Neigh/NeighImage.hpp"
#include "Basic/NamingConvention.hpp"
#include "Basic/Law.hpp"
#include "Basic/OptCst.hpp"
#include <string>
#include <sstream>
#include <iostream>
#include <cstdio>

// A textual snapshot of everything the property talks about:
// number of columns, names (in order), and for each column its locator.
static std::string snapshot(const Db* db)
{
  std::stringstream ss;
  VectorString names = db->getAllNames();
  ss << "ncol=" << db->getColumnNumber() << " nech=" << db->getSampleNumber() << " [";
  for (int i = 0; i < (int) names.size(); i++)
  {
    ELoc loc; int item;
    std::string l = "-";
    if (db->getLocatorByColIdx(i, &loc, &item) && loc != ELoc::UNKNOWN)
      l = std::string(loc.getKey()) + std::to_string(item + 1);
    if (i) ss << ", ";
    ss << names[i] << ":" << l;
  }
  ss << "]";
  ss << " nX=" << db->getLocNumber(ELoc::X) << " nZ=" << db->getLocNumber(ELoc::Z)
     << " nSIMU=" << db->getLocNumber(ELoc::SIMU) << " nF=" << db->getLocNumber(ELoc::F);
  return ss.str();
}

static double checksum(const Db* db)
{
  // sum of all defined values of all columns (content fingerprint)
  double s = 0.;
  for (int ic = 0; ic < db->getColumnNumber(); ic++)
  {
    VectorDouble v = db->getColumnByColIdx(ic);
    for (double x : v) if (!FFFF(x)) s += x;
  }
  return s;
}

struct Watch
{
  const char* label;
  Db* db;
  std::string before;
  double sumBefore;
  Watch(const char* lab, Db* d) : label(lab), db(d)
  {
    before = snapshot(db);
    sumBefore = checksum(db);
    printf("  BEFORE %-6s: %s\n", label, before.c_str());
  }
  bool report()
  {
    std::string after = snapshot(db);
    printf("  AFTER  %-6s: %s\n", label, after.c_str());
    bool same = (after == before);
    printf("  => %s %s\n", label, same ? "UNCHANGED (names+locators)" : "*** CHANGED (names and/or locators differ) ***");
    return same;
  }
};

static void banner(const char* s) { printf("\n==== %s ====\n", s); fflush(stdout); }

// data: 'ndat' random points in [0,1]^2 with one variable "z" (locator Z1)
static Db* makeData(int ndat = 30, int nvar = 1, int seed = 4321)
{
  Db* d = Db::createFillRandom(ndat, 2, nvar, 0, 0, 0., 0., VectorDouble(),
                               VectorDouble(), VectorDouble(), seed, true);
  return d;
}
static DbGrid* makeGrid(int nx = 5)
{
  return DbGrid::create({nx, nx}, {1. / nx, 1. / nx}, {0.5 / nx, 0.5 / nx});
}
