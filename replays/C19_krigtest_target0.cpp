// Replay of the R19.8 report (KNOWN FINDING: the repair makes tests/cpp/output/test_krige.ref fail, so it was withdrawn): CalcKriging::_run tests `_iechSingleTarget > 0` while every other stage tests `>= 0`.
// krigtest(..., iech0 = 0) must describe the kriging system of target 0; with `> 0` the loop runs over all targets and
// the exported system is the one of the LAST target.
#include "Db/Db.hpp"
#include "Db/DbGrid.hpp"
#include "Model/Model.hpp"
#include "Neigh/NeighMoving.hpp"
#include "Estimation/CalcKriging.hpp"
#include "Space/ASpaceObject.hpp"
#include "Basic/Law.hpp"
#include <iostream>
int main() {
  defineDefaultSpace(ESpaceType::RN, 2);
  law_set_random_seed(321);
  Db* data = Db::createFillRandom(50, 2, 1);
  DbGrid* grid = DbGrid::create({5,5},{0.2,0.2},{0.1,0.1});
  Model* model = new Model();
  model->addCovFromParam(ECov::SPHERICAL, 0.5, 1.);
  NeighMoving* nm = NeighMoving::create(false, 5, 10.);
  int last = grid->getSampleNumber() - 1;
  Krigtest_Res r0 = krigtest(data, grid, model, nm, 0);
  Krigtest_Res r1 = krigtest(data, grid, model, nm, 1);
  Krigtest_Res rl = krigtest(data, grid, model, nm, last);
  auto pr = [](const char* s, const Krigtest_Res& r) { std::cout << s << " nbgh:"; for (int i : r.nbgh) std::cout << " " << i; std::cout << std::endl; };
  pr("target 0   ", r0); pr("target 1   ", r1); pr("target last", rl);
  bool bad = (r0.nbgh == rl.nbgh) && !(r0.nbgh == r1.nbgh);
  // independent oracle: the neighbourhood of target 0 must contain the data sample closest to the node (0.1,0.1)
  std::cout << "columns of the grid after the three calls: " << grid->getColumnNumber() << std::endl;
  std::cout << (bad ? "FAIL: target 0 returns the system of the last target" : "PASS") << std::endl;
  return bad;
}
