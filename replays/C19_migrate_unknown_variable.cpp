// Replay: migrate() asked to transfer a variable that does not exist reported SUCCESS after creating a variable `Migrate` (role Z)
// in the output data base, filled from the identifier -1 (one error message per sample).
#include "Db/Db.hpp"
#include "Db/DbGrid.hpp"
#include "Calculators/CalcMigrate.hpp"
#include <cstdio>
int main()
{
  Db* dbin = Db::create();
  dbin->addColumns({1., 2., 3.}, "x", ELoc::X, 0);
  dbin->addColumns({1., 2., 3.}, "y", ELoc::X, 1);
  dbin->addColumns({5., 6., 7.}, "z", ELoc::Z, 0);
  DbGrid* grid = DbGrid::create({4, 4});
  int before = grid->getColumnNumber();
  int err = migrate(dbin, grid, "nosuchname");
  int after = grid->getColumnNumber();
  printf("migrate of a variable that does not exist returned %d; columns of the output data base: %d -> %d (expected: failure, unchanged)\n", err, before, after);
  return !(err != 0 && before == after);
}
