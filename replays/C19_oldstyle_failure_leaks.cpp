// Replay of the R19.9 report: declustering() creates its weight column, then refuses the call (method 2 / 3 without a Model,
// unknown method) and returns an error without deleting it: a FAILED call leaves an additional variable in the caller's data base.
#include "Db/Db.hpp"
#include "Db/DbGrid.hpp"
#include "Model/Model.hpp"
#include "Neigh/NeighMoving.hpp"
#include "Neigh/NeighUnique.hpp"
#include "Boolean/ModelBoolean.hpp"
#include "Simulation/SimuBooleanParam.hpp"
#include "Simulation/SimuBoolean.hpp"
#include "Simulation/SimuSpectral.hpp"
#include "Space/ASpaceObject.hpp"
#include "Basic/Law.hpp"
#include "geoslib_f.h"
#include "geoslib_old_f.h"
#include <iostream>
static int report(const char* what, int err, int before, int after) {
  std::cout << what << ": error code " << err << ", columns before " << before << ", after " << after << std::endl;
  return (err != 0 && after != before) ? 1 : 0;
}
int main() {
  defineDefaultSpace(ESpaceType::RN, 2);
  law_set_random_seed(31);
  int bad = 0;
  {   // declustering by kriging (method 3) without a Model
    Db* data = Db::createFillRandom(30, 2, 1);
    DbGrid* grid = DbGrid::create({4, 4}, {0.25, 0.25});
    NeighUnique* nu = NeighUnique::create();
    int n0 = data->getColumnNumber();
    int err = declustering(data, nullptr, 3, nu, grid);
    bad += report("declustering(method 3, no model)", err, n0, data->getColumnNumber());
  }
  std::cout << (bad ? "FAIL: a failed call leaves variables behind" : "PASS") << std::endl;
  return bad != 0;
}
