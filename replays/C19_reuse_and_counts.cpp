// C19 (+C13, C09): three failures of "completes or leaves the data bases as they were" on the unchanged tree
//  (a) a calculator object run twice: the registries of created variables are never emptied after a success, so the roll-back of a
//      failing second run deletes the RESULTS of the first, successful run (R19.13)
//  (b) simfft(.., nbsimu = 2) allocates ONE output column and names / writes two (R19.14): a single simulation is stored
//  (c) a Zycor file whose header defines an invalid grid (xmax < xmin): DbGrid::reset refuses it, the reader drops the status and hands
//      back a grid with node counts and no sample (R9.16)
#include "geoslib_f.h"
#include "geoslib_old_f.h"
#include "Enum/ESpaceType.hpp"
#include "Enum/ELoc.hpp"
#include "Enum/ECov.hpp"
#include "Enum/EKrigOpt.hpp"
#include "Db/Db.hpp"
#include "Db/DbGrid.hpp"
#include "Model/Model.hpp"
#include "Neigh/NeighUnique.hpp"
#include "Estimation/CalcKriging.hpp"
#include "Simulation/CalcSimuFFT.hpp"
#include "Simulation/SimuFFTParam.hpp"
#include "OutputFormat/AOF.hpp"
#include "Space/ASpaceObject.hpp"
#include <cstdio>
#include <string>

static void spit(const std::string& f, const std::string& s) { FILE* p = fopen(f.c_str(), "w"); fputs(s.c_str(), p); fclose(p); }

int main()
{
  defineDefaultSpace(ESpaceType::RN, 2);
  int bad = 0;
  {
    Db* data = Db::create();
    data->addColumns({1., 3., 5., 7., 2.}, "x", ELoc::X, 0);
    data->addColumns({1., 5., 2., 6., 4.}, "y", ELoc::X, 1);
    data->addColumns({1.1, -0.4, 2.3, 0.2, -1.5}, "z", ELoc::Z, 0);
    DbGrid* grid = DbGrid::create({6, 5}, {2., 2.});
    Model* model = Model::createFromParam(ECov::SPHERICAL, 5., 1.);
    NeighUnique* neigh = NeighUnique::create();
    CalcKriging krige(true, true, false);
    krige.setDbin(data);
    krige.setDbout(grid);
    krige.setModel(model);
    krige.setNeigh(neigh);
    bool ok1 = krige.run();
    int ncol1 = grid->getColumnNumber();
    krige.setCalcul(EKrigOpt::BLOCK);           // block kriging without discretisation: refused
    bool ok2 = krige.run();
    int ncol2 = grid->getColumnNumber();
    printf("(a) first run %s (%d columns), second run %s: %d columns afterwards\n", ok1 ? "succeeds" : "fails", ncol1, ok2 ? "succeeds" : "fails", ncol2);
    if (ok1 && !ok2 && ncol2 != ncol1) bad++;
  }
  {
    DbGrid* grid = DbGrid::create({16, 16}, {1., 1.});
    Model* model = Model::createFromParam(ECov::SPHERICAL, 5., 1.);
    SimuFFTParam param;
    int ncol0 = grid->getColumnNumber();
    int err = simfft(grid, model, param, 2);
    int nnew = grid->getColumnNumber() - ncol0;
    printf("(b) simfft with nbsimu = 2 returns %d and stores %d variable(s)\n", err, nnew);
    if (err == 0 && nnew != 2) bad++;
  }
  {
    char tmpl[] = "/tmp/c19rcXXXXXX";
    std::string DIR = std::string(mkdtemp(tmpl)) + "/";
    spit(DIR + "c.zyc", "@GRID ZYCOR FILE    ,   GRID,  5\n     15,         1e+30,    ,    0,     1\n"
                        "     2,      3,     15.0,     10.0,     20.0,     26.0\n  0.0, 0.0, 0.0\n@\n 1 2\n 3 4\n 5 6\n");
    DbGrid* g = db_grid_read_zycor((DIR + "c.zyc").c_str());
    if (g) printf("(c) Zycor file with xmax < xmin: a grid is returned with %d samples for %d nodes (isConsistent = %d)\n", g->getSampleNumber(), g->getNTotal(), (int) g->isConsistent());
    else printf("(c) Zycor file with xmax < xmin: failure reported\n");
    if (g && !g->isConsistent()) bad++;
  }
  printf(bad ? "VIOLATED (%d)\n" : "HOLDS (%d)\n", bad);
  return bad ? 1 : 0;
}
