// Replay: dbPolygonDistance(polin != 0) called polygon->inside(x, y): x was converted to the LENGTH of a vector of zeros and
// y to the `flag_nested` boolean, so every sample was tested at the origin (and x < 2 read outside the vector).
#include "Polygon/Polygons.hpp"
#include "Polygon/PolyElem.hpp"
#include "Db/Db.hpp"
#include <cstdio>
int main()
{
  Polygons p; p.addPolyElem(PolyElem({0., 10., 10., 0., 0.}, {0., 0., 10., 10., 0.}));
  VectorDouble tab = {5., 5., 20., 5., 5., 7., 30., 30.};
  Db* db = Db::createFromSamples(4, ELoadBy::SAMPLE, tab, {"x", "y"}, {"x1", "x2"});
  int err = dbPolygonDistance(db, &p, TEST, 0, 1);
  VectorDouble d = db->getColumnByColIdx(db->getColumnNumber() - 1);
  printf("dbPolygonDistance(polin=1) err=%d distances:", err);
  int bad = 0;
  for (int i = 0; i < 4; i++)
  {
    if (FFFF(d[i])) printf(" NA"); else printf(" %g", d[i]);
    bool inside = (i == 0 || i == 2);
    if (inside == (bool) FFFF(d[i])) bad++;
  }
  printf("  (expected 5 NA 3 NA) -> %s\n", bad ? "WRONG" : "ok");
  delete db;
  return bad != 0;
}
