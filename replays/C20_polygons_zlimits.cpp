// Replay of the C20 set-rule defect of the pinned commit (fixed): Polygons::inside returned false as soon as one
// element's vertical limits excluded the point, although a later element contains it.
#include "Polygon/Polygons.hpp"
#include "Polygon/PolyElem.hpp"
#include <iostream>
int main() {
  VectorDouble x = {0., 10., 10., 0., 0.}, y = {0., 0., 10., 10., 0.};
  PolyElem a(x, y, 100., 200.);      // same square, z in [100,200]
  PolyElem b(x, y, 0., 50.);         // same square, z in [0,50]
  Polygons p; p.addPolyElem(a); p.addPolyElem(b);
  bool in = p.inside({5., 5., 25.}, false);
  std::cout << "point (5,5,25) inside the union: " << in << " (expected 1)" << std::endl;
  return !in;
}
