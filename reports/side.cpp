// Side observations on the UNMODIFIED tree (each block prints what it sees)
#include "Basic/VectorHelper.hpp"
#include "Basic/Law.hpp"
#include "Db/Db.hpp"
#include "Db/DbGrid.hpp"
#include "Model/Model.hpp"
#include "Neigh/NeighUnique.hpp"
#include "Gibbs/AGibbs.hpp"
#include "Gibbs/GibbsFactory.hpp"
#include "Space/ASpaceObject.hpp"
#include "Simulation/CalcSimuTurningBands.hpp"
#include "geoslib_f.h"

#include <cstdio>
#include <cmath>
#include <vector>

static double st_maxdiff(const VectorDouble& a, const VectorDouble& b)
{
  double d = 0.;
  for (size_t i = 0; i < a.size(); i++) d = std::max(d, std::abs(a[i] - b[i]));
  return d;
}

int main()
{
  defineDefaultSpace(ESpaceType::RN, 2);

  // S1: the same CalcSimuTurningBands object used twice (same seed, same inputs)
  {
    Model* model = Model::createFromParam(ECov::LINEAR, 1., 1.);
    DbGrid* g1 = DbGrid::create({20, 15});
    DbGrid* g2 = DbGrid::create({20, 15});
    CalcSimuTurningBands situba(1, 50, false, 4321);
    int e1 = situba.simulate(nullptr, g1, model, nullptr, 0);
    int e2 = situba.simulate(nullptr, g2, model, nullptr, 0);
    VectorString n1 = {g1->getLastName()};
    VectorString n2 = {g2->getLastName()}; printf("S1: names %s %s\n", n1[0].c_str(), n2[0].c_str());
    printf("S1: err=%d/%d ncol=%d/%d\n", e1, e2, (int) n1.size(), (int) n2.size());
    if (!n1.empty() && !n2.empty())
      printf("S1: TB object reused, LINEAR model: max |run1-run2| = %g (expected 0)\n",
             st_maxdiff(g1->getColumn(n1[0]), g2->getColumn(n2[0])));
    delete g1; delete g2; delete model;
  }

  // S2: truncated gaussian draw with a far upper bound only
  {
    law_set_random_seed(123);
    double v = law_gaussian_between_bounds(TEST, -25.);
    printf("S2: law_gaussian_between_bounds(NA,-25) = %g (must be <= -25)\n", v);
    double w = law_gaussian_between_bounds(25., TEST);
    printf("S2: law_gaussian_between_bounds(25,NA) = %g (must be >= 25)\n", w);
  }

  // S3: new-style random generator: simulations of a nugget model
  {
    law_set_old_style(false);
    Model* model = Model::createFromParam(ECov::NUGGET, 0., 1.);
    DbGrid* g = DbGrid::create({10, 10});
    (void) simtub(nullptr, g, model, nullptr, 2, 4321, 10);
    VectorString n = g->getName("Simu*");
    if (n.size() == 2)
      printf("S3: new style, pure nugget, 2 simulations: max |simu1-simu2| = %g (expected > 0)\n",
             st_maxdiff(g->getColumn(n[0]), g->getColumn(n[1])));
    Model* model2 = Model::createFromParam(ECov::SPHERICAL, 5., 1.);
    DbGrid* gb = DbGrid::create({10, 10});
    (void) simtub(nullptr, gb, model2, nullptr, 2, 4321, 10);
    n = gb->getName("Simu*");
    if (n.size() == 2)
      printf("S3: new style, spherical, 2 simulations: max |simu1-simu2| = %g\n",
             st_maxdiff(gb->getColumn(n[0]), gb->getColumn(n[1])));
    law_set_old_style(true);
    delete g; delete gb; delete model; delete model2;
  }

  // S4/S5: Gibbs sampler with niter <= nburn (bounds decay still active at the
  // last iteration) and with nburn = 0
  for (int icas = 0; icas < 3; icas++)
  {
    int nburn = (icas == 0) ? 50 : (icas == 1) ? 10 : 0;
    int niter = (icas == 0) ? 20 : (icas == 1) ? 10 : 1;
    int nech = 30;
    law_set_random_seed(99);
    VectorDouble x = VH::simulateUniform(nech, 0., 20.);
    VectorDouble y = VH::simulateUniform(nech, 0., 20.);
    VectorDouble l(nech), u(nech);
    for (int i = 0; i < nech; i++) { l[i] = (i % 2) ? 1.0 : -1.6; u[i] = (i % 2) ? 1.5 : -1.1; }
    Db* db = Db::create();
    db->addColumns(x, "x1", ELoc::X, 0);
    db->addColumns(y, "x2", ELoc::X, 1);
    db->addColumns(l, "L", ELoc::L, 0);
    db->addColumns(u, "U", ELoc::U, 0);
    Model* model = Model::createFromParam(ECov::EXPONENTIAL, 8., 1.);
    int err = gibbs_sampler(db, model, 1, 3241, nburn, niter, false, false, false,
                            false, false, 0, 5., false, false, false);
    VectorString n = db->getName("Gibbs*");
    int nout = 0, nnan = 0;
    if (!n.empty())
    {
      VectorDouble g = db->getColumn(n[0]);
      for (int i = 0; i < nech; i++)
      {
        if (std::isnan(g[i])) nnan++;
        else if (g[i] < l[i] || g[i] > u[i]) nout++;
      }
    }
    printf("S4: gibbs_sampler nburn=%d niter=%d: err=%d, %d values outside bounds, %d NaN (of %d)\n",
           nburn, niter, err, nout, nnan, nech);
    delete db; delete model;
  }

  // S6: multi-mono Gibbs with rho != 0 and a tight (hard) constraint on Y2
  {
    int nech = 10;
    double rho = 0.7;
    law_set_random_seed(5);
    VectorDouble x = VH::simulateUniform(nech, 0., 20.);
    VectorDouble y = VH::simulateUniform(nech, 0., 20.);
    VectorDouble l1(nech, 0.5), u1(nech, 1.5), l2(nech, -0.3), u2(nech, -0.3);
    Db* db = Db::create();
    db->addColumns(x, "x1", ELoc::X, 0);
    db->addColumns(y, "x2", ELoc::X, 1);
    db->addColumns(l1, "L1", ELoc::L, 0);
    db->addColumns(l2, "L2", ELoc::L, 1);
    db->addColumns(u1, "U1", ELoc::U, 0);
    db->addColumns(u2, "U2", ELoc::U, 1);
    db->addColumnsByConstant(2, 0., "Gaus", ELoc::GAUSFAC);
    Model* m1 = Model::createFromParam(ECov::EXPONENTIAL, 6., 1.);
    Model* m2 = Model::createFromParam(ECov::SPHERICAL, 9., 1.);
    std::vector<Model*> models = {m1, m2};
    AGibbs* gibbs = GibbsFactory::createGibbs(db, models, rho, false);
    gibbs->init(1, 2, 10, 50, 1234);
    (void) gibbs->covmatAlloc(false);
    VectorVectorDouble yy = gibbs->allocY();
    (void) gibbs->run(yy, 0, 0);
    int nbad = 0;
    for (int i = 0; i < nech; i++)
    {
      double g2 = rho * yy[0][i] + sqrt(1. - rho * rho) * yy[1][i];
      if (std::abs(g2 - (-0.3)) > 1.e-8) nbad++;
    }
    printf("S6: multi-mono rho=0.7, hard datum Y2=-0.3: %d of %d combined values differ from -0.3\n", nbad, nech);
    delete gibbs; delete db; delete m1; delete m2;
  }
  return 0;
}
