// S7: conditional plurigaussian simulation with a rule carrying a correlation rho
#include "Basic/VectorHelper.hpp"
#include "Basic/Law.hpp"
#include "Db/Db.hpp"
#include "Db/DbGrid.hpp"
#include "Model/Model.hpp"
#include "Neigh/NeighUnique.hpp"
#include "LithoRule/Rule.hpp"
#include "LithoRule/RuleProp.hpp"
#include "Space/ASpaceObject.hpp"
#include "geoslib_f.h"
#include <cstdio>
#include <cmath>

static int st_run(double rho, int seed, int nbsimu)
{
  int nx = 20;
  DbGrid* grid = DbGrid::create({nx, nx});
  VectorDouble x, y, f;
  int k = 0;
  for (int iy = 1; iy < nx; iy += 4)
    for (int ix = 2; ix < nx; ix += 4, k++)
    {
      x.push_back(ix); y.push_back(iy);
      f.push_back(1 + ((ix / 4 + 2 * (iy / 4)) % 3));
    }
  Db* data = Db::create();
  data->addColumns(x, "x1", ELoc::X, 0);
  data->addColumns(y, "x2", ELoc::X, 1);
  data->addColumns(f, "facies", ELoc::Z, 0);

  Model* model1 = Model::createFromParam(ECov::SPHERICAL, 8., 1.);
  Model* model2 = Model::createFromParam(ECov::EXPONENTIAL, 6., 1.);
  NeighUnique* neigh = NeighUnique::create();
  Rule* rule = Rule::createFromNames({"S","T","F1","F2","F3"}, rho);
  RuleProp* ruleprop = RuleProp::createFromRule(rule, {0.3, 0.3, 0.4});
  int err = simpgs(data, grid, ruleprop, model1, model2, neigh, nbsimu, seed);
  if (err) { printf("simpgs error\n"); return -1; }
  VectorString names = grid->getName("Facies*");
  int nbad = 0;
  for (int is = 0; is < (int) names.size(); is++)
  {
    VectorDouble tab = grid->getColumn(names[is]); int nbadsim = 0;
    for (int i = 0; i < (int) x.size(); i++)
    {
      int node = (int) x[i] + nx * (int) y[i];
      if (tab[node] != f[i]) { nbad++; nbadsim++; }
    }
    printf("   rho=%g nbsimu=%d simulation %d: %d mismatches\n", rho, nbsimu, is+1, nbadsim);
  }
  printf("rho=%g: %d simulations, %d data, %d mismatches between facies at data and simulated facies at the coinciding node\n",
         rho, (int) names.size(), (int) x.size(), nbad);
  delete grid; delete data; delete model1; delete model2; delete neigh; delete rule; delete ruleprop;
  return nbad;
}

int main()
{
  defineDefaultSpace(ESpaceType::RN, 2);
  int n0 = st_run(0., 5321, 1) + st_run(0., 5321, 3);
  int n1 = st_run(0.7, 5321, 1) + st_run(0.7, 5321, 3);
  int n2 = st_run(-0.6, 5321, 1);
  printf("S7: mismatches rho=0: %d ; rho=0.7: %d ; rho=-0.6: %d\n", n0, n1, n2);
  return (n0 + n1 + n2) > 0;
}
