#include "Basic/VectorHelper.hpp"
#include "Basic/Law.hpp"
#include "Db/Db.hpp"
#include "Db/DbGrid.hpp"
#include "Model/Model.hpp"
#include "Space/ASpaceObject.hpp"
#include "geoslib_f.h"
#include "geoslib_old_f.h"
#include <cstdio>
#include <cmath>
int main()
{
  defineDefaultSpace(ESpaceType::RN, 2);
  int nx = 20;
  for (int icas = 0; icas < 2; icas++)
  {
  DbGrid* grid = DbGrid::create({nx, nx});
  VectorDouble x, y, l, u, z;
  int k = 0;
  for (int iy = 1; iy < nx; iy += 4)
    for (int ix = 2; ix < nx; ix += 4, k++)
    {
      x.push_back(ix); y.push_back(iy);
      if (k % 3 == 0) { l.push_back(0.5); u.push_back(1.2); z.push_back(0.); }
      else if (k % 3 == 1) { l.push_back(TEST); u.push_back(-0.8); z.push_back(0.); }
      else { l.push_back(0.3); u.push_back(0.3); z.push_back(0.3); }
    }
  Db* data = Db::create();
  data->addColumns(x, "x1", ELoc::X, 0);
  data->addColumns(y, "x2", ELoc::X, 1);
  data->addColumns(z, "z", ELoc::Z, 0);
  data->addColumns(l, "L", ELoc::L, 0);
  data->addColumns(u, "U", ELoc::U, 0);
  data->addColumnsByConstant(1, 0., "rklow", ELoc::RKLOW, 0);
  Model* model = Model::createFromParam(ECov::SPHERICAL, 8., 1.);
  if (icas == 1) model->addCovFromParam(ECov::NUGGET, 0., 0.2);
  int nbsimu = 3;
  int err = simcond(data, grid, model, 4321, nbsimu, 50, 10, 100, 0, 0, 0, 0);
  printf("S8 case %d (%s): simcond err=%d\n", icas, icas ? "spherical+nugget" : "spherical", err);
  VectorString names = grid->getName("z.*");
  if (names.empty()) { VectorString all = grid->getAllNames(); for (auto& s : all) printf(" col %s\n", s.c_str()); }
  for (int is = 0; is < (int) names.size(); is++)
  {
    VectorDouble tab = grid->getColumn(names[is]);
    int nout = 0, nhard = 0;
    for (int i = 0; i < (int) x.size(); i++)
    {
      double v = tab[(int) x[i] + nx * (int) y[i]];
      if (!FFFF(l[i]) && l[i] == u[i]) { if (std::abs(v - l[i]) > 1.e-6) nhard++; continue; }
      if ((!FFFF(l[i]) && v < l[i] - 1.e-6) || (!FFFF(u[i]) && v > u[i] + 1.e-6)) nout++;
    }
    printf("S8 case %d simulation %d (%s): %d interval data violated at the coinciding node, %d hard data not reproduced\n", icas, is + 1, names[is].c_str(), nout, nhard);
  }
  delete grid; delete data; delete model;
  }
  return 0;
}
