// obs.cpp: side observations on the UNMODIFIED library.   usage: obs A | obs B | obs C
#include "oracle.hpp"
#include <array>
#include <cstring>
#include "Db/DbStringFormat.hpp"

static void dump(Db* db)
{
  for (int ic = 0; ic < db->getColumnNumber(); ic++)
  {
    VectorDouble v = db->getColumnByColIdx(ic);
    printf("%-22s:", db->getNameByColIdx(ic).c_str());
    for (double x : v) { if (x > 1e29) printf("        NA"); else printf(" %9.5f", x); }
    printf("\n");
  }
}
static Model* model2()
{
  Model* m = Model::createFromParam(ECov::SPHERICAL, RANGE, 1., 1., VectorDouble(), {2., 1., 1., 2.});
  m->setDriftIRF(0);
  return m;
}

// A: heterotopic cokriging, unknown means, moving neighbourhood in which variable 2 has NO sample.
static int caseA()
{
  const int n = 10;
  std::mt19937 gen(5);
  std::uniform_real_distribution<double> U(0., 30.);
  std::normal_distribution<double> N(0., 1.);
  std::vector<std::array<double,2>> xy(n);
  std::vector<double> z(n);
  VectorDouble tab(4 * n);
  for (int i = 0; i < n; i++)
  {
    xy[i] = {U(gen), U(gen)};
    if (i >= 8) { xy[i][0] += 1000.; }
    z[i] = 5. + N(gen);
    tab[i] = xy[i][0]; tab[n + i] = xy[i][1]; tab[2 * n + i] = z[i];
    tab[3 * n + i] = (i >= 8) ? 1. + N(gen) : TEST;          // z2 only known far away
  }
  Db* data = Db::createFromSamples(n, ELoadBy::COLUMN, tab, {"x", "y", "z1", "z2"}, {"x1", "x2", "z1", "z2"});
  Db* target = Db::createFromSamples(1, ELoadBy::COLUMN, {15.2, 14.1}, {"x", "y"}, {"x1", "x2"});
  Model* m = model2();
  printf("model: nvar=%d ndrift equations=%d\n", m->getVariableNumber(), m->getDriftEquationNumber());
  NeighMoving* neigh = NeighMoving::create(false, 20, 100.);
  int err = kriging(data, target, m, neigh);
  printf("kriging() returned %d\n", err);
  dump(target);
  // expected for z1: univariate OK (spherical sill 2, no nugget) from the 8 near samples
  return 0;
}

// B: collocated cokriging (rank_colcok)
static int caseB(int noCol)
{
  const int n = 8;
  std::mt19937 gen(6);
  std::uniform_real_distribution<double> U(0., 30.);
  std::normal_distribution<double> N(0., 1.);
  VectorDouble tab(4 * n);
  for (int i = 0; i < n; i++)
  { tab[i] = U(gen); tab[n + i] = U(gen); tab[2 * n + i] = N(gen); tab[3 * n + i] = N(gen); }
  Db* data = Db::createFromSamples(n, ELoadBy::COLUMN, tab, {"x", "y", "z1", "z2"}, {"x1", "x2", "z1", "z2"});
  Db* target = Db::createFromSamples(2, ELoadBy::COLUMN, {15.2, 3.3, 14.1, 7.7, 0.4, -0.3}, {"x", "y", "sec"}, {"x1", "x2", ""});
  int icol = target->getColIdx("sec");
  printf("column index of the collocated variable in target = %d\n", icol);
  Model* m = model2();
  NeighUnique* neigh = NeighUnique::create();
  int err = kriging(data, target, m, neigh, EKrigOpt::POINT, true, true, false, VectorInt(), {noCol, icol});
  printf("kriging() returned %d\n", err);
  dump(target);
  return 0;
}

// C: cross-validation in unique neighbourhood with 2 variables versus leave-one-out cokriging by hand
static int caseC()
{
  const int n = 8;
  std::mt19937 gen(7);
  std::uniform_real_distribution<double> U(0., 30.);
  std::normal_distribution<double> N(0., 1.);
  VectorDouble tab(4 * n);
  for (int i = 0; i < n; i++)
  { tab[i] = U(gen); tab[n + i] = U(gen); tab[2 * n + i] = N(gen); tab[3 * n + i] = N(gen); }
  Db* data = Db::createFromSamples(n, ELoadBy::COLUMN, tab, {"x", "y", "z1", "z2"}, {"x1", "x2", "z1", "z2"});
  Model* m = model2();
  NeighUnique* neighU = NeighUnique::create();
  NeighMoving* neighM = NeighMoving::create(false, 100);
  Db* d1 = data->clone();
  Db* d2 = data->clone();
  xvalid(d1, m, neighU, false, -1, -1);   // Z* and S
  xvalid(d2, m, neighM, false, -1, -1);
  printf("--- xvalid, UNIQUE neighbourhood\n"); dump(d1);
  printf("--- xvalid, MOVING neighbourhood containing all samples (same system)\n");
  dump(d2);
  return 0;
}

int main(int argc, char** argv)
{
  if (argc < 2) { printf("usage: obs A|B|C\n"); return 2; }
  if (!strcmp(argv[1], "A")) return caseA();
  if (!strcmp(argv[1], "B")) return caseB(-1);
  if (!strcmp(argv[1], "B2")) return caseB(ITEST);
  return caseC();
}
