// obs2.cpp: randomised differential check of kriging() against an independently assembled (heterotopic) cokriging
// system. Point covariances come from Model::eval (so this checks the ASSEMBLY, not the covariance functions).
// usage: obs2 [ntrials] [seed]
#include "oracle.hpp"
#include "Space/SpacePoint.hpp"
#include "Space/ASpaceObject.hpp"
#include "Space/SpaceRN.hpp"
#include <array>

int main(int argc, char** argv)
{
  int ntrials = argc > 1 ? atoi(argv[1]) : 40;
  int seed0   = argc > 2 ? atoi(argv[2]) : 1;
  int nfailTot = 0;
  for (int trial = 0; trial < ntrials; trial++)
  {
    std::mt19937 gen(seed0 * 1000 + trial);
    auto ri = [&](int a, int b) { return std::uniform_int_distribution<int>(a, b)(gen); };
    std::uniform_real_distribution<double> U(0., 100.);
    std::normal_distribution<double> N(0., 1.);
    int ndim = ri(1, 3), nvar = ri(1, 2), order = ri(-1, 1), nfex = (order >= 0) ? ri(0, 1) : 0;
    bool moving = ri(0, 1), hetero = ri(0, 1), withVerr = ri(0, 1);
    int n = ri(12, 25), nt = 4;
    defineDefaultSpace(ESpaceType::RN, ndim);
    SpaceRN space(ndim);

    // Data
    VectorString names, locs;
    VectorDouble tab;
    std::vector<VectorDouble> X(n, VectorDouble(ndim));
    for (int d = 0; d < ndim; d++) { names.push_back("x" + std::to_string(d + 1)); locs.push_back("x" + std::to_string(d + 1)); }
    for (int d = 0; d < ndim; d++) for (int i = 0; i < n; i++) { X[i][d] = U(gen); tab.push_back(X[i][d]); }
    std::vector<VectorDouble> Z(nvar, VectorDouble(n)), V(nvar, VectorDouble(n, 0.));
    VectorDouble F(n);
    for (int v = 0; v < nvar; v++)
    {
      names.push_back("z" + std::to_string(v + 1)); locs.push_back("z" + std::to_string(v + 1));
      for (int i = 0; i < n; i++)
      {
        Z[v][i] = 3. * v + N(gen);
        if (hetero && ri(0, 3) == 0) Z[v][i] = TEST;
        tab.push_back(Z[v][i]);
      }
    }
    if (withVerr)
      for (int v = 0; v < nvar; v++)
      {
        names.push_back("v" + std::to_string(v + 1)); locs.push_back("v" + std::to_string(v + 1));
        for (int i = 0; i < n; i++) { V[v][i] = 0.1 + 0.2 * ri(0, 5); tab.push_back(V[v][i]); }
      }
    if (nfex)
    {
      names.push_back("f1"); locs.push_back("f1");
      for (int i = 0; i < n; i++) { F[i] = N(gen); if (hetero && ri(0, 9) == 0) F[i] = TEST; tab.push_back(F[i]); }
    }
    Db* data = Db::createFromSamples(n, ELoadBy::COLUMN, tab, names, locs);

    // Targets
    VectorString tnames, tlocs; VectorDouble ttab;
    std::vector<VectorDouble> T(nt, VectorDouble(ndim)); VectorDouble TF(nt);
    for (int d = 0; d < ndim; d++) { tnames.push_back("x" + std::to_string(d + 1)); tlocs.push_back("x" + std::to_string(d + 1)); }
    for (int d = 0; d < ndim; d++) for (int k = 0; k < nt; k++) { T[k][d] = 20. + 0.6 * U(gen); ttab.push_back(T[k][d]); }
    if (nfex) { tnames.push_back("f1"); tlocs.push_back("f1"); for (int k = 0; k < nt; k++) { TF[k] = N(gen); ttab.push_back(TF[k]); } }
    Db* target = Db::createFromSamples(nt, ELoadBy::COLUMN, ttab, tnames, tlocs);

    // Model: anisotropic rotated spherical + exponential + nugget, intrinsic correlation
    VectorDouble ranges(ndim), angles(ndim);
    for (int d = 0; d < ndim; d++) { ranges[d] = 30. + 40. * d + U(gen) * 0.3; angles[d] = U(gen); }
    VectorDouble sills = (nvar == 1) ? VectorDouble({2.}) : VectorDouble({2., 0.8, 0.8, 1.5});
    VectorDouble sills2 = (nvar == 1) ? VectorDouble({0.7}) : VectorDouble({0.7, -0.2, -0.2, 0.9});
    VectorDouble sills3 = (nvar == 1) ? VectorDouble({0.3}) : VectorDouble({0.3, 0.1, 0.1, 0.4});
    Model* model = Model::createFromParam(ECov::SPHERICAL, 0., 0., 1., ranges, sills, angles);
    model->addCovFromParam(ECov::EXPONENTIAL, 25., 0., 1., VectorDouble(), sills2);
    model->addCovFromParam(ECov::NUGGET, 0., 0., 1., VectorDouble(), sills3);
    if (order >= 0) model->setDriftIRF(order, nfex);
    else { VectorDouble means(nvar); for (int v = 0; v < nvar; v++) means[v] = 1. + v; model->setMeans(means); }
    int nbfl = (order < 0) ? 0 : 1 + (order == 1 ? ndim : 0) + nfex;

    double radius = 45.;
    ANeigh* neigh = moving ? (ANeigh*) NeighMoving::create(false, 1000, radius) : (ANeigh*) NeighUnique::create();
    int err = kriging(data, target, model, neigh, EKrigOpt::POINT, true, true, true);

    char cfg[200];
    snprintf(cfg, sizeof cfg, "trial %d: ndim=%d nvar=%d order=%d nfex=%d %s %s verr=%d n=%d", trial, ndim, nvar, order, nfex,
             moving ? "moving" : "unique", hetero ? "hetero" : "iso", (int) withVerr, n);
    if (err) { printf("%s -> kriging() error %d\n", cfg, err); continue; }

    auto drift = [&](const VectorDouble& x, double f, int l) {
      if (l == 0) return 1.;
      if (order == 1 && l <= ndim) return x[l - 1];
      return f;
    };
    int nfail = 0;
    for (int k = 0; k < nt; k++)
    {
      // neighbourhood + defined equations
      std::vector<std::pair<int,int>> eq;   // (sample, var)
      for (int v = 0; v < nvar; v++)
        for (int i = 0; i < n; i++)
        {
          if (FFFF(Z[v][i])) continue;
          if (nfex && FFFF(F[i])) continue;
          if (moving)
          {
            double d2 = 0.; for (int d = 0; d < ndim; d++) d2 += (X[i][d] - T[k][d]) * (X[i][d] - T[k][d]);
            if (std::sqrt(d2) > radius) continue;
          }
          eq.push_back({i, v});
        }
      int ne = (int) eq.size(), nf = nvar * nbfl;
      // drop drift equations of variables that have no data (documented behaviour of _flagDefine)
      std::vector<int> hasVar(nvar, 0);
      for (auto& e : eq) hasVar[e.second] = 1;
      std::vector<std::pair<int,int>> deq;  // (var, l)
      for (int v = 0; v < nvar; v++) if (hasVar[v]) for (int l = 0; l < nbfl; l++) deq.push_back({v, l});
      nf = (int) deq.size();
      SpacePoint pt(T[k], -1, &space);
      for (int jv = 0; jv < nvar; jv++)
      {
        double libE = target->getColumn("Kriging.z" + std::to_string(jv + 1) + ".estim")[k];
        double libS = target->getColumn("Kriging.z" + std::to_string(jv + 1) + ".stdev")[k];
        double libV = target->getColumn("Kriging.z" + std::to_string(jv + 1) + ".varz")[k];
        bool estimable = ne > 0 && ne >= nf && (nbfl == 0 || hasVar[jv]);
        if (!estimable) continue;     // not judged
        Eigen::MatrixXd A = Eigen::MatrixXd::Zero(ne + nf, ne + nf);
        Eigen::VectorXd b = Eigen::VectorXd::Zero(ne + nf), zz = Eigen::VectorXd::Zero(ne + nf);
        for (int a = 0; a < ne; a++)
        {
          SpacePoint pa(X[eq[a].first], -1, &space);
          for (int c = 0; c < ne; c++)
          {
            SpacePoint pc(X[eq[c].first], -1, &space);
            A(a, c) = model->eval(pa, pc, eq[a].second, eq[c].second);
          }
          if (withVerr) A(a, a) += V[eq[a].second][eq[a].first];
          for (int q = 0; q < nf; q++)
            if (deq[q].first == eq[a].second)
              A(a, ne + q) = A(ne + q, a) = drift(X[eq[a].first], nfex ? F[eq[a].first] : 0., deq[q].second);
          b(a) = model->eval(pa, pt, eq[a].second, jv);
          zz(a) = Z[eq[a].second][eq[a].first] - (order < 0 ? 1. + eq[a].second : 0.);
        }
        for (int q = 0; q < nf; q++)
          if (deq[q].first == jv) b(ne + q) = drift(T[k], nfex ? TF[k] : 0., deq[q].second);
        Eigen::FullPivLU<Eigen::MatrixXd> lu(A);
        if (lu.rank() < ne + nf) continue;   // singular system: not judged
        Eigen::VectorXd w = lu.solve(b);
        double E = w.dot(zz) + (order < 0 ? 1. + jv : 0.);
        double var = model->eval(pt, pt, jv, jv) - w.dot(b);
        double S = var > 0 ? std::sqrt(var) : 0.;
        Eigen::VectorXd l = w.head(ne);
        Eigen::MatrixXd Sg = A.topLeftCorner(ne, ne);
        double VZ = w.head(ne).dot(b.head(ne)) - w.tail(nf).dot(b.tail(nf));
        bool ok = close(libE, E, 1e-6) && close(libS, S, 1e-6) && close(libV, VZ, 1e-6);
        if (!ok)
        {
          if (!nfail) printf("%s\n", cfg);
          nfail++;
          printf("   target %d var %d (neq=%d+%d): estim lib=%.8g oracle=%.8g | stdev lib=%.8g oracle=%.8g | varz lib=%.8g oracle=%.8g\n",
                 k, jv + 1, ne, nf, libE, E, libS, S, libV, VZ);
        }
      }
    }
    nfailTot += nfail;
    delete data; delete target; delete model; delete neigh;
  }
  printf("%d discrepancies over %d trials\n", nfailTot, ntrials);
  return nfailTot != 0;
}
