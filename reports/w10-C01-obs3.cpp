// obs3: which samples does a MOVING neighbourhood (radius only) select in 3-D ?
#include "oracle.hpp"
#include "Space/ASpaceObject.hpp"
int main()
{
  int ndim = 3, n = 30;
  defineDefaultSpace(ESpaceType::RN, ndim);
  std::mt19937 gen(3);
  std::uniform_real_distribution<double> U(0., 100.);
  VectorDouble tab(4 * n);
  for (int i = 0; i < 4 * n; i++) tab[i] = U(gen);
  Db* data = Db::createFromSamples(n, ELoadBy::COLUMN, tab, {"x", "y", "z", "v"}, {"x1", "x2", "x3", "z1"});
  Db* target = Db::createFromSamples(1, ELoadBy::COLUMN, {50., 50., 50.}, {"x", "y", "z"}, {"x1", "x2", "x3"});
  Model* model = Model::createFromParam(ECov::SPHERICAL, 60., 1.);
  double radius = 45.;
  NeighMoving* neigh = NeighMoving::create(false, 1000, radius);
  Krigtest_Res r = krigtest(data, target, model, neigh, 0, EKrigOpt::POINT, VectorInt(), false, false);
  printf("library neighbourhood (%d):", (int) r.nbgh.size());
  for (int i : r.nbgh) printf(" %d", i);
  printf("\nsample  d3D      d2D(xy)  in3D in2D inLib\n");
  int bad = 0;
  for (int i = 0; i < n; i++)
  {
    double dx = tab[i] - 50, dy = tab[n + i] - 50, dz = tab[2 * n + i] - 50;
    double d3 = std::sqrt(dx * dx + dy * dy + dz * dz), d2 = std::sqrt(dx * dx + dy * dy);
    bool inLib = std::find(r.nbgh.begin(), r.nbgh.end(), i) != r.nbgh.end();
    if (inLib != (d3 <= radius)) { bad++; printf("%4d   %8.3f %8.3f   %d    %d    %d\n", i, d3, d2, d3 <= radius, d2 <= radius, inLib); }
  }
  printf("%d samples where the library selection differs from 'Euclidean 3-D distance <= radius'\n", bad);
  return bad != 0;
}
