// obs4: cross-validation (xvalid) must equal kriging of each sample from the OTHER samples (leave-one-out),
// computed here with kriging() itself on a Db where the sample is masked. Random configurations.
#include "oracle.hpp"
#include "Space/ASpaceObject.hpp"
int main(int argc, char** argv)
{
  int ntrials = argc > 1 ? atoi(argv[1]) : 30;
  int nbadTot = 0;
  for (int trial = 0; trial < ntrials; trial++)
  {
    std::mt19937 gen(500 + trial);
    auto ri = [&](int a, int b) { return std::uniform_int_distribution<int>(a, b)(gen); };
    std::uniform_real_distribution<double> U(0., 100.);
    std::normal_distribution<double> N(0., 1.);
    int ndim = 2, nvar = ri(1, 2), order = ri(-1, 1);
    bool moving = ri(0, 1), hetero = ri(0, 1), withVerr = ri(0, 1);
    if (!moving) nvar = 1;
    int n = ri(10, 16);
    defineDefaultSpace(ESpaceType::RN, ndim);
    VectorString names = {"x1", "x2"}, locs = {"x1", "x2"};
    VectorDouble tab;
    for (int i = 0; i < 2 * n; i++) tab.push_back(U(gen));
    for (int v = 0; v < nvar; v++)
    {
      names.push_back("z" + std::to_string(v + 1)); locs.push_back("z" + std::to_string(v + 1));
      for (int i = 0; i < n; i++) tab.push_back((hetero && ri(0, 3) == 0) ? TEST : 3. * v + N(gen));
    }
    if (withVerr)
      for (int v = 0; v < nvar; v++)
      {
        names.push_back("v" + std::to_string(v + 1)); locs.push_back("v" + std::to_string(v + 1));
        for (int i = 0; i < n; i++) tab.push_back(0.1 + 0.2 * ri(0, 5));
      }
    Db* data = Db::createFromSamples(n, ELoadBy::COLUMN, tab, names, locs);
    VectorDouble sills = (nvar == 1) ? VectorDouble({2.}) : VectorDouble({2., 0.8, 0.8, 1.5});
    VectorDouble sills3 = (nvar == 1) ? VectorDouble({0.3}) : VectorDouble({0.3, 0.1, 0.1, 0.4});
    Model* model = Model::createFromParam(ECov::SPHERICAL, 0., 0., 1., {50., 30.}, sills, {30., 0.});
    model->addCovFromParam(ECov::NUGGET, 0., 0., 1., VectorDouble(), sills3);
    if (order >= 0) model->setDriftIRF(order);
    else { VectorDouble means(nvar); for (int v = 0; v < nvar; v++) means[v] = 1. + v; model->setMeans(means); }
    ANeigh* neigh = moving ? (ANeigh*) NeighMoving::create(true, 1000, 60.) : (ANeigh*) NeighUnique::create();
    ANeigh* neigh2 = moving ? (ANeigh*) NeighMoving::create(false, 1000, 60.) : (ANeigh*) NeighUnique::create();

    Db* dx = data->clone();
    int err = xvalid(dx, model, neigh, false, -1, -1, 0);
    char cfg[200];
    snprintf(cfg, sizeof cfg, "trial %d: nvar=%d order=%d %s %s verr=%d n=%d", trial, nvar, order, moving ? "moving" : "unique", hetero ? "hetero" : "iso", (int) withVerr, n);
    if (err) { printf("%s -> xvalid error\n", cfg); continue; }
    int nbad = 0;
    for (int i = 0; i < n; i++)
    {
      Db* din = data->clone();
      VectorDouble sel(n, 1.); sel[i] = 0.;
      din->addSelection(sel);
      Db* tgt = Db::createFromSamples(1, ELoadBy::COLUMN, {tab[i], tab[n + i]}, {"x1", "x2"}, {"x1", "x2"});
      if (kriging(din, tgt, model, neigh2, EKrigOpt::POINT, true, true, false) != 0) { delete din; delete tgt; continue; }
      for (int v = 0; v < nvar; v++)
      {
        String zn = "z" + std::to_string(v + 1);
        double e = tgt->getColumn("Kriging." + zn + ".estim")[0], s = tgt->getColumn("Kriging." + zn + ".stdev")[0];
        double xe = dx->getColumn("Xvalid." + zn + ".estim")[i], xs = dx->getColumn("Xvalid." + zn + ".stdev")[i];
        bool eNA = FFFF(e) || std::isnan(e), xNA = FFFF(xe) || std::isnan(xe);
        bool zNA = FFFF(tab[(2 + v) * n + i]);
        bool ok = (eNA && xNA) || (!eNA && !xNA && close(e, xe, 1e-6) && close(s, xs, 1e-6));
        if (!ok)
        {
          if (!nbad) printf("%s\n", cfg);
          nbad++;
          printf("   sample %d var %d (z %s): leave-one-out kriging estim=%.7g stdev=%.7g | xvalid estim=%.7g stdev=%.7g\n", i, v + 1, zNA ? "undefined" : "defined", e, s, xe, xs);
        }
      }
      delete din; delete tgt;
    }
    nbadTot += nbad;
    delete data; delete dx; delete model; delete neigh; delete neigh2;
  }
  printf("%d discrepancies over %d trials\n", nbadTot, ntrials);
  return nbadTot != 0;
}
