// Side observations on the UNMODIFIED library: round trips that do not give back an equivalent object
#include "Variogram/Vario.hpp"
#include "Variogram/VarioParam.hpp"
#include "Variogram/DirParam.hpp"
#include "Db/Db.hpp"
#include "Db/DbGrid.hpp"
#include "Model/Model.hpp"
#include "Drifts/DriftM.hpp"
#include "Matrix/Table.hpp"
#include "Neigh/NeighMoving.hpp"
#include "Anamorphosis/AnamHermite.hpp"
#include "Polygon/Polygons.hpp"
#include "Basic/ASerializable.hpp"
#include "Basic/VectorHelper.hpp"
#include "Basic/Law.hpp"
#include "Space/ASpaceObject.hpp"
#include <sstream>
#include <iostream>
#include <unistd.h>

int main()
{
  ASerializable::setContainerName(false, "/tmp/wt8-C10/out/gstdir/");
  ASerializable::setPrefixName("obs-");
  defineDefaultSpace(ESpaceType::RN, 2);
  int nobs = 0;

  Db* db = Db::createFillRandom(60, 2, 2);

  // O1 - Vario: undefined results are written as 0
  {
    VarioParam vp;
    DirParam dp(4, 0.1);
    vp.addDir(dp);
    Vario v(vp);
    v.compute(db, ECalcVario::VARIOGRAM);
    v.setGgByIndex(0, 1, TEST);
    v.dumpToNF("v1.ascii");
    Vario* w = Vario::createFromNF("v1.ascii", false);
    std::cout << "O1 Vario undefined gg: original=" << v.getGgByIndex(0, 1)
              << " reloaded=" << (w ? w->getGgByIndex(0, 1) : -999.) << std::endl;
    if (w == nullptr || !FFFF(w->getGgByIndex(0, 1))) nobs++;
    delete w;
  }
  // O2 - Vario: the calculation type is not stored (covariance -> reloaded as variogram, sizes differ)
  {
    VarioParam vp;
    DirParam dp(4, 0.1);
    vp.addDir(dp);
    Vario v(vp);
    v.compute(db, ECalcVario::COVARIANCE);
    v.dumpToNF("v2.ascii");
    Vario* w = Vario::createFromNF("v2.ascii", false);
    std::cout << "O2 Vario covariance: original calcul=" << v.getCalcul().getKey()
              << " dirsize=" << v.getDirSize(0);
    if (w) std::cout << " reloaded calcul=" << w->getCalcul().getKey() << " dirsize=" << w->getDirSize(0)
                     << " gg[0] " << v.getGgByIndex(0,0) << " vs " << w->getGgByIndex(0,0) << std::endl;
    else std::cout << " reload FAILED" << std::endl;
    if (w == nullptr || w->getCalcul() != v.getCalcul()) nobs++;
    delete w;
  }
  // O3 - Vario: direction options not stored (bench, cylrad, breaks ...)
  {
    VarioParam vp;
    DirParam dp(4, 0.1, 0.5, 45., 0, 0, 2.5, 3.5, 0., VectorDouble(), {1., 1.});
    vp.addDir(dp);
    Vario v(vp);
    v.compute(db, ECalcVario::VARIOGRAM);
    v.dumpToNF("v3.ascii");
    Vario* w = Vario::createFromNF("v3.ascii", false);
    if (w)
    {
      std::cout << "O3 Vario bench/cylrad: original=" << v.getDirParam(0).getBench() << "/" << v.getDirParam(0).getCylRad()
                << " reloaded=" << w->getDirParam(0).getBench() << "/" << w->getDirParam(0).getCylRad() << std::endl;
      if (w->getDirParam(0).getBench() != v.getDirParam(0).getBench()) nobs++;
    }
    delete w;
  }
  // O4 - Db: a column name containing a blank
  {
    Db* d = Db::createFromBox(5, {0., 0.}, {1., 1.}, 123);
    d->addColumns(VH::simulateGaussian(5), "my var", ELoc::Z, 0);
    d->dumpToNF("d4.ascii");
    Db* e = Db::createFromNF("d4.ascii", false);
    std::cout << "O4 Db with name 'my var': reload " << (e ? "ok" : "FAILED") << std::endl;
    if (e == nullptr) nobs++;
    delete e; delete d;
  }
  // O5 - short file name (<= 2 characters) with a container: written in the container, searched in the cwd
  {
    Table* t = Table::create(2, 2);
    bool okw = t->dumpToNF("T1");
    Table* u = Table::createFromNF("T1", false);
    std::cout << "O5 file name 'T1': dump=" << okw << " file in container="
              << (access("/tmp/wt8-C10/out/gstdir/obs-T1", F_OK) == 0) << " reload " << (u ? "ok" : "FAILED") << std::endl;
    if (u == nullptr) nobs++;
    delete u; delete t;
  }
  // O6 - Model: means are not stored when the model has drift terms
  {
    Model* m = Model::createFromParam(ECov::SPHERICAL, 2., 1.5);
    DriftM d0;
    m->addDrift(&d0);
    m->setMeans({3.25});
    m->dumpToNF("m6.ascii");
    Model* n = Model::createFromNF("m6.ascii", false);
    if (n)
    {
      std::cout << "O6 Model mean with drift: original=" << m->getMean(0) << " reloaded=" << n->getMean(0) << std::endl;
      if (n->getMean(0) != m->getMean(0)) nobs++;
    }
    delete n; delete m;
  }
  // O7 - Table: title, row and column names are not stored
  {
    Table* t = Table::create(2, 2);
    t->setTitle("Results");
    t->setColumnNames({"a", "b"});
    t->dumpToNF("t7.ascii");
    Table* u = Table::createFromNF("t7.ascii", false);
    if (u)
    {
      std::cout << "O7 Table title/colnames: original='" << t->getTitle() << "'/" << t->getColumnNames().size()
                << " reloaded='" << u->getTitle() << "'/" << u->getColumnNames().size() << std::endl;
      if (u->getTitle() != t->getTitle()) nobs++;
    }
    delete u; delete t;
  }
  // O8 - NeighMoving: cross-validation flag and continuous-neighbourhood distance not stored
  {
    NeighMoving* a = NeighMoving::create(true, 10, 5.);
    a->setDistCont(0.7);
    a->dumpToNF("n8.ascii");
    NeighMoving* b = NeighMoving::createFromNF("n8.ascii", false);
    if (b)
    {
      std::cout << "O8 NeighMoving xvalid/distCont: original=" << a->getFlagXvalid() << "/" << a->getDistCont()
                << " reloaded=" << b->getFlagXvalid() << "/" << b->getDistCont() << std::endl;
      if (a->getFlagXvalid() != b->getFlagXvalid()) nobs++;
    }
    delete a; delete b;
  }
  // O9 - Vario::deserialize on an object that already has directions
  {
    VarioParam vp;
    DirParam dp(4, 0.1);
    vp.addDir(dp);
    Vario v(vp);
    v.compute(db, ECalcVario::VARIOGRAM);
    std::stringstream ss;
    v.serialize(ss, false);
    Vario w(vp);
    w.compute(db, ECalcVario::VARIOGRAM);
    std::stringstream s1(ss.str());
    bool ok = w.deserialize(s1, false);
    std::cout << "O9 Vario deserialize over an existing object: ok=" << ok << " ndir original=" << v.getDirectionNumber()
              << " after=" << w.getDirectionNumber() << std::endl;
    if (w.getDirectionNumber() != v.getDirectionNumber()) nobs++;
  }
  // O10 - AnamHermite: the bound flag is not stored
  {
    AnamHermite* a = AnamHermite::create(10, false);
    a->fitFromArray(VH::simulateGaussian(100));
    a->dumpToNF("a10.ascii");
    AnamHermite* b = AnamHermite::createFromNF("a10.ascii", false);
    if (b)
    {
      std::cout << "O10 AnamHermite flagBound: original=" << a->getFlagBound() << " reloaded=" << b->getFlagBound()
                << " ; transform(6.) " << a->transformToRawValue(6.) << " vs " << b->transformToRawValue(6.) << std::endl;
      if (a->getFlagBound() != b->getFlagBound()) nobs++;
    }
    delete a; delete b;
  }
  // O11 - Polygons containing an empty PolyElem: dump fails after having written part of the file
  {
    Polygons p;
    p.addPolyElem(PolyElem({0., 1., 1., 0.}, {0., 0., 1., 0.}));
    p.addPolyElem(PolyElem());
    bool ok = p.dumpToNF("p11.ascii");
    Polygons* q = Polygons::createFromNF("p11.ascii", false);
    std::cout << "O11 Polygons with an empty element: dump=" << ok << " reload " << (q ? "ok" : "FAILED") << std::endl;
    if (!ok || q == nullptr) nobs++;
    delete q;
  }
  std::cout << nobs << " observations confirmed" << std::endl;
  delete db;
  return 0;
}
