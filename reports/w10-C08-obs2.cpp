// Side observation: Zycor / IfpEn exchange formats do not return the same geometry and values
#include "Db/DbGrid.hpp"
#include "OutputFormat/AOF.hpp"
#include "Space/ASpaceObject.hpp"
#include <iostream>
#include <iomanip>
int main()
{
  defineDefaultSpace(ESpaceType::RN, 2);
  DbGrid* g = DbGrid::create({3, 2}, {0.12345678901, 1.}, {1000000.123456789, 0.});
  VectorDouble v = {1.23456789012345, 2., TEST, 4., 5.e-7, 123456789.123};
  g->addColumns(v, "z", ELoc::Z, 0);
  int icol = g->getUID("z");
  std::cout << std::setprecision(15);
  if (db_grid_write_zycor("/tmp/wt8-C10/out/gstdir/obs.zycor", g, icol) == 0)
  {
    DbGrid* h = db_grid_read_zycor("/tmp/wt8-C10/out/gstdir/obs.zycor");
    if (h)
    {
      std::cout << "Zycor x0: " << g->getX0(0) << " -> " << h->getX0(0) << "   dx: " << g->getDX(0) << " -> " << h->getDX(0) << std::endl;
      VectorDouble w = h->getColumnByLocator(ELoc::Z, 0);
      if (w.empty()) w = h->getColumnByColIdx(h->getColumnNumber() - 1);
      for (int i = 0; i < (int) w.size(); i++) std::cout << "  z[" << i << "] " << v[i] << " -> " << w[i] << std::endl;
    }
    else std::cout << "Zycor read failed" << std::endl;
  }
  else std::cout << "Zycor write failed" << std::endl;
  if (db_grid_write_ifpen("/tmp/wt8-C10/out/gstdir/obs.ifpen", g, 1, &icol) == 0)
  {
    DbGrid* h = db_grid_read_ifpen("/tmp/wt8-C10/out/gstdir/obs.ifpen");
    if (h)
    {
      std::cout << "IfpEn x0: " << g->getX0(0) << " -> " << h->getX0(0) << "   dx: " << g->getDX(0) << " -> " << h->getDX(0)
                << "  ndim " << g->getNDim() << " -> " << h->getNDim() << std::endl;
      VectorDouble w = h->getColumnByColIdx(h->getColumnNumber() - 1);
      for (int i = 0; i < (int) w.size() && i < 6; i++) std::cout << "  z[" << i << "] " << v[i] << " -> " << w[i] << std::endl;
    }
    else std::cout << "IfpEn read failed" << std::endl;
  }
  else std::cout << "IfpEn write failed" << std::endl;
  return 0;
}
