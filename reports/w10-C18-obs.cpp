// Side observations on the UNMODIFIED library (property C18 and neighbours)
#include "Anamorphosis/AnamHermite.hpp"
#include "Anamorphosis/AnamEmpirical.hpp"
#include "Db/Db.hpp"
#include "Stats/PCA.hpp"
#include "Basic/NamingConvention.hpp"
#include "Basic/VectorHelper.hpp"
#include "Basic/Law.hpp"
#include <cstdio>
#include <cmath>
#include <exception>

static VectorDouble makeData(int cas, int n)
{
  VectorDouble z;
  for (int i = 0; i < n; i++)
  {
    double u = (i + 0.5) / n;
    double g = law_invcdf_gaussian(u);
    double v;
    switch (cas)
    {
      case 0: v = exp(1.5 * g); break;            // skewed
      case 2: v = (u < 0.5) ? g : g + 20.; break; // bimodal
      case 4: v = exp(3. * g); break;             // very skewed
      default: v = (u < 0.9) ? u : 100 * u; break; // 90% in [0,0.9], 10% in [90,100]
    }
    z.push_back(v);
  }
  return z;
}

static void hermiteCase(int cas, int nb)
{
  VectorDouble z = makeData(cas, 300);
  AnamHermite an(nb, true);
  an.fitFromArray(z);
  printf("[O1] data %d nbpoly %2d: ay=[%g,%g] az=[%g,%g] py=[%g,%g] pz=[%g,%g]\n", cas, nb,
         an.getAymin(), an.getAymax(), an.getAzmin(), an.getAzmax(),
         an.getPymin(), an.getPymax(), an.getPzmin(), an.getPzmax());
  double zmin = VH::minimum(z), zmax = VH::maximum(z);
  int nout = 0;
  for (double v : z) if (v < an.getAzmin() || v > an.getAzmax()) nout++;
  printf("      data range [%g,%g]; %d of %d data fall outside the reported interval [az.min,az.max]\n", zmin, zmax, nout, (int) z.size());
  if (an.getAzmin() > an.getAzmax()) { printf("      -> az.min > az.max: the reported interval is empty\n"); }
  double lo = std::min(an.getAzmin(), an.getAzmax()), hi = std::max(an.getAzmin(), an.getAzmax());
  double tol = 1.e-3 * (hi - lo);
  int nbad = 0, nmono = 0; double yprev = -1.e30;
  double wz = 0, wy = 0, wb = 0, worst = 0;
  for (int k = 0; k <= 400; k++)
  {
    double zz = lo + (hi - lo) * k / 400.;
    double y = an.rawToTransformValue(zz);
    double zb = an.transformToRawValue(y);
    if (std::abs(zb - zz) > tol) { nbad++; if (std::abs(zb - zz) > worst) { worst = std::abs(zb - zz); wz = zz; wy = y; wb = zb; } }
    if (y < yprev - 1.e-9) nmono++;
    yprev = y;
  }
  printf("      inside the interval: %d/401 round trips off by more than 1e-3 of the interval (worst z=%g -> y=%g -> z=%g); %d decreasing steps of raw->Gaussian\n",
         nbad, wz, wy, wb, nmono);
  // monotony of Gaussian->raw on [ay.min, ay.max]
  int ndec = 0; double zprev = -1.e300;
  for (int k = 0; k <= 400; k++)
  {
    double y = an.getAymin() + (an.getAymax() - an.getAymin()) * k / 400.;
    double zz = an.transformToRawValue(y);
    if (zz < zprev - 1.e-9) ndec++;
    zprev = zz;
  }
  printf("      Gaussian->raw on [ay.min,ay.max]: %d decreasing steps out of 400\n", ndec);
  // the other composition: Gaussian -> raw -> Gaussian on [ay.min, ay.max]
  int nby = 0; double wy0 = 0, wz0 = 0, wy1 = 0, wd = 0;
  for (int k = 0; k <= 400; k++)
  {
    double y = an.getAymin() + (an.getAymax() - an.getAymin()) * k / 400.;
    double zz = an.transformToRawValue(y);
    double yb = an.rawToTransformValue(zz);
    if (std::abs(yb - y) > 1.e-2) { nby++; if (std::abs(yb - y) > wd) { wd = std::abs(yb - y); wy0 = y; wz0 = zz; wy1 = yb; } }
  }
  printf("      Gaussian->raw->Gaussian on [ay.min,ay.max]: %d/401 off by more than 0.01 (worst y=%g -> z=%g -> y=%g)\n", nby, wy0, wz0, wy1);
}

int main()
{
  // ---- O1: Hermite bounds that are inconsistent / exclude most of the data
  hermiteCase(2, 5);
  hermiteCase(4, 40);
  hermiteCase(0, 20);
  hermiteCase(5, 10);

  // ---- O2: nbpoly = 1 (constant expansion)
  try
  {
    AnamHermite a1(1, true);
    VectorDouble z = makeData(0, 50);
    int err = a1.fitFromArray(z);
    printf("[O2] nbpoly=1: fit err=%d, transformToRawValue(0.3)=%g\n", err, a1.transformToRawValue(0.3));
  }
  catch (const std::exception& e) { printf("[O2] nbpoly=1: exception '%s'\n", e.what()); }
  catch (...) { printf("[O2] nbpoly=1: exception\n"); }

  // ---- O3: empirical anamorphosis, scalar entry points with an undefined value
  {
    VectorDouble z = makeData(0, 50);
    AnamEmpirical ae(100, TEST, false, false); // normal score
    ae.fitFromArray(z);
    printf("[O3] AnamEmpirical(normal score): rawToTransformValue(TEST)=%g  transformToRawValue(TEST)=%g (expected TEST=%g); AnamHermite gives %g\n",
           ae.rawToTransformValue(TEST), ae.transformToRawValue(TEST), TEST, AnamHermite(3).rawToTransformValue(TEST));
  }

  // ---- O4: empirical anamorphosis with Gaussian dilution on data that are not all positive
  {
    int n = 200;
    VectorDouble z(n);
    for (int i = 0; i < n; i++) z[i] = law_invcdf_gaussian((i + 0.5) / n); // N(0,1) quantiles: half negative
    AnamEmpirical ae(100, TEST, true, true);
    int err = ae.fitFromArray(z);
    VectorDouble y = ae.rawToGaussianVector(z);
    int nlow = 0;
    for (int i = 0; i < n; i++) if (y[i] < 0) nlow++;
    printf("[O4] Gaussian dilution, N(0,1) data: err=%d ndisc=%d, Y range [%g,%g], %d/%d transformed values negative (expected ~%d), median z=0 -> y=%g (expected ~0)\n",
           err, ae.getNDisc(), VH::minimum(y), VH::maximum(y), nlow, n, n/2, ae.rawToTransformValue(0.));
    VectorDouble zb = ae.gaussianToRawVector(y);
    double worst = 0; for (int i = 0; i < n; i++) worst = std::max(worst, std::abs(zb[i]-z[i]));
    printf("      round trip worst |diff| = %g\n", worst);
    // O5: second fit on the same object
    int nd1 = ae.getNDisc();
    ae.fitFromArray(z);
    int nd2 = ae.getNDisc();
    ae.fitFromArray(z);
    printf("[O5] same object fitted again on the same data: ndisc %d -> %d -> %d\n", nd1, nd2, ae.getNDisc());
  }

  // ---- O4b/O5b: dilution on strictly positive data
  for (int gaus = 1; gaus >= 0; gaus--)
  {
    VectorDouble z = makeData(0, 200);
    AnamEmpirical ae(100, TEST, true, (bool) gaus);
    int err = ae.fitFromArray(z);
    int nd1 = ae.getNDisc();
    VectorDouble y = ae.rawToGaussianVector(z);
    VectorDouble zb = ae.gaussianToRawVector(y);
    double worst = 0; int nlow = 0;
    for (int i = 0; i < 200; i++) { worst = std::max(worst, std::abs(zb[i]-z[i])); if (y[i] < 0) nlow++; }
    int ndec = 0;
    for (int i = 1; i < 200; i++) if (y[i] < y[i-1]) ndec++;
    ae.fitFromArray(z); int nd2 = ae.getNDisc();
    ae.fitFromArray(z); int nd3 = ae.getNDisc();
    printf("[O4b] %s dilution, positive lognormal data: err=%d, Y range [%g,%g], %d/200 negative, round trip worst %g, %d decreasing; refits: ndisc %d -> %d -> %d\n",
           gaus ? "Gaussian" : "Lognormal", err, VH::minimum(y), VH::maximum(y), nlow, worst, ndec, nd1, nd2, nd3);
  }

  // ---- O6: normal score: ties, zero weight, selection
  {
    VectorDouble d = {3., 1., 1., 1., 2.};
    VectorDouble s = VH::normalScore(d);
    printf("[O6] normalScore({3,1,1,1,2}) = %g %g %g %g %g  (the three equal values get three different scores)\n", s[0], s[1], s[2], s[3], s[4]);
    VectorDouble w = {1., 0., 1., 1., 1.};
    VectorDouble d2 = {3., 0.5, 1., 1.5, 2.};
    VectorDouble s2 = VH::normalScore(d2, w);
    printf("     normalScore with weight 0 on the smallest value: %g %g %g %g %g\n", s2[0], s2[1], s2[2], s2[3], s2[4]);

    int n = 10;
    Db* db = Db::create();
    VectorDouble v(n), sel(n, 1.);
    for (int i = 0; i < n; i++) v[i] = i;        // 0..9
    for (int i = 0; i < 5; i++) sel[i] = 0.;      // mask the five smallest
    db->addColumns(v, "v", ELoc::Z);
    db->addColumns(sel, "sel", ELoc::SEL);
    AnamHermite dummy(3);
    dummy.normalScore(db, "v", NamingConvention("NS"));
    VectorDouble ns = db->getColumn("NS.v", false);
    printf("     Db normal score with the 5 smallest samples masked: ");
    for (int i = 0; i < n; i++) printf("%g ", ns[i]);
    printf("\n     (active samples 5..9 should get scores symmetric around 0: %g .. %g)\n", law_invcdf_gaussian(1./6.), law_invcdf_gaussian(5./6.));
    delete db;
  }

  // ---- O7: PCA with a constant variable
  {
    int n = 50;
    Db* db = Db::create();
    VectorDouble a(n), b(n), c(n, 7.);
    for (int i = 0; i < n; i++) { a[i] = law_invcdf_gaussian((i+0.5)/n); b[i] = a[i]*a[i] + 0.1*i; }
    db->addColumns(a, "a"); db->addColumns(b, "b"); db->addColumns(c, "c");
    db->setLocators({"a","b","c"}, ELoc::Z);
    PCA p; int err = p.pca_compute(db);
    int e1 = p.dbZ2F(db, false, NamingConvention("F", false));
    VectorString fn = db->getNamesByLocator(ELoc::Z);
    int e2 = p.dbF2Z(db, false, NamingConvention("B", false));
    VectorString bn = db->getNamesByLocator(ELoc::Z);
    printf("[O7] PCA with one constant variable (c=7): compute err=%d Z2F err=%d F2Z err=%d; sample 0: factors = %g %g %g ; back = %g %g %g (was %g %g %g)\n",
           err, e1, e2, db->getValue(fn[0],0), db->getValue(fn[1],0), db->getValue(fn[2],0),
           db->getValue(bn[0],0), db->getValue(bn[1],0), db->getValue(bn[2],0), a[0], b[0], c[0]);
    delete db;
  }
  return 0;
}
