#include "Anamorphosis/AnamHermite.hpp"
#include "Anamorphosis/AnamEmpirical.hpp"
#include "Basic/VectorHelper.hpp"
#include <cstdio>
#include <cmath>
int main()
{
  {
    VectorDouble z = {5., 5., 5., 5.};
    AnamHermite an(4, true);
    int err = an.fitFromArray(z);
    printf("[O8] Hermite fit on constant data {5,5,5,5}: err=%d psi0=%g psi1=%g az=[%g,%g] ay=[%g,%g]; 5 -> y=%g -> z=%g\n", err,
           an.getPsiHns()[0], an.getPsiHns()[1], an.getAzmin(), an.getAzmax(), an.getAymin(), an.getAymax(),
           an.rawToTransformValue(5.), an.transformToRawValue(an.rawToTransformValue(5.)));
  }
  {
    VectorDouble z = {0., 0., 0., 0., 0., 0., 1., 2., 3., 10.};
    VectorDouble w = {1., 1., 1., 1., 1., 1., 1., 1., 1., 1.};
    AnamHermite a(6, true), b(6, true);
    a.fitFromArray(z); b.fitFromArray(z, w);
    printf("[O9] Hermite, unit weights vs no weights: psi1 %g vs %g ; az.min %g vs %g\n", a.getPsiHns()[1], b.getPsiHns()[1], a.getAzmin(), b.getAzmin());
    VectorDouble y = a.rawToGaussianVector(z);
    VectorDouble zb = a.gaussianToRawVector(y);
    printf("     60%% ties at 0: 0 -> y=%g -> z=%g ; 10 -> y=%g -> z=%g; az=[%g,%g]\n", y[0], zb[0], y[9], zb[9], a.getAzmin(), a.getAzmax());
  }
  {
    AnamHermite an(8, false);
    VectorDouble z; for (int i = 0; i < 100; i++) z.push_back(exp(0.03*i));
    an.fitFromArray(z);
    printf("[O10] flagBound=false: data max %g; rawToTransformValue(1e6)=%g, (-1e6)=%g\n", z[99], an.rawToTransformValue(1.e6), an.rawToTransformValue(-1.e6));
  }
  return 0;
}
