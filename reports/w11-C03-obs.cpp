// obs: scan of the UNMODIFIED library: every structure x accepted dimension x a few shape parameters
// -> smallest eigenvalue of the covariance matrix (projected on the authorised increments for
//    the intrinsic structures) on regular / clustered / random point sets.
#include "Covariances/CovAniso.hpp"
#include "Covariances/CovContext.hpp"
#include "Covariances/CovFactory.hpp"
#include "Covariances/ACovFunc.hpp"
#include "Covariances/CovCalcMode.hpp"
#include "Model/Model.hpp"
#include "Db/Db.hpp"
#include "Enum/ECov.hpp"
#include "Space/SpacePoint.hpp"
#include <Eigen/Dense>
#include <cstdio>
#include <cmath>
#include <vector>

static unsigned long long seed = 12345;
static double rnd() { seed = seed * 6364136223846793005ULL + 1442695040888963407ULL; return ((seed >> 11) & 0xFFFFFFFFFFFFFULL) / (double) 0x10000000000000ULL; }

typedef std::vector<std::vector<double>> Pts;

static Pts makePts(int ndim, int kind, int n)
{
  Pts p;
  if (kind == 0) // regular
  {
    int m = (ndim == 1) ? n : (ndim == 2 ? 7 : 4);
    int tot = 1; for (int d = 0; d < ndim; d++) tot *= m;
    for (int i = 0; i < tot; i++)
    {
      std::vector<double> x(ndim); int r = i;
      for (int d = 0; d < ndim; d++) { x[d] = (r % m) * 0.4; r /= m; }
      p.push_back(x);
    }
  }
  else if (kind == 1) // random
    for (int i = 0; i < n; i++) { std::vector<double> x(ndim); for (auto& v : x) v = 3. * rnd(); p.push_back(x); }
  else // clustered
    for (int i = 0; i < n; i++) { std::vector<double> x(ndim); double c = (i % 3) * 1.1; for (auto& v : x) v = c + 0.3 * rnd(); p.push_back(x); }
  return p;
}

// monomials up to degree 'order' (order -1: none)
static Eigen::MatrixXd drift(const Pts& p, int order)
{
  int n = (int) p.size(), ndim = (int) p[0].size();
  std::vector<std::vector<int>> expo;
  for (int deg = 0; deg <= order; deg++)
  {
    // enumerate exponents with total degree 'deg'
    std::vector<int> e(ndim, 0);
    std::function<void(int, int)> rec = [&](int d, int left) {
      if (d == ndim - 1) { e[d] = left; expo.push_back(e); return; }
      for (int k = 0; k <= left; k++) { e[d] = k; rec(d + 1, left - k); }
    };
    rec(0, deg);
  }
  Eigen::MatrixXd F(n, expo.size());
  for (int i = 0; i < n; i++)
    for (size_t j = 0; j < expo.size(); j++)
    {
      double v = 1.;
      for (int d = 0; d < ndim; d++) v *= std::pow(p[i][d], expo[j][d]);
      F(i, j) = v;
    }
  return F;
}

static double minEig(const CovAniso& cov, const Pts& p, int order, bool* nan = nullptr, double* maxratio = nullptr)
{
  int n = (int) p.size();
  const ASpace* sp = cov.getSpace();
  Eigen::MatrixXd C(n, n);
  bool isnan = false;
  for (int i = 0; i < n; i++)
    for (int j = 0; j < n; j++)
    {
      SpacePoint p1(VectorDouble(p[i]), -1, sp), p2(VectorDouble(p[j]), -1, sp);
      C(i, j) = cov.eval(p1, p2);
      if (std::isnan(C(i, j)) || std::isinf(C(i, j))) isnan = true;
    }
  if (nan) *nan = isnan;
  if (isnan) return NAN;
  if (maxratio)
  {
    *maxratio = 0.;
    for (int i = 0; i < n; i++) for (int j = 0; j < n; j++) *maxratio = std::max(*maxratio, std::abs(C(i, j)) / C(0, 0));
  }
  if (order >= 0)
  {
    Eigen::MatrixXd F = drift(p, order);
    Eigen::HouseholderQR<Eigen::MatrixXd> qr(F);
    Eigen::MatrixXd Q = qr.householderQ();
    Eigen::MatrixXd N = Q.rightCols(n - F.cols()); // basis of the authorised increments
    C = N.transpose() * C * N;
  }
  Eigen::SelfAdjointEigenSolver<Eigen::MatrixXd> es(0.5 * (C + C.transpose()));
  double scale = es.eigenvalues().cwiseAbs().maxCoeff();
  return es.eigenvalues().minCoeff() / (scale > 0 ? scale : 1.);
}

int main()
{
  const char* kinds[3] = { "regular", "random", "clustered" };
  printf("=== 1. scan: structure x dimension x parameter (relative smallest eigenvalue; '<<<' = not valid)\n");
  auto it = ECov::getIterator();
  while (it.hasNext())
  {
    ECov type = *it;
    it.toNext();
    if (type == ECov::UNKNOWN || type == ECov::FUNCTION) continue;
    for (int ndim = 1; ndim <= 3; ndim++)
    {
      CovContext ctxt(1, ndim);
      ACovFunc* f = CovFactory::createCovFunc(type, ctxt);
      if (f == nullptr) continue;
      bool compatR = f->getCompatibleSpaceR();
      bool hasParam = f->hasParam();
      int order = f->getMinOrder();
      double pmax = f->getParMax();
      std::string name = f->getCovName();
      delete f;
      CovAniso* cov = nullptr;
      try { cov = new CovAniso(type, ctxt); } catch (const std::exception&) { continue; }
      if (!compatR)
      {
        if (ndim == 2) printf("%-22s: declared NOT compatible with R^n, but a CovAniso on R^%d is built without complaint\n", name.c_str(), ndim);
        delete cov;
        continue;
      }
      std::vector<double> params = { 1. };
      if (hasParam) params = { 0.2, 0.5, 1., 1.5, 2., 4. };
      for (double par : params)
      {
        if (hasParam)
        {
          try { cov->setParam(par); } catch (const std::exception&) { continue; }
        }
        VectorDouble sc(ndim, 1.); if (ndim > 1) sc[1] = 0.6; if (ndim > 2) sc[2] = 1.7;
        try { cov->setScales(sc); } catch (const std::exception&) {}
        if (ndim == 2) cov->setAnisoAngles({ 25., 0. });
        if (ndim == 3) cov->setAnisoAngles({ 25., 40., -15. });
        for (int kind = 0; kind < 3; kind++)
        {
          Pts p = makePts(ndim, kind, 40);
          bool nan; double ratio = 0.;
          double l = minEig(*cov, p, order, &nan, order < 0 ? &ratio : nullptr);
          bool bad = nan || l < -1.e-9 || ratio > 1. + 1.e-12;
          if (bad)
            printf("%-22s ndim=%d param=%-4g (max %g) order=%2d %-9s : min eig (relative) = %-12g max|C|/C0=%g <<<\n",
                   name.c_str(), ndim, hasParam ? par : NAN, pmax, order, kinds[kind], l, ratio);
        }
      }
      delete cov;
    }
  }

  printf("\n=== 2. Matern with a large (accepted, max 1000) third parameter\n");
  for (double par : { 50., 100., 150., 172., 200., 500. })
  {
    CovContext ctxt(1, 2);
    CovAniso cov(ECov::MATERN, ctxt);
    cov.setParam(par);
    cov.setRangeIsotropic(10.);
    const ASpace* sp = cov.getSpace();
    SpacePoint p1(VectorDouble({ 0., 0. }), -1, sp), p2(VectorDouble({ 1., 0. }), -1, sp), p3(VectorDouble({ 1.e-9, 0. }), -1, sp);
    printf("Matern param=%g range=10: C(0)=%g C(1e-9)=%g C(1)=%g\n", par, cov.eval(p1, p1), cov.eval(p1, p3), cov.eval(p1, p2));
  }

  printf("\n=== 3. unitary mode, two variables: scalar eval(ivar=0,jvar=1) versus matrix evaluation\n");
  {
    CovContext ctxt(2, 2);
    CovAniso cov(ECov::SPHERICAL, ctxt);
    cov.setRangeIsotropic(10.);
    MatrixSquareSymmetric s(2); s.setValue(0, 0, 2.); s.setValue(1, 1, 3.); s.setValue(0, 1, -1.);
    cov.setSill(s);
    CovCalcMode mode; mode.setUnitary(true);
    const ASpace* sp = cov.getSpace();
    SpacePoint p1(VectorDouble({ 0., 0. }), -1, sp), p2(VectorDouble({ 1., 0. }), -1, sp);
    MatrixSquareGeneral m = cov.evalMat(p1, p2, &mode);
    printf("scalar eval(0,1,unitary)=%g  eval0(0,1,unitary)=%g ; matrix version [0,1]=%g [0,0]=%g\n",
           cov.eval(p1, p2, 0, 1, &mode), cov.eval0(0, 1, &mode), m.getValue(0, 1), m.getValue(0, 0));
  }

  printf("\n=== 4. active sub-list of structures: evalCovMatrixSymmetric versus evalCovMatrixSymmetricOptim\n");
  {
    Model* model = Model::createFromParam(ECov::NUGGET, 0., 1.);
    model->addCovFromParam(ECov::SPHERICAL, 10., 4.);
    Db* db = Db::createFillRandom(5, 2, 1);
    CovCalcMode mode; mode.setActiveCovListFromOne(1);
    MatrixSquareSymmetric a = model->evalCovMatrixSymmetric(db, 0, VectorInt(), &mode);
    MatrixSquareSymmetric b = model->evalCovMatrixSymmetricOptim(db, 0, VectorInt(), &mode);
    printf("only structure 1 (spherical, sill 4) active: diagonal term standard=%g optimised=%g\n", a.getValue(0, 0), b.getValue(0, 0));
    delete db; delete model;
  }
  return 0;
}
