// obs: side observations on the UNMODIFIED library (each block prints its own verdict)
#include "Db/Db.hpp"
#include "Db/DbGrid.hpp"
#include "Variogram/Vario.hpp"
#include "Variogram/VarioParam.hpp"
#include "Variogram/DirParam.hpp"
#include "Space/ASpaceObject.hpp"
#include "Enum/ESpaceType.hpp"
#include "Enum/ELoadBy.hpp"
#include "Enum/ECalcVario.hpp"
#include <cmath>
#include <cstdio>
#include <vector>

static unsigned long long seedv = 99;
static double rnd()
{
  seedv = seedv * 6364136223846793005ULL + 1442695040888963407ULL;
  return (double) ((seedv >> 11) & ((1ULL << 53) - 1)) / (double) (1ULL << 53);
}
static int lagOf(double d, double dpas, double tol, int npas)
{
  int k = (int) std::floor(d / dpas + 0.5);
  if (std::fabs(d - k * dpas) > tol * dpas) return -1;
  if (k < 0 || k >= npas) return -1;
  return k;
}

// ---------------------------------------------------------------------------------
// O1: flag_sample=true ("variogram by sample"): per-sample accumulators never reset
// ---------------------------------------------------------------------------------
static void obs1()
{
  printf("\n=== O1: flag_sample=true, 1-D, compare data with its mirror image x -> -x ===\n");
  const int n = 12, npas = 4; const double dpas = 1., tol = 0.5;
  VectorDouble tab(2 * n), tabm(2 * n);
  std::vector<double> x(n), z(n);
  for (int i = 0; i < n; i++)
  {
    x[i] = i + 0.2 * rnd(); z[i] = rnd() * (1 + i);
    tab[i] = x[i]; tab[n + i] = z[i];
    tabm[i] = -x[i]; tabm[n + i] = z[i];
  }
  defineDefaultSpace(ESpaceType::RN, 1);
  Db* db  = Db::createFromSamples(n, ELoadBy::COLUMN, tab,  {"x", "z"}, {"x1", "z1"});
  Db* dbm = Db::createFromSamples(n, ELoadBy::COLUMN, tabm, {"x", "z"}, {"x1", "z1"});
  VarioParam* vp = VarioParam::createOmniDirection(npas, dpas, tol);
  Vario* v  = Vario::computeFromDb(*vp, db,  ECalcVario::VARIOGRAM, true);
  Vario* vm = Vario::computeFromDb(*vp, dbm, ECalcVario::VARIOGRAM, true);

  // definition: g(h) = sum_i g_i(h) / #{i : N_i(h) > 0}, g_i(h) = mean over the pairs (i,j), j after i in x-order
  std::vector<double> sw(npas, 0.), gg(npas, 0.);
  for (int i = 0; i < n; i++)
  {
    std::vector<double> s(npas, 0.), g(npas, 0.);
    for (int j = i + 1; j < n; j++)
    {
      int k = lagOf(std::fabs(x[j] - x[i]), dpas, tol, npas);
      if (k < 0) continue;
      s[k] += 1; g[k] += 0.5 * (z[i] - z[j]) * (z[i] - z[j]);
    }
    for (int k = 0; k < npas; k++) if (s[k] > 0) { sw[k] += 1; gg[k] += g[k] / s[k]; }
  }
  VectorDouble g1 = v->getGgVec(0, 0, 0, false, false, false), g2 = vm->getGgVec(0, 0, 0, false, false, false);
  VectorDouble s1 = v->getSwVec(0, 0, 0, false), s2 = vm->getSwVec(0, 0, 0, false);
  int bad = 0;
  for (int k = 1; k < npas; k++)
  {
    printf("lag %d: original sw=%g gg=%g | mirrored sw=%g gg=%g | per-sample definition sw=%g gg=%g\n",
           k, s1[k], g1[k], s2[k], g2[k], sw[k], sw[k] > 0 ? gg[k] / sw[k] : NAN);
    if (std::fabs(g1[k] - g2[k]) > 1e-9 || std::fabs(s1[k] - s2[k]) > 1e-9) bad++;
  }
  printf(bad ? "O1 CONFIRMED: result changes under the isometry x -> -x (accumulators of sample i leak into sample i+1)\n"
             : "O1 not reproduced\n");
}

// ---------------------------------------------------------------------------------
// O2: date intervals: inner loop restarts at 0 and the signed 1-D distance breaks at once
// ---------------------------------------------------------------------------------
static void obs2()
{
  printf("\n=== O2: variogram restricted to a date interval (1-D, 30 samples, npas=3) ===\n");
  const int n = 30, npas = 3; const double dpas = 1., tol = 0.5;
  VectorDouble tab(3 * n);
  std::vector<double> x(n), z(n), t(n);
  for (int i = 0; i < n; i++)
  {
    x[i] = i; z[i] = rnd(); t[i] = (double) (i % 2);
    tab[i] = x[i]; tab[n + i] = z[i]; tab[2 * n + i] = t[i];
  }
  defineDefaultSpace(ESpaceType::RN, 1);
  Db* db = Db::createFromSamples(n, ELoadBy::COLUMN, tab, {"x", "z", "t"}, {"x1", "z1", "date1"});
  if (!db->hasLocVariable(ELoc::DATE)) { printf("(date locator not set - skipped)\n"); return; }
  // pairs with date2 - date1 in [0.5 , 1.5) i.e. from an even sample to an odd one
  VarioParam* vp = VarioParam::createOmniDirection(npas, dpas, tol, 0, 0, TEST, TEST, 0., VectorDouble(), 0., {0.5, 1.5});
  Vario* v = Vario::computeFromDb(*vp, db, ECalcVario::VARIOGRAM);
  if (v == nullptr) { printf("(no variogram)\n"); return; }
  std::vector<double> sw(npas, 0.);
  for (int i = 0; i < n; i++)
    for (int j = 0; j < n; j++)
    {
      if (i == j) continue;
      double dt = t[j] - t[i];
      if (dt < 0.5 || dt >= 1.5) continue;
      int k = lagOf(std::fabs(x[j] - x[i]), dpas, tol, npas);
      if (k >= 0) sw[k] += 1;
    }
  VectorDouble s1 = v->getSwVec(0, 0, 0, false);
  int bad = 0;
  for (int k = 0; k < npas; k++)
  {
    printf("lag %d: library sw=%g | definition (ordered pairs in the date interval) sw=%g\n", k, s1[k], sw[k]);
    if (std::fabs(s1[k] - sw[k]) > 1e-9) bad++;
  }
  printf(bad ? "O2 CONFIRMED: pairs are lost when dates are used\n" : "O2 not reproduced\n");
}

// ---------------------------------------------------------------------------------
// O3: heterotopic cross-covariance: pairs needing only z_i(x1), z_j(x2) are dropped
// O4: covariance (ivar,jvar) and (jvar,ivar) returned identical instead of mirrored
// ---------------------------------------------------------------------------------
static void obs34()
{
  printf("\n=== O3/O4: non-centred cross-covariance, 1-D, 2 variables, heterotopic ===\n");
  const int n = 40, npas = 4; const double dpas = 1., tol = 0.5;
  VectorDouble tab(3 * n);
  std::vector<double> x(n), za(n), zb(n);
  for (int i = 0; i < n; i++)
  {
    x[i] = i; za[i] = rnd(); zb[i] = (i > 0 ? za[i - 1] : 0.) + 0.1 * rnd(); // zb lags za by +1
    if (i % 4 == 0) zb[i] = TEST;   // zb missing on some samples
    if (i % 5 == 2) za[i] = TEST;   // za missing on others
    tab[i] = x[i]; tab[n + i] = za[i]; tab[2 * n + i] = zb[i];
  }
  defineDefaultSpace(ESpaceType::RN, 1);
  Db* db = Db::createFromSamples(n, ELoadBy::COLUMN, tab, {"x", "za", "zb"}, {"x1", "z1", "z2"});
  VarioParam* vp = VarioParam::createOmniDirection(npas, dpas, tol);
  Vario* v = Vario::computeFromDb(*vp, db, ECalcVario::COVARIANCE_NC);
  if (v == nullptr) { printf("(no covariance)\n"); return; }

  // definition of C_ba(h) = mean of zb(x) * za(x+h), signed h, over all ordered pairs where both values exist
  std::vector<double> sw(2 * npas + 1, 0.), gg(2 * npas + 1, 0.);
  for (int i = 0; i < n; i++)
    for (int j = 0; j < n; j++)
    {
      if (i == j) continue;
      if (zb[i] == TEST || za[j] == TEST) continue;
      double h = x[j] - x[i];
      int k = lagOf(std::fabs(h), dpas, tol, npas);
      if (k < 0) continue;
      int iad = (h > 0) ? npas + k + 1 : npas - k - 1;
      sw[iad] += 1; gg[iad] += zb[i] * za[j];
    }
  VectorDouble s10 = v->getSwVec(0, 1, 0, false), g10 = v->getGgVec(0, 1, 0, false, false, false);
  VectorDouble s01 = v->getSwVec(0, 0, 1, false), g01 = v->getGgVec(0, 0, 1, false, false, false);
  VectorDouble h10 = v->getHhVec(0, 1, 0, false);
  int bad3 = 0, same = 0, tot = 0;
  for (int a = 0; a < 2 * npas + 1; a++)
  {
    if (a == npas) continue;
    printf("h=%+5.2f: library C(2,1): sw=%g gg=%.5f | definition E[z2(x) z1(x+h)]: sw=%g gg=%.5f | library C(1,2): sw=%g gg=%.5f\n",
           h10[a], s10[a], g10[a], sw[a], sw[a] > 0 ? gg[a] / sw[a] : NAN, s01[a], g01[a]);
    if (std::fabs(s10[a] - sw[a]) > 1e-9) bad3++;
    tot++;
    if (std::fabs(g10[a] - g01[a]) < 1e-12) same++;
  }
  printf(bad3 ? "O3 CONFIRMED: heterotopic cross-covariance uses fewer pairs than exist\n" : "O3 not reproduced\n");
  printf(same == tot ? "O4 CONFIRMED: C(1,2)(h) is returned identical to C(2,1)(h) although C12(h)=C21(-h) and the data are clearly asymmetric\n"
                     : "O4 not reproduced\n");
}

int main()
{
  obs1();
  obs2();
  obs34();
  return 0;
}
