// Helper shared (by textual inclusion) by the demos: full snapshot of a Db
#include "Db/Db.hpp"
#include "Db/DbGrid.hpp"
#include "Enum/ELoc.hpp"
#include <sstream>
#include <string>
#include <vector>
#include <cstring>
#include <cstdio>

// One line per column: name | locator | every value (bitwise, through %a-like hex of the double)
static std::vector<std::string> snapshot(const Db* db)
{
  std::vector<std::string> res;
  std::ostringstream head;
  head << "ncol=" << db->getColumnNumber() << " nech=" << db->getSampleNumber();
  res.push_back(head.str());
  for (int icol = 0; icol < db->getColumnNumber(); icol++)
  {
    std::ostringstream s;
    ELoc loc;
    int item = -1;
    bool has = db->getLocatorByColIdx(icol, &loc, &item);
    s << "col " << icol << " name=" << db->getNameByColIdx(icol) << " loc=";
    if (has) s << loc.getKey() << item; else s << "NA";
    s << " values=";
    for (int iech = 0; iech < db->getSampleNumber(); iech++)
    {
      double v = db->getValueByColIdx(iech, icol);
      unsigned long long bits;
      std::memcpy(&bits, &v, sizeof(bits));
      s << std::hex << bits << std::dec << ",";
    }
    res.push_back(s.str());
  }
  return res;
}

// Short description of a snapshot line (without the values)
static std::string shortLine(const std::string& s)
{
  size_t p = s.find(" values=");
  return (p == std::string::npos) ? s : s.substr(0, p);
}

// Returns the number of differences and prints them
static int compare(const char* title,
                   const std::vector<std::string>& before,
                   const std::vector<std::string>& after)
{
  int ndiff = 0;
  size_t n = std::max(before.size(), after.size());
  for (size_t i = 0; i < n; i++)
  {
    std::string b = (i < before.size()) ? before[i] : "<absent>";
    std::string a = (i < after.size()) ? after[i] : "<absent>";
    if (a == b) continue;
    ndiff++;
    std::printf("  %s differs: before [%s]  after [%s]%s\n", title, shortLine(b).c_str(),
                shortLine(a).c_str(),
                (shortLine(a) == shortLine(b)) ? " (values changed)" : "");
  }
  return ndiff;
}
#include "Model/Model.hpp"
#include "Neigh/NeighUnique.hpp"
#include "Neigh/NeighMoving.hpp"
#include "Estimation/CalcKriging.hpp"
#include "Simulation/CalcSimuTurningBands.hpp"
#include "Enum/ECov.hpp"
#include "Enum/EKrigOpt.hpp"
#include "Basic/NamingConvention.hpp"

#include "Calculators/CalcMigrate.hpp"
#include "Basic/VectorHelper.hpp"
// Side observations on the UNMODIFIED library. Each block prints what it sees.
int main()
{
  Model* good = Model::createFromParam(ECov::SPHERICAL, 0.4, 1.);
  Model* bad  = Model::createFromParam(ECov::PENTA, 0.4, 1.);
  NeighUnique* neighU = NeighUnique::create();
  int nobs = 0;

  // ---- OBS1: kriging with one external drift; the drift is known on the grid only.
  {
    std::printf("\n==== OBS1: kriging with external drift, drift variable absent from dbin\n");
    Db* data = Db::createFillRandom(30, 2, 1);
    DbGrid* grid = DbGrid::create({8, 8}, {0.125, 0.125});
    VectorDouble drift(64);
    for (int i = 0; i < 64; i++) drift[i] = 0.1 * (i % 8) + 0.03 * (i / 8);
    grid->addColumns(drift, "drift", ELoc::F);
    Model* model = Model::createFromParam(ECov::SPHERICAL, 0.4, 1.);
    model->setDriftIRF(0, 1);
    auto dataBefore = snapshot(data);
    auto gridBefore = snapshot(grid);
    int err = kriging(data, grid, model, neighU, EKrigOpt::BLOCK, true, true, false, VectorInt());
    std::printf("  failing call (BLOCK without discretisation) returned %d\n", err);
    int n = compare("dbin  after FAILURE", dataBefore, snapshot(data));
    n += compare("dbout after FAILURE", gridBefore, snapshot(grid));
    if (n == 0) std::printf("  nothing changed after the failure\n");
    nobs += n;
    Db* data2 = Db::createFillRandom(30, 2, 1);
    auto data2Before = snapshot(data2);
    err = kriging(data2, grid, model, neighU);
    std::printf("  valid call returned %d\n", err);
    n = compare("dbin  after SUCCESS", data2Before, snapshot(data2));
    if (n == 0) std::printf("  input data base unchanged after the success\n");
    nobs += n;
  }

  // ---- OBS2: failing simulation on an output grid which already carries a SIMU-located variable
  {
    std::printf("\n==== OBS2: failed simtub, output grid already holds a variable with role SIMU\n");
    DbGrid* grid = DbGrid::create({8, 8}, {0.125, 0.125});
    grid->addColumnsByConstant(1, 7., "oldsim", ELoc::SIMU);
    auto gridBefore = snapshot(grid);
    int err = simtub(nullptr, grid, bad, nullptr, 1, 1234, 50);
    std::printf("  failing call returned %d\n", err);
    int n = compare("dbout after FAILURE", gridBefore, snapshot(grid));
    if (n == 0) std::printf("  nothing changed after the failure\n");
    nobs += n;
  }

  // ---- OBS3: successful conditional simulation, dbin already carries a SIMU-located variable
  {
    std::printf("\n==== OBS3: successful conditional simtub, dbin already holds a variable with role SIMU\n");
    Db* data = Db::createFillRandom(30, 2, 1);
    data->addColumnsByConstant(1, 7., "oldsim", ELoc::SIMU);
    DbGrid* grid = DbGrid::create({8, 8}, {0.125, 0.125});
    auto dataBefore = snapshot(data);
    int err = simtub(data, grid, good, neighU, 1, 1234, 50);
    std::printf("  valid call returned %d\n", err);
    int n = compare("dbin  after SUCCESS", dataBefore, snapshot(data));
    if (n == 0) std::printf("  input data base unchanged after the success\n");
    nobs += n;
  }

  // ---- OBS4: krigtest with iech0 = 0 returns the system of the LAST target, not of target 0
  {
    std::printf("\n==== OBS4: krigtest(iech0=0)\n");
    Db* data = Db::createFillRandom(30, 2, 1);
    DbGrid* grid = DbGrid::create({8, 8}, {0.125, 0.125});
    NeighMoving* neighM = NeighMoving::create(false, 5, 1.);
    Krigtest_Res r0  = krigtest(data, grid, good, neighM, 0,  EKrigOpt::POINT, VectorInt(), false, false);
    Krigtest_Res r1  = krigtest(data, grid, good, neighM, 1,  EKrigOpt::POINT, VectorInt(), false, false);
    Krigtest_Res r63 = krigtest(data, grid, good, neighM, 63, EKrigOpt::POINT, VectorInt(), false, false);
    VH::display("  neighbours returned for iech0=0 ", r0.nbgh);
    VH::display("  neighbours returned for iech0=1 ", r1.nbgh);
    VH::display("  neighbours returned for iech0=63", r63.nbgh);
    if (r0.nbgh == r63.nbgh && r0.xyz == r63.xyz && !(r0.nbgh == r1.nbgh))
    {
      std::printf("  -> iech0=0 returns exactly the system of the last target (63): all targets were processed\n");
      nobs++;
    }
  }

  // ---- OBS5: migrate of a variable which does not exist in dbin
  {
    std::printf("\n==== OBS5: migrate(dbin, dbout, \"nosuchname\")\n");
    Db* data = Db::createFillRandom(30, 2, 1);
    DbGrid* grid = DbGrid::create({8, 8}, {0.125, 0.125});
    auto dataBefore = snapshot(data);
    auto gridBefore = snapshot(grid);
    int err = migrate(data, grid, "nosuchname");
    std::printf("  call returned %d\n", err);
    int n = compare("dbin ", dataBefore, snapshot(data));
    n += compare("dbout", gridBefore, snapshot(grid));
    if (err == 0 && n > 0) { std::printf("  -> reported as a success, a variable was created from a non-existent input\n"); }
    if (err != 0 && n == 0) std::printf("  failure reported, nothing changed\n");
    nobs += n;
  }

  std::printf("\n%d differences observed in total\n", nobs);
  return 0;
}
