// obs.cpp: violations of property C07 (or close neighbours) on the UNMODIFIED library
#include "check.hpp"
#include <exception>

static void title(const char* t) { std::cout << "\n=== " << t << std::endl; }
static void roles(const Db* db, const ELoc& t)
{
  int n = db->getLocatorNumber(t);
  std::cout << "  role list " << getLocatorName(t, -1) << " (" << n << " items):";
  for (int i = 0; i < n; i++)
    std::cout << " " << getLocatorName(t, i) << "->uid" << db->getUIDByLocator(t, i)
              << "(" << db->getNameByUID(db->getUIDByLocator(t, i)) << ")";
  std::cout << std::endl;
}
static Db* mk()
{
  Db* db = Db::create();
  db->addColumns({1,2,3,4}, "a");
  db->addColumns({5,6,7,8}, "b");
  db->addColumns({9,10,11,12}, "c");
  db->addColumns({13,14,15,16}, "d");
  return db;
}

int main()
{
  int before;

  title("O1 setLocator(name, Z, -1) on a column that ALREADY is a Z: hole filled with uid 0");
  {
    Db* db = mk(); before = nerr;
    db->setLocator("b", ELoc::Z, 0);
    db->setLocator("c", ELoc::Z, 1);
    db->setLocator("b", ELoc::Z, -1);   // 'next free rank' computed before b is removed from the list
    roles(db, ELoc::Z);
    checkTable(db, "O1");
    if (db->getLocatorNumber(ELoc::Z) != 2) FAIL("O1: 2 columns carry role Z but getLocatorNumber(Z)=" << db->getLocatorNumber(ELoc::Z));
    std::cout << "  -> " << (nerr - before) << " violation(s)" << std::endl;
    delete db;
  }

  title("O2 setLocator(name, Z, 3) on an empty role list: ranks 0..2 all designate uid 0");
  {
    Db* db = mk(); before = nerr;
    db->setLocator("d", ELoc::Z, 3);
    roles(db, ELoc::Z);
    checkTable(db, "O2");
    std::cout << "  -> " << (nerr - before) << " violation(s)" << std::endl;
    delete db;
  }

  title("O3 setLocatorByUID on the identifier of a DELETED column");
  {
    Db* db = mk(); before = nerr;
    db->deleteColumn("b");                 // uid 1 is dead
    db->setLocatorByUID(1, ELoc::Z, 0);
    roles(db, ELoc::Z);
    std::cout << "  getLocNumber(Z)=" << db->getLocNumber(ELoc::Z) << " hasLocVariable(Z)=" << db->hasLocVariable(ELoc::Z)
              << " getColumnByLocator(Z,0).size()=" << db->getColumnByLocator(ELoc::Z, 0).size() << std::endl;
    checkTable(db, "O3");
    std::cout << "  -> " << (nerr - before) << " violation(s)" << std::endl;
    delete db;
  }

  title("O4 switchLocator(Z, Z): every Z role is lost");
  {
    Db* db = mk(); before = nerr;
    db->setLocator("b", ELoc::Z, 0);
    db->setLocator("c", ELoc::Z, 1);
    db->switchLocator(ELoc::Z, ELoc::Z);
    roles(db, ELoc::Z);
    if (db->getLocatorNumber(ELoc::Z) != 2) FAIL("O4: roles Z lost: " << db->getLocatorNumber(ELoc::Z) << " left");
    std::cout << "  -> " << (nerr - before) << " violation(s)" << std::endl;
    delete db;
  }

  title("O5 active sample count: three definitions of 'active' (selection value 2 or NA)");
  {
    Db* db = mk(); before = nerr;
    db->addColumns({1, 0, 2, TEST}, "s");
    db->setLocator("s", ELoc::SEL, 0);
    int n1 = db->getSampleNumber(true);
    int n2 = (int) db->getColumn("a", true).size();
    int n3 = 0; for (int i = 0; i < db->getSampleNumber(); i++) if (db->isActive(i)) n3++;
    std::cout << "  sel = 1 0 2 NA : getSampleNumber(true)=" << n1 << "  getColumn(a,useSel).size()=" << n2
              << "  #isActive=" << n3 << std::endl;
    if (n1 != n2 || n1 != n3) FAIL("O5: reported number of active samples does not match the content");
    std::cout << "  -> " << (nerr - before) << " violation(s)" << std::endl;
    delete db;
  }

  title("O6 deleteColumnsByUIDRange(0, 2): nothing deleted (uid 0 refused)");
  {
    Db* db = mk(); before = nerr;
    db->deleteColumnsByUIDRange(0, 2);
    std::cout << "  columns left: " << db->getColumnNumber() << " (expected 2)" << std::endl;
    if (db->getColumnNumber() != 2) FAIL("O6: range starting at uid 0 is ignored");
    Db* db2 = mk();
    db2->deleteColumnsByUIDRange(1, 2);
    std::cout << "  same call starting at uid 1: columns left: " << db2->getColumnNumber() << std::endl;
    std::cout << "  -> " << (nerr - before) << " violation(s)" << std::endl;
    delete db; delete db2;
  }

  title("O7 deleteSamples({2,2}) / deleteColumnsByColIdx({1,1}): a repeated index deletes a neighbour");
  {
    Db* db = mk(); before = nerr;
    db->deleteSamples({2, 2});
    show("a after deleteSamples({2,2}) (was 1 2 3 4)", db->getColumn("a"));
    if (db->getSampleNumber() != 3) FAIL("O7: sample 3 deleted although only sample 2 was designated");
    Db* db2 = mk();
    db2->deleteColumnsByColIdx({1, 1});
    std::cout << "  names after deleteColumnsByColIdx({1,1}):";
    for (auto& n : db2->getAllNames()) std::cout << " " << n;
    std::cout << std::endl;
    if (db2->getColumnNumber() != 3) FAIL("O7: column 'c' deleted although only column 1 was designated");
    std::cout << "  -> " << (nerr - before) << " violation(s)" << std::endl;
    delete db; delete db2;
  }

  title("O8 names are used as regular expressions: the library's own 'z.1' is ambiguous with 'z11'");
  {
    Db* db = Db::create(); before = nerr;
    db->addColumns({1,2,3}, "z11");
    db->addColumns({4,5,6}, "z");
    db->addColumns({7,8,9}, "z");      // renamed z.1 by the library
    std::cout << "  names:"; for (auto& n : db->getAllNames()) std::cout << " " << n; std::cout << std::endl;
    std::cout << "  getColIdx(\"z.1\")=" << db->getColIdx("z.1") << " (expected 2)  getUID(\"z.1\")=" << db->getUID("z.1") << std::endl;
    show("getColumn(\"z.1\") (expected 7 8 9)", db->getColumn("z.1"));
    checkTable(db, "O8");
    if (!sameVec(db->getColumn("z.1"), {7,8,9})) FAIL("O8: name z.1 does not give the data of its column");
    std::cout << "  -> " << (nerr - before) << " violation(s)" << std::endl;
    delete db;
  }

  title("O9 names with regexp metacharacters: 'a+b' cannot be found, 'f(x' throws");
  {
    Db* db = Db::create(); before = nerr;
    db->addColumns({1,2,3}, "a+b");
    std::cout << "  getColIdx(\"a+b\")=" << db->getColIdx("a+b") << " (expected 0)" << std::endl;
    if (db->getColIdx("a+b") != 0) FAIL("O9: an accepted name does not designate its column");
    db->addColumns({1,2,3}, "f(x");
    try
    {
      int i = db->getColIdx("f(x");
      std::cout << "  getColIdx(\"f(x\")=" << i << std::endl;
    }
    catch (const std::exception& e)
    {
      std::cout << "  getColIdx(\"f(x\") threw: " << e.what() << std::endl;
      FAIL("O9: exception while looking up an accepted name");
    }
    std::cout << "  -> " << (nerr - before) << " violation(s)" << std::endl;
    delete db;
  }

  title("O10 setName(list, radix): an UNTOUCHED column is renamed");
  {
    Db* db = Db::create(); before = nerr;
    db->addColumns({1,2,3}, "a");
    db->addColumns({4,5,6}, "x.1");
    db->setName(VectorString({"a"}), "x");     // a -> x.1 ; the duplicate correction then renames the other one
    std::cout << "  names:"; for (auto& n : db->getAllNames()) std::cout << " " << n; std::cout << std::endl;
    if (!sameVec(db->getColumn("x.1"), {4,5,6})) FAIL("O10: name x.1 now designates another column (untouched column renamed)");
    std::cout << "  -> " << (nerr - before) << " violation(s)" << std::endl;
    delete db;
  }

  std::cout << "\nTOTAL violations on this library: " << nerr << std::endl;
  return 0;
}
