// Side observations on the UNMODIFIED library (property C10 and neighbours)
#include "Db/Db.hpp"
#include "Db/DbGrid.hpp"
#include "Neigh/NeighBench.hpp"
#include "Neigh/NeighMoving.hpp"
#include "Estimation/KrigingCalcul.hpp"
#include "Matrix/MatrixSquareSymmetric.hpp"
#include "Matrix/MatrixRectangular.hpp"
#include "Basic/VectorNumT.hpp"
#include "Basic/Law.hpp"
#include "Enum/ELoadBy.hpp"
#include <cstdio>
#include <cmath>

static void pri(const char* s, const VectorInt& v){ printf("  %s (n=%d):", s, (int)v.size()); for (int i=0;i<(int)v.size() && i<12;i++) printf(" %d", v[i]); printf("\n"); }
static void prd(const char* s, const VectorDouble& v){ printf("  %s (n=%d):", s, (int)v.size()); for (int i=0;i<(int)v.size() && i<12;i++) printf(" %.6f", v[i]); printf("\n"); }
static MatrixSquareSymmetric sym(int n, std::initializer_list<double> v)
{ MatrixSquareSymmetric m(n); auto it=v.begin(); for(int i=0;i<n;i++)for(int j=0;j<n;j++,++it)m.setValue(i,j,*it); return m; }

int main()
{
  int nviol = 0;
  // ---- O1: NeighBench::hasChanged is inverted: a target in ANOTHER bench re-uses the memo
  {
    printf("O1 NeighBench: select(last) after select(0) vs fresh select(last)\n");
    // data: 2 samples per level z=0..3
    VectorDouble tab;
    for (int k = 0; k < 4; k++) for (int i = 0; i < 2; i++) { tab.push_back(i); tab.push_back(0.5); tab.push_back(k); tab.push_back(10*k+i); }
    Db* dbin = Db::createFromSamples(8, ELoadBy::SAMPLE, tab, {"x1","x2","x3","z"}, {"x1","x2","x3","z1"});
    DbGrid* grid = DbGrid::create({2,2,4}, {1,1,1}, {0,0,0});
    int last = grid->getSampleNumber() - 1;
    NeighBench* n1 = NeighBench::create(false, 0.4);
    NeighBench* n2 = NeighBench::create(false, 0.4);
    VectorInt a, b, c;
    n1->attach(dbin, grid); n1->select(0, a); n1->select(last, b);
    n2->attach(dbin, grid); n2->select(last, c);
    pri("select(0)            ", a); pri("select(last) after 0 ", b); pri("select(last) fresh   ", c);
    if (b != c) { printf("  -> VIOLATION\n"); nviol++; }
  }
  // ---- O2: ANeigh::select twice on the same target: 2nd answer comes from the sorted memo and drops colocated '-1'
  {
    printf("O2 ANeigh::select same target twice with colocated option\n");
    VectorDouble tab = {0,0,1, 1,0,2, 0,1,3};
    Db* dbin  = Db::createFromSamples(3, ELoadBy::SAMPLE, tab, {"x1","x2","z"}, {"x1","x2","z1"});
    Db* dbout = Db::createFromSamples(1, ELoadBy::SAMPLE, {0.4,0.4,7.}, {"x1","x2","z"}, {"x1","x2","z1"});
    NeighMoving* n = NeighMoving::create(false, 10, 100.);
    n->attach(dbin, dbout);
    n->setRankColCok({dbout->getUID("z")});
    VectorInt a, b;
    n->select(0, a); n->select(0, b);
    pri("1st select(0)", a); pri("2nd select(0)", b);
    if (a != b) { printf("  -> VIOLATION\n"); nviol++; }
  }
  // ---- O3: KrigingCalcul::getEstimation: a failed request leaves a partial _Zstar that the next request returns
  {
    printf("O3 KrigingCalcul (Bayes, X0 missing): getEstimation() twice\n");
    VectorDouble Z = {1.2,-0.7,0.4}, means = {0.}, pm = {0.5};
    MatrixSquareSymmetric Sigma = sym(3,{2,.5,.3,.5,2,.4,.3,.4,2}), S00 = sym(1,{2}), pc = sym(1,{1.});
    MatrixRectangular X(3,1), S0(3,1);
    for (int i=0;i<3;i++){ X.setValue(i,0,1.); S0.setValue(i,0,.3+.2*i);}
    KrigingCalcul K(false);
    K.setData(&Z,&means); K.setLHS(&Sigma,&X); K.setRHS(&S0,nullptr); K.setVar(&S00); K.setBayes(&pm,&pc);
    VectorDouble e1 = K.getEstimation(); VectorDouble e2 = K.getEstimation();
    prd("1st (fails, X0 missing)", e1); prd("2nd (same call)", e2);
    if (e1.size() != e2.size()) { printf("  -> VIOLATION (failed call left a cache that is now served as a result)\n"); nviol++; }
  }
  // ---- O4: KrigingCalcul: setLHS after setXvalidUnique keeps the RHS patched from the OLD Sigma
  {
    printf("O4 KrigingCalcul xvalid: setLHS(new Sigma) after setXvalidUnique vs fresh object\n");
    VectorDouble Z = {1.2,-0.7,0.4}, means = {0.};
    MatrixSquareSymmetric Sa = sym(3,{2,.5,.3,.5,2,.4,.3,.4,2}), Sb = sym(3,{3,1.,.2,1.,2,.9,.2,.9,4}), S00 = sym(1,{2});
    VectorInt eqs = {1}, vars = {0};
    KrigingCalcul A(false);
    A.setData(&Z,&means); A.setLHS(&Sa,nullptr); A.setVar(&S00); A.setXvalidUnique(&eqs,&vars);
    VectorDouble ea = A.getEstimation(); VectorDouble sa = A.getStdv();
    A.setLHS(&Sb,nullptr);
    VectorDouble e2 = A.getEstimation(); VectorDouble s2 = A.getStdv();
    KrigingCalcul B(false);
    B.setData(&Z,&means); B.setLHS(&Sb,nullptr); B.setVar(&S00); B.setXvalidUnique(&eqs,&vars);
    VectorDouble eb = B.getEstimation(); VectorDouble sb = B.getStdv();
    prd("est  with Sigma_a", ea); prd("est  updated to Sigma_b", e2); prd("est  fresh Sigma_b", eb);
    prd("stdv updated to Sigma_b", s2); prd("stdv fresh Sigma_b", sb);
    if (e2.size()!=eb.size() || (e2.size() && std::abs(e2[0]-eb[0])>1e-10) || (s2.size() && sb.size() && std::abs(s2[0]-sb[0])>1e-10)) { printf("  -> VIOLATION\n"); nviol++; }
  }
  // ---- O5: VectorT::getVector() const hands out the shared storage: writing through it changes the copies
  {
    printf("O5 VectorT copy independence through getVector()/getVectorPtr()\n");
    VectorDouble a = {1,2,3}; VectorDouble b = a;
    b.getVector()[0] = 99.;
    prd("a (never written by the caller)", a); prd("b", b);
    if (a[0] != 1.) { printf("  -> VIOLATION\n"); nviol++; }
  }
  // ---- O6: seed <= 0 is silently ignored: result of a 'seeded' procedure depends on history
  {
    printf("O6 VH/law with seed=0: law_set_random_seed(0) is a no-op\n");
    law_set_random_seed(123); double u1 = law_uniform();
    law_set_random_seed(123); (void) law_uniform(); law_set_random_seed(0); double u2 = law_uniform();
    law_set_random_seed(123); law_set_random_seed(0); double u3 = law_uniform();
    printf("  after seed(0): %f vs %f (seed(0) after one more draw)\n", u3, u2);
    (void) u1;
  }
  printf("violations shown: %d\n", nviol);
  return 0;
}
