// Side observations on the UNMODIFIED library (property C11)
#include "Matrix/MatrixSparse.hpp"
#include "Matrix/NF_Triplet.hpp"
#include "Matrix/MatrixRectangular.hpp"
#include "Matrix/MatrixSquareGeneral.hpp"
#include "Matrix/MatrixSquareSymmetric.hpp"
#include "LinearOp/CholeskyDense.hpp"
#include "LinearOp/CholeskySparse.hpp"
#include "Basic/VectorHelper.hpp"
#include <cstdio>
#include <cmath>
#include <vector>

static MatrixSparse* mk(int nr, int nc, const std::vector<std::vector<double>>& a, int opt)
{
  NF_Triplet T;
  for (int i = 0; i < nr; i++)
    for (int j = 0; j < nc; j++)
      if (a[i][j] != 0.) T.add(i, j, a[i][j]);
  return MatrixSparse::createFromTriplet(T, nr, nc, opt);
}

int main()
{
  // O1: dense t(A) x through prodMatVecInPlace(constvect, vect, true), A is 2x4
  {
    MatrixRectangular A(2, 4);
    double a[2][4] = {{1, 2, 0, 4}, {0, -1, 3, 5}};
    for (int i = 0; i < 2; i++) for (int j = 0; j < 4; j++) A.setValue(i, j, a[i][j]);
    std::vector<double> x = {1., 2.};
    std::vector<double> y(4, 100.);
    constvect xs(x.data(), x.size());
    vect ys(y.data(), y.size());
    int err = A.prodMatVecInPlace(xs, ys, true);
    printf("O1 dense 2x4, t(A)x in place: err=%d y = %g %g %g %g   (expected 1 0 6 14)\n", err, y[0], y[1], y[2], y[3]);
  }
  // O2: getDiagonal(-1) vs getDiagonal(+1) on a non symmetric square matrix
  {
    MatrixSquareGeneral G(3);
    int k = 1;
    for (int i = 0; i < 3; i++) for (int j = 0; j < 3; j++) G.setValue(i, j, k++);
    VectorDouble dm = G.getDiagonal(-1), dp = G.getDiagonal(1);
    printf("O2 getDiagonal(-1) = %g %g ; getDiagonal(+1) = %g %g   (matrix 1..9 by rows: sub-diagonal is 4 8, super-diagonal is 2 6)\n",
           dm[0], dm[1], dp[0], dp[1]);
  }
  // O3: sparse transposeInPlace / transpose() keep the old dimensions
  for (int opt = 0; opt <= 1; opt++)
  {
    MatrixSparse* M = mk(2, 4, {{1, 2, 0, 4}, {0, -1, 3, 5}}, opt);
    M->transposeInPlace();
    printf("O3 sparse(%s) 2x4 after transposeInPlace: getNRows=%d getNCols=%d (expected 4 2)\n", opt ? "Eigen" : "cs", M->getNRows(), M->getNCols());
    delete M;
    M = mk(2, 4, {{1, 2, 0, 4}, {0, -1, 3, 5}}, opt);
    MatrixSparse* Mt = M->transpose();
    printf("O3 sparse(%s) 2x4 transpose(): getNRows=%d getNCols=%d (expected 4 2)\n", opt ? "Eigen" : "cs", Mt->getNRows(), Mt->getNCols());
    delete M; delete Mt;
  }
  // O4: addScalarDiag on a sparse matrix with a non-stored diagonal entry: back-ends disagree
  for (int opt = 0; opt <= 1; opt++)
  {
    MatrixSparse* M = mk(3, 3, {{1, 2, 0}, {2, 0, 1}, {0, 1, 3}}, opt);
    M->addScalarDiag(10.);
    printf("O4 sparse(%s) addScalarDiag(10): diag = %g %g %g (expected 11 10 13)\n", opt ? "Eigen" : "cs",
           M->getValue(0, 0), M->getValue(1, 1), M->getValue(2, 2));
    delete M;
  }
  // O5: invert() of a non symmetric invertible sparse matrix (dense gives the inverse)
  {
    std::vector<std::vector<double>> a = {{2, 1, 0}, {0, 3, 1}, {1, 0, 4}};
    MatrixSquareGeneral D(3);
    for (int i = 0; i < 3; i++) for (int j = 0; j < 3; j++) D.setValue(i, j, a[i][j]);
    D.invert();
    for (int opt = 0; opt <= 1; opt++)
    {
      MatrixSparse* M = mk(3, 3, a, opt);
      int err = M->invert();
      double d = 0.;
      for (int i = 0; i < 3; i++) for (int j = 0; j < 3; j++) d = fmax(d, fabs(M->getValue(i, j) - D.getValue(i, j)));
      printf("O5 sparse(%s) invert of non-symmetric 3x3: err=%d, max |sparse - dense inverse| = %g\n", opt ? "Eigen" : "cs", err, d);
      delete M;
    }
  }
  // O6: CholeskyDense::setMatrix twice keeps the first lower triangle
  {
    MatrixSquareSymmetric A(2), B(2);
    A.setValue(0, 0, 4.); A.setValue(1, 0, 0.); A.setValue(1, 1, 9.);
    B.setValue(0, 0, 16.); B.setValue(1, 0, 0.); B.setValue(1, 1, 25.);
    CholeskyDense ch(&A);
    double l00 = ch.getLowerTriangle(0, 0);
    ch.setMatrix(&B);
    printf("O6 CholeskyDense: L00 of A = %g ; after setMatrix(B) L00 = %g (expected 4), logdet = %g (expected %g)\n",
           l00, ch.getLowerTriangle(0, 0), ch.computeLogDeterminant(), log(400.));
  }
  // O7: CholeskySparse::setMatrix twice keeps the first factor
  for (int opt = 0; opt <= 1; opt++)
  {
    MatrixSparse* A = mk(2, 2, {{4, 0}, {0, 9}}, opt);
    MatrixSparse* B = mk(2, 2, {{16, 0}, {0, 25}}, opt);
    CholeskySparse ch(A);
    double ld1 = ch.computeLogDeterminant();
    ch.setMatrix(B);
    printf("O7 CholeskySparse(%s): logdet(A) = %g ; after setMatrix(B) logdet = %g (expected %g)\n", opt ? "Eigen" : "cs", ld1, ch.computeLogDeterminant(), log(400.));
    delete A; delete B;
  }
  // O8: CholeskyDense on a non positive definite matrix reports ready
  {
    MatrixSquareSymmetric A(2);
    A.setValue(0, 0, 1.); A.setValue(1, 0, 2.); A.setValue(1, 1, 1.);
    CholeskyDense ch(&A);
    printf("O8 CholeskyDense on indefinite [[1,2],[2,1]]: isReady=%d logdet=%g\n", (int) ch.isReady(), ch.computeLogDeterminant());
  }
  // O9: cs back-end: LX / InvLX / LtX silently do nothing and return 0
  {
    MatrixSparse* A = mk(2, 2, {{4, 1}, {1, 9}}, 0);
    CholeskySparse ch(A);
    std::vector<double> in = {1., 2.}, out(2, 0.);
    int err = ch.LX(constvect(in.data(), 2), vect(out.data(), 2));
    printf("O9 CholeskySparse(cs) LX: err=%d out = %g %g (L x is non zero)\n", err, out[0], out[1]);
    delete A;
  }
  // O10: VH::maximum(vector<vector<double>>, flagAbs=true) ignores flagAbs for the first sub-vector
  {
    std::vector<std::vector<double>> vv = {{-5., 1.}, {2.}};
    printf("O10 VH::maximum({{-5,1},{2}}, flagAbs=true) = %g (expected 5)\n", VH::maximum(vv, true));
    VectorInt vi = {-20000000};
    printf("O10b VH::maximum(VectorInt{-20000000}) = %d ; VH::minimum(VectorInt{20000000}) = %d\n", VH::maximum(vi), VH::minimum(VectorInt({20000000})));
  }
  // O11: CholeskyDense::matProductInPlace modes 4/5 are documented t(A)%*%TU / t(A)%*%TL but equal modes 2/3
  {
    MatrixSquareSymmetric S(2);
    S.setValue(0, 0, 4.); S.setValue(1, 0, 2.); S.setValue(1, 1, 5.);
    CholeskyDense ch(&S);
    MatrixRectangular A(2, 2), X2, X4;
    A.setValue(0, 0, 1.); A.setValue(0, 1, 2.); A.setValue(1, 0, 3.); A.setValue(1, 1, 4.);
    ch.matProductInPlace(2, A, X2);
    ch.matProductInPlace(4, A, X4);
    printf("O11 mode2 (A TU) = [%g %g; %g %g]  mode4 (t(A) TU) = [%g %g; %g %g]\n",
           X2.getValue(0,0), X2.getValue(0,1), X2.getValue(1,0), X2.getValue(1,1),
           X4.getValue(0,0), X4.getValue(0,1), X4.getValue(1,0), X4.getValue(1,1));
  }
  // O12: dense multiplyRow on a non square matrix with a vector of length ncols (documented OOB) / sparse multiplyRow no size check
  {
    VectorDouble s = VH::sort(VectorDouble({3., 1., 2.}), true, 5);
    printf("O12 VH::sort({3,1,2}, size=5) -> size %d: %g %g %g %g %g (zeros invented)\n", (int) s.size(), s[0], s[1], s[2], s[3], s[4]);
    printf("O12b VH::isSorted({1,1,2}) = %d (non-decreasing sequence)\n", (int) VH::isSorted(VectorDouble({1., 1., 2.}), true));
  }
  return 0;
}
