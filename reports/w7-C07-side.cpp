// Side observations on the unmodified tree: each block prints what is observed.
#include "Db/Db.hpp"
#include "Db/DbGrid.hpp"
#include "Enum/ELoc.hpp"
#include "Enum/ELoadBy.hpp"
#include "Basic/VectorHelper.hpp"
#include <iostream>
#include <unistd.h>

static std::string role(const Db* db, int icol)
{
  ELoc type; int rank;
  if (!db->getLocatorByColIdx(icol, &type, &rank)) return "none";
  return std::string(type.getKey()) + std::to_string(rank + 1);
}
static void roles(const Db* db, const char* title)
{
  std::cout << title << ":";
  for (int i = 0; i < db->getColumnNumber(); i++)
    std::cout << " " << db->getNameByColIdx(i) << "=" << role(db, i);
  std::cout << " | nZ=" << db->getLocatorNumber(ELoc::Z) << " Zcols=";
  for (int i = 0; i < db->getLocatorNumber(ELoc::Z); i++) std::cout << db->getColIdxByLocator(ELoc::Z, i) << ",";
  std::cout << std::endl;
}
static Db* mk(int nech = 4)
{
  VectorDouble tab;
  for (int c = 0; c < 4; c++) for (int i = 0; i < nech; i++) tab.push_back(10 * (c + 1) + i);
  return Db::createFromSamples(nech, ELoadBy::COLUMN, tab, { "a", "b", "c", "d" }, VectorString(), false);
}

int main(int argc, char** argv)
{
  {
    std::cout << "--- S1 setItem(name, values, useSel=true) with a masked sample" << std::endl;
    Db* db = mk();
    db->addSelection({ 1, 0, 1, 1 }, "sel");
    int rc = db->setItem("a", VectorDouble({ -1, -2, -3 }), true);
    std::cout << "rc=" << rc << " a = " << VH::toStringAsVD(db->getColumn("a")) << "(expected -1 11 -2 -3)" << std::endl;
    delete db;
  }
  {
    std::cout << "--- S2 setLocator(name, Z, 2) when no Z exists" << std::endl;
    Db* db = mk();
    db->setLocator("a", ELoc::X, 0);
    db->setLocator("c", ELoc::Z, 2);
    roles(db, "roles");
    std::cout << "x1 column=" << db->getColIdxByLocator(ELoc::X, 0) << " z1 column=" << db->getColIdxByLocator(ELoc::Z, 0)
              << " z2 column=" << db->getColIdxByLocator(ELoc::Z, 1) << std::endl;
    delete db;
  }
  {
    std::cout << "--- S3 re-assign with automatic rank (-1) a column holding z1 of {z1,z2}" << std::endl;
    Db* db = mk();
    db->setLocators({ "b", "c" }, ELoc::Z, 0);
    db->setLocator("b", ELoc::Z, -1);
    roles(db, "roles");
    delete db;
  }
  {
    std::cout << "--- S4 active count vs content" << std::endl;
    Db* db = mk();
    db->setLocator("d", ELoc::SEL);           // values 40 41 42 43 (non zero, not 1)
    int nact0 = 0; for (int i = 0; i < db->getSampleNumber(); i++) nact0 += db->isActive(i);
    std::cout << "sel={40,41,42,43}: getSampleNumber(true)=" << db->getSampleNumber(true)
              << " getColumn(a,useSel).size=" << db->getColumn("a", true).size()
              << " nb isActive=" << nact0
              << " getRanksActive.size=" << db->getRanksActive().size() << std::endl;
    delete db;
    db = mk();
    db->addSelection({ 1, 0, 1, 1 }, "sel");
    db->addSamples(2);
    int nact = 0; for (int i = 0; i < db->getSampleNumber(); i++) nact += db->isActive(i);
    std::cout << "after addSamples(2) on a Db with selection: getSampleNumber(true)=" << db->getSampleNumber(true)
              << " nb isActive=" << nact << " getColumn(a,useSel).size=" << db->getColumn("a", true).size()
              << " getRanksActive.size=" << db->getRanksActive().size() << std::endl;
    delete db;
  }
  {
    std::cout << "--- S5 isUIDDefined" << std::endl;
    Db* db = mk();
    db->deleteColumn("a");  // uid 0 dead; uid 1 -> col 0
    std::cout << "isUIDDefined(1)=" << db->isUIDDefined(1) << " (column 'b' exists, expected 1); isUIDDefined(3)=" << db->isUIDDefined(3) << std::endl;
    delete db;
  }
  {
    std::cout << "--- S6 names are interpreted as regular expressions" << std::endl;
    VectorDouble tab = { 1, 2, 3, 4, 5, 6, 7, 8, 9 };
    Db* db = Db::createFromSamples(3, ELoadBy::COLUMN, tab, { "z11", "z", "z" }, VectorString(), false);
    std::cout << "names: " << VH::toStringAsVS(db->getAllNames());
    std::cout << "getColIdx('z.1')=" << db->getColIdx("z.1") << " (expected 2) getUID('z.1')=" << db->getUID("z.1")
              << " getColumn('z.1').size=" << db->getColumn("z.1").size() << std::endl;
    db->deleteColumnByColIdx(2);
    std::cout << "after deleteColumnByColIdx(2): ncol=" << db->getColumnNumber() << " (expected 2)" << std::endl;
    db->setLocator("z.1", ELoc::Z, 0);
    roles(db, "after setLocator('z.1',Z)");
    delete db;
  }
  {
    std::cout << "--- S7 names colliding with the default names New-k" << std::endl;
    VectorDouble tab = { 1, 2, 3, 4, 5, 6 };
    Db* db = Db::createFromSamples(3, ELoadBy::COLUMN, tab, { "New-2", "a" }, VectorString(), false);
    std::cout << "requested {New-2,a}; got " << VH::toStringAsVS(db->getAllNames());
    delete db;
    db = Db::create();
    db->addColumnsByConstant(3, 0., "New", ELoc::UNKNOWN, 0, 2);   // New-1 New-2 New-3
    db->deleteColumn("New-1");
    std::cout << "before save: " << VH::toStringAsVS(db->getAllNames());
    char buf[4096]; std::string file = std::string(getcwd(buf, sizeof(buf))) + "/side_db.nf";
    db->dumpToNF(file);
    Db* db2 = Db::createFromNF(file, false);
    std::cout << "after reload: " << VH::toStringAsVS(db2->getAllNames());
    unlink(file.c_str());
    delete db; delete db2;
  }
  {
    std::cout << "--- S8 setColumnByColIdx / setCoordinates with useSel=true overwrite masked cells" << std::endl;
    Db* db = mk();
    db->setLocator("a", ELoc::X, 0);
    db->addSelection({ 1, 0, 1, 1 }, "sel");
    db->setCoordinates(0, { -1, -2, -3 }, true);
    std::cout << "a = " << VH::toStringAsVD(db->getColumn("a")) << "(expected -1 11 -2 -3)" << std::endl;
    db->setColumnByUID({ -1, -2, -3 }, 1, true);
    std::cout << "b = " << VH::toStringAsVD(db->getColumn("b")) << "(setColumnByUID: -1 21 -2 -3)" << std::endl;
    delete db;
  }
  {
    std::cout << "--- S11 role given to a deleted UID" << std::endl;
    Db* db = mk();
    db->deleteColumn("a");
    db->setLocatorByUID(0, ELoc::Z, 0);
    std::cout << "nZ=" << db->getLocatorNumber(ELoc::Z) << " column of z1=" << db->getColIdxByLocator(ELoc::Z, 0)
              << " name='" << db->getNameByLocator(ELoc::Z, 0) << "'" << std::endl;
    delete db;
  }
  {
    std::cout << "--- S12 createReduce with a subset of names" << std::endl;
    Db* db = mk();
    db->setLocators({ "a", "b" }, ELoc::X, 0);
    db->setLocators({ "c", "d" }, ELoc::Z, 0);
    Db* red = Db::createReduce(db, { "b", "d" });
    roles(red, "reduced");
    std::cout << "nX=" << red->getLocatorNumber(ELoc::X) << " x1 col=" << red->getColIdxByLocator(ELoc::X, 0)
              << " x2 col=" << red->getColIdxByLocator(ELoc::X, 1) << std::endl;
    delete db; delete red;
  }
  {
    std::cout << "--- S13 FACIES / GAUSFAC roles after a reload" << std::endl;
    Db* db = mk();
    db->setLocator("a", ELoc::FACIES, 0);
    db->setLocator("b", ELoc::GAUSFAC, 0);
    char buf[4096]; std::string file = std::string(getcwd(buf, sizeof(buf))) + "/side_db.nf";
    db->dumpToNF(file);
    Db* db2 = Db::createFromNF(file, false);
    roles(db, "before");
    if (db2 != nullptr) roles(db2, "after "); else std::cout << "reload failed" << std::endl;
    unlink(file.c_str());
    delete db; delete db2;
  }
  {
    std::cout << "--- S14 failed addColumns on an empty Db, then a legal one" << std::endl;
    Db* db = Db::create();
    int rc1 = db->addColumns({ 1, 2, 3, 4, 5, 6, 7 }, "v", ELoc::UNKNOWN, 0, false, 0., 2);
    std::cout << "first call (7 values, 2 variables) rc=" << rc1 << " ncol=" << db->getColumnNumber() << " nech=" << db->getSampleNumber() << std::endl;
    int rc2 = db->addColumns({ 1, 2, 3, 4, 5, 6, 7, 8 }, "v", ELoc::UNKNOWN, 0, false, 0., 2);
    std::cout << "second call (8 values, 2 variables) rc=" << rc2 << " ncol=" << db->getColumnNumber() << " nech=" << db->getSampleNumber() << std::endl;
    delete db;
  }
  {
    std::cout << "--- S15 deleteColumnsByUIDRange(0,2)" << std::endl;
    Db* db = mk();
    db->deleteColumnsByUIDRange(0, 2);
    std::cout << "ncol=" << db->getColumnNumber() << " (expected 2)" << std::endl;
    delete db;
  }
  {
    std::cout << "--- S18 addColumns(..., ELoc::SEL, useSel=true) on a Db with a selection" << std::endl;
    Db* db = mk();
    db->addSelection({ 1, 0, 1, 1 }, "sel");
    db->addColumns({ 1, 0, 1 }, "sel2", ELoc::SEL, 0, true);
    std::cout << "sel2 = " << VH::toStringAsVD(db->getColumn("sel2"));
    delete db;
  }
  {
    std::cout << "--- S9 getAllCoordinatesMat with a selection" << std::endl;
    Db* db = mk();
    db->setLocators({ "a", "b" }, ELoc::X, 0);
    db->addSelection({ 0, 0, 1, 1 }, "sel");
    MatrixRectangular m = db->getAllCoordinatesMat();
    std::cout << "nrows=" << m.getNRows() << " row0=" << m.getValue(0, 0) << "," << m.getValue(0, 1)
              << " row1=" << m.getValue(1, 0) << "," << m.getValue(1, 1) << " (expected 12,22 and 13,23)" << std::endl;
    delete db;
  }
  return 0;
}
