// Side observations: places where the UNMODIFIED library already violates property C09.
// Each case runs in a child process; the line printed tells how the child ended
// (exit 0 = file refused, 1 = object returned, 2 = inconsistent object, KILLED = crash).
// Build like the demos; everything is created in a temporary directory.
#include "Db/Db.hpp"
#include "Db/DbGrid.hpp"
#include "Polygon/Polygons.hpp"
#include "Polygon/PolyElem.hpp"
#include "Matrix/Table.hpp"
#include "Model/Model.hpp"
#include "Basic/CSVformat.hpp"
#include "Basic/ASerializable.hpp"
#include "OutputFormat/AOF.hpp"
#include "Core/CSV.hpp"
#include "Variogram/Vario.hpp"
#include "Space/ASpaceObject.hpp"
#include <cstring>

#include <sys/wait.h>
#include <sys/resource.h>
#include <unistd.h>
#include <fstream>
#include <iostream>
#include <functional>

static std::string DIR;
static void spit(const std::string& f, const std::string& c)
{
  std::ofstream os(f, std::ios::binary | std::ios::trunc);
  os << c;
}
static void run(const char* title, const std::function<int()>& fn)
{
  fflush(stdout);
  pid_t pid = fork();
  if (pid == 0)
  {
    struct rlimit rl;
    rl.rlim_cur = rl.rlim_max = 3UL << 30;
    setrlimit(RLIMIT_AS, &rl);
    alarm(30);
    freopen("/dev/null", "w", stdout);
    int r = fn();
    _exit(r);
  }
  int status = 0;
  waitpid(pid, &status, 0);
  if (WIFSIGNALED(status))
    printf("%-50s : KILLED by signal %d\n", title, WTERMSIG(status));
  else
    printf("%-50s : exit %d\n", title, WEXITSTATUS(status));
}

int main()
{
  char tmpl[] = "/tmp/sideobs_XXXXXX";
  DIR = std::string(mkdtemp(tmpl)) + "/";
  defineDefaultSpace(ESpaceType::RN, 2);
  ASerializable::setContainerName(false, "");
  ASerializable::setPrefixName("");

  run("a. DbGrid NF, nech(12) < prod(nx)(24)", []() {
    std::string s = "DbGrid\n2\n6 10 1 0\n4 20 2 0\n1\n12\nz1\nvar\n";
    for (int i = 0; i < 12; i++) s += std::to_string(i + 1) + "\n";
    spit(DIR + "a.nf", s);
    DbGrid* g = DbGrid::createFromNF(DIR + "a.nf", false);
    if (!g) return 0;
    VectorDouble v = g->getColumnByColIdx(0);
    fprintf(stderr, "   a: nech=%d ntotal=%d v[12..15]= %lg %lg %lg %lg\n", g->getSampleNumber(), g->getNTotal(), v[12], v[13], v[14], v[15]);
    return 1;
  });
  run("b. Db NF, locators 'x1 x5'", []() {
    spit(DIR + "b.nf", "Db\n2\n2\nx1 x5\na b\n1 2\n3 4\n");
    Db* d = Db::createFromNF(DIR + "b.nf", false);
    if (!d) return 0;
    fprintf(stderr, "   b: ndim=%d\n", d->getNDim());
    VectorDouble c = d->getSampleCoordinates(0);
    fprintf(stderr, "   b: coords size %d: ", (int)c.size());
    for (auto x: c) fprintf(stderr, "%lg ", x);
    fprintf(stderr, "\n");
    bool ok = d->dumpToNF(DIR + "b.out");
    Db* d2 = Db::createFromNF(DIR + "b.out", false);
    fprintf(stderr, "   b: saved %d reloaded %p\n", (int)ok, (void*)d2);
    return 1;
  });
  run("c. Zycor xmax<xmin", []() {
    spit(DIR + "c.zyc", "@GRID ZYCOR FILE    ,   GRID,  5\n     15,         1e+30,    ,    0,     1\n"
                        "     2,      3,     15.0,     10.0,     20.0,     26.0\n  0.0, 0.0, 0.0\n@\n 1 2\n 3 4\n 5 6\n");
    DbGrid* g = db_grid_read_zycor((DIR + "c.zyc").c_str());
    if (!g) return 0;
    fprintf(stderr, "   c: nech=%d ntotal=%d consistent=%d\n", g->getSampleNumber(), g->getNTotal(), (int)g->isConsistent());
    return g->isConsistent() ? 1 : 2;
  });
  run("c2. Zycor nx=1 (division by zero)", []() {
    spit(DIR + "c2.zyc", "@GRID ZYCOR FILE    ,   GRID,  5\n     15,         1e+30,    ,    0,     1\n"
                         "     2,      1,     10.0,     10.0,     20.0,     26.0\n  0.0, 0.0, 0.0\n@\n 1 2\n");
    DbGrid* g = db_grid_read_zycor((DIR + "c2.zyc").c_str());
    if (!g) return 0;
    fprintf(stderr, "   c2: nech=%d ntotal=%d dx0=%lg consistent=%d\n", g->getSampleNumber(), g->getNTotal(), g->getDX(0), (int)g->isConsistent());
    return g->isConsistent() ? 1 : 2;
  });
  run("d. BMP top-down (negative height)", []() {
    DbGrid* grid = DbGrid::create({6, 4});
    VectorDouble v(24);
    for (int i = 0; i < 24; i++) v[i] = i;
    grid->addColumns(v, "var", ELoc::Z);
    db_grid_write_bmp((DIR + "d.bmp").c_str(), grid, grid->getUID("var"));
    std::ifstream is(DIR + "d.bmp", std::ios::binary);
    std::string c((std::istreambuf_iterator<char>(is)), std::istreambuf_iterator<char>());
    int h = -4;
    memcpy(&c[22], &h, 4);
    spit(DIR + "d2.bmp", c);
    DbGrid* g = db_grid_read_bmp((DIR + "d2.bmp").c_str());
    if (!g) return 0;
    fprintf(stderr, "   d: nx=%d %d nech=%d ntotal=%d\n", g->getNX(0), g->getNX(1), g->getSampleNumber(), g->getNTotal());
    return g->isConsistent() ? 1 : 2;
  });
  run("e. F2G with F2G_DIM 6", []() {
    spit(DIR + "e.f2g",
         "F2G_DIM 6\nF2G_VERSION 1\nF2G_LOCATION 0 0 0\nF2G_ROTATION 0\nF2G_ORIGIN 0 0 0 0 0 0\n"
         "F2G_NB_NODES 3 2 1 77 78 79\nF2G_LAGS 1 1 1 5 6 7\nF2G_ORDER +Y +X +Z\nF2G_NB_VARIABLES 1\n"
         "F2G_VARIABLE_1 toto\nF2G_UNDEFINED_1 -999\nF2G_VALUES\n1 2 3 4 -999 6\n");
    DbGrid* g = db_grid_read_f2g((DIR + "e.f2g").c_str());
    return g ? 1 : 0;
  });
  run("f. IfpEn reader on a text file of another type", []() {
    std::string s;
    for (int i = 0; i < 30; i++) s += "ZZZZ some text line that is not an IfpEn header      77\n";
    spit(DIR + "f.ifp", s);
    DbGrid* g = db_grid_read_ifpen((DIR + "f.ifp").c_str());
    if (!g) return 0;
    fprintf(stderr, "   f: accepted! nx=%d %d %d ncol=%d\n", g->getNX(0), g->getNX(1), g->getNX(2), g->getColumnNumber());
    return 1;
  });
  run("g. db_read_csv without header", []() {
    spit(DIR + "g.csv", "1,2,3\n4,5,6\n");
    CSVformat fmt(false);
    Db* d = db_read_csv((DIR + "g.csv").c_str(), fmt, 0);
    return d ? 1 : 0;
  });
  run("h. Model NF with unknown covariance type 99", []() {
    spit(DIR + "h.nf", "Model\n2\n1\n0\n1\n0\n99\n10\n1\n0\n0\n1\n1\n");
    Model* m = Model::createFromNF(DIR + "h.nf", false);
    if (!m) return 0;
    (void)m->toString();
    return 1;
  });
  run("j. 300 failed Zycor reads (256 descriptors allowed) then a valid read", []() {
    struct rlimit rf; rf.rlim_cur = rf.rlim_max = 256; setrlimit(RLIMIT_NOFILE, &rf);
    DbGrid* grid = DbGrid::create({6, 4});
    VectorDouble v(24);
    for (int i = 0; i < 24; i++) v[i] = i;
    grid->addColumns(v, "var", ELoc::Z);
    db_grid_write_zycor((DIR + "j.zyc").c_str(), grid, grid->getUID("var"));
    spit(DIR + "j.bad", "hello\n");
    for (int i = 0; i < 300; i++) (void)db_grid_read_zycor((DIR + "j.bad").c_str());
    DbGrid* g = db_grid_read_zycor((DIR + "j.zyc").c_str());
    return g ? 1 : 2;
  });
  run("k. CSV header 'x1,x3' (locator gap)", []() {
    spit(DIR + "k.csv", "x1,x3\n1,2\n3,4\n");
    Db* d = Db::createFromCSV(DIR + "k.csv", CSVformat(), false, -1, -1, false);
    if (!d) return 0;
    fprintf(stderr, "   k: ndim=%d\n", d->getNDim());
    VectorDouble c = d->getSampleCoordinates(0);
    for (auto x: c) fprintf(stderr, "%lg ", x);
    fprintf(stderr, "\n");
    return 1;
  });
  run("l. IfpEn negative ROW_COUNT", []() {
    DbGrid* grid = DbGrid::create({6, 4});
    VectorDouble v(24);
    for (int i = 0; i < 24; i++) v[i] = i;
    grid->addColumns(v, "var", ELoc::Z);
    int icol = grid->getUID("var");
    db_grid_write_ifpen((DIR + "l0.ifp").c_str(), grid, 1, &icol);
    std::ifstream is(DIR + "l0.ifp");
    std::string c((std::istreambuf_iterator<char>(is)), std::istreambuf_iterator<char>());
    size_t p = c.find("ROW_COUNT                # 4");
    c.replace(p, 28, "ROW_COUNT                # -4");
    spit(DIR + "l.ifp", c);
    DbGrid* g = db_grid_read_ifpen((DIR + "l.ifp").c_str());
    return g ? 1 : 0;
  });
  run("m. Table NF 1 x 1e9 under 3GB limit", []() {
    spit(DIR + "m.nf", "Table\n1000000000\n1\n");
    Table* t = Table::createFromNF(DIR + "m.nf", false);
    return t ? 1 : 0;
  });
  run("n. last line without newline (Zycor)", []() {
    spit(DIR + "n.zyc", "@GRID ZYCOR FILE    ,   GRID,  5\n     15,         1e+30,    ,    0,     1\n"
                        "     2,      2,     10.0,     11.0,     20.0,     21.0\n  0.0, 0.0, 0.0\n@\n 11 12\n 13 14");
    DbGrid* g = db_grid_read_zycor((DIR + "n.zyc").c_str());
    if (!g) return 0;
    VectorDouble v = g->getColumnByColIdx(g->getColumnNumber() - 1);
    fprintf(stderr, "   n: values ");
    for (auto x: v) fprintf(stderr, "%lg ", x);
    fprintf(stderr, "\n");
    return 1;
  });
  run("o. Vario NF with Calculation Flag 0", []() {
    spit(DIR + "o.nf", "Vario\n2\n1\n1\n0\n0\n1\n4\n0 0\n0.1\n0.5\n0\n45\n1 0\n");
    Vario* v = Vario::createFromNF(DIR + "o.nf", false);
    if (!v) return 0;
    fprintf(stderr, "   o: ndir=%d npas=%d\n", v->getDirectionNumber(), v->getLagNumber(0));
    VectorDouble g = v->getGgVec(0, 0, 0);
    fprintf(stderr, "   o: gg size %d\n", (int)g.size());
    double x = v->getGg(0, 0, 0, 2);
    fprintf(stderr, "   o: gg(2)=%lg\n", x);
    (void)v->toString();
    return v->dumpToNF(DIR + "o.out") ? 1 : 4;
  });
  run("p. file name with a parenthesis (wordexp)", []() {
    Db* d = Db::createFromNF(DIR + "a(b.nf", false);
    return d ? 1 : 0;
  });
  run("q. Db NF: unknown-but-rejected locator 'z' on unique locator 'sel2'", []() {
    spit(DIR + "q.nf", "Db\n2\n2\nx1 sel2\na b\n1 2\n3 4\n");
    Db* d = Db::createFromNF(DIR + "q.nf", false);
    if (!d) return 0;
    fprintf(stderr, "   q: ncol=%d nech=%d\n", d->getColumnNumber(), d->getSampleNumber());
    return 1;
  });
  run("r. Polygons NF announcing 30 000 000 elements, then end of file", []() {
    spit(DIR + "r.nf", "Polygon\n30000000\n");
    time_t t0 = time(nullptr);
    Polygons* p = Polygons::createFromNF(DIR + "r.nf", false);
    fprintf(stderr, "   r: %ld s for 3e7 announced elements (2e9 can be announced)\n", (long)(time(nullptr) - t0));
    return p ? 1 : 0;
  });
  return 0;
}
