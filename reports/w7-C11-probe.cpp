// probe: small experiments on the UNMODIFIED library (side observations)
#include "Matrix/MatrixFactory.hpp"
#include "Matrix/MatrixRectangular.hpp"
#include "Matrix/MatrixSquareGeneral.hpp"
#include "Matrix/MatrixSquareSymmetric.hpp"
#include "Matrix/MatrixSparse.hpp"
#include "Matrix/NF_Triplet.hpp"
#include "LinearOp/CholeskyDense.hpp"
#include "LinearOp/CholeskySparse.hpp"
#include "Basic/VectorHelper.hpp"
#include "Basic/VectorNumT.hpp"
#include "geoslib_define.h"

#include <cmath>
#include <cstdio>
#include <cstdlib>
#include <cstring>
#include <vector>

static void show(const char* title, const AMatrix& m)
{
  printf("%s (%d x %d):\n", title, m.getNRows(), m.getNCols());
  for (int i = 0; i < m.getNRows(); i++)
  {
    for (int j = 0; j < m.getNCols(); j++) printf(" %9.4f", m.getValue(i, j));
    printf("\n");
  }
}
static void showv(const char* title, const VectorDouble& v)
{
  printf("%s:", title);
  for (int i = 0; i < (int) v.size(); i++) printf(" %9.4f", v[i]);
  printf("\n");
}

int main(int argc, char* argv[])
{
  int which = (argc > 1) ? atoi(argv[1]) : 0;

  if (which == 1)
  {
    printf("P1: generic AMatrix::prodMatMatInPlace (dense 2x3) * (sparse 3x4)\n");
    MatrixRectangular X(2, 3);
    for (int i = 0; i < 2; i++) for (int j = 0; j < 3; j++) X.setValue(i, j, i + 2 * j + 1);
    NF_Triplet T;
    for (int i = 0; i < 3; i++) for (int j = 0; j < 4; j++) T.add(i, j, 1. + i - j);
    MatrixSparse* Y = MatrixSparse::createFromTriplet(T, 3, 4, 1);
    AMatrix* R = MatrixFactory::prodMatMat(&X, Y);
    if (R != nullptr) show("X*Y", *R); else printf("nullptr\n");
    printf("expected (0,0) = %g\n", X.getValue(0,0)*Y->getValue(0,0)+X.getValue(0,1)*Y->getValue(1,0)+X.getValue(0,2)*Y->getValue(2,0));
  }
  if (which == 2)
  {
    printf("P2: generic AMatrix::prodNormMatVecInPlace through the base class\n");
    MatrixSquareGeneral A(2);
    A.setValue(0, 0, 1.); A.setValue(0, 1, 2.); A.setValue(1, 0, 3.); A.setValue(1, 1, 4.);
    VectorDouble v = {1., 10.};
    MatrixSquareGeneral R1(2), R2(2);
    R1.prodNormMatVecInPlace(A, v, false);            // dense overload: A diag(v) t(A)
    AMatrix& base = R2;
    const AMatrix& Abase = A;
    base.prodNormMatVecInPlace(Abase, v, false);      // generic version
    show("dense overload A*diag(v)*t(A)", R1);
    show("generic version", R2);
  }
  if (which == 3)
  {
    printf("P3: MatrixFactory::prodMatMat(symmetric, sparse non symmetric)\n");
    MatrixSquareSymmetric S(2);
    S.setValue(0, 0, 1.); S.setValue(1, 0, 2.); S.setValue(1, 1, 3.);
    NF_Triplet T; T.add(0, 0, 1.); T.add(0, 1, 5.); T.add(1, 1, 1.);
    MatrixSparse* Y = MatrixSparse::createFromTriplet(T, 2, 2, 1);
    AMatrix* R = MatrixFactory::prodMatMat(&S, Y);
    show("S*Y", *R);
    printf("expected: [1 6; 2 13]\n");
    MatrixSquareGeneral G(2);
    G.setValue(0,0,1.); G.setValue(0,1,5.); G.setValue(1,0,0.); G.setValue(1,1,1.);
    AMatrix* R2 = MatrixFactory::prodMatMat(&S, &G);
    show("S*G (dense)", *R2);
    printf("isSymmetric-typed result: %d\n", (int) R2->mustBeSymmetric());
    R2->setValue(0, 1, 6.); // should be a no-op
    show("after setValue(0,1,6.)", *R2);
  }
  if (which == 4)
  {
    printf("P4: VH::minimum / maximum on VectorVectorDouble\n");
    VectorVectorDouble vv = {{1., 2.}, {-5., 3.}, {0., 4.}};
    printf("minimum = %g (expected -5)\n", VH::minimum(vv));
    printf("maximum = %g (expected 4)\n", VH::maximum(vv));
    VectorVectorDouble ww = {{-9., 2.}, {-5., 3.}};
    printf("maximum(flagAbs) = %g (expected 9)\n", VH::maximum(ww, true));
  }
  if (which == 5)
  {
    printf("P5: VH::maximum(vec, flagAbs, aux, mode)\n");
    VectorDouble vec = {1., 5., 2., 9.};
    VectorDouble aux = {3., 4., 1., 10.};
    printf("mode=1 (only where vec>aux: {5,2}) max = %g (expected 5)\n", VH::maximum(vec, false, aux, 1));
    printf("mode=-1 (only where vec<aux: {1,9}) max = %g (expected 9)\n", VH::maximum(vec, false, aux, -1));
    printf("mode=1 min = %g (expected 2)\n", VH::minimum(vec, false, aux, 1));
  }
  if (which == 6)
  {
    printf("P6: CholeskyDense::setMatrix after getLowerTriangle\n");
    MatrixSquareSymmetric A(2), B(2);
    A.setValue(0,0,4.); A.setValue(1,0,2.); A.setValue(1,1,5.);
    B.setValue(0,0,9.); B.setValue(1,0,3.); B.setValue(1,1,17.);
    CholeskyDense chol(&A);
    printf("L(A)(0,0)=%g (expected 2)\n", chol.getLowerTriangle(0,0));
    chol.setMatrix(&B);
    printf("L(B)(0,0)=%g (expected 3)  logdet=%g (expected %g)\n", chol.getLowerTriangle(0,0),
           chol.computeLogDeterminant(), log(9.*17.-9.));
  }
  if (which == 7)
  {
    printf("P7: CholeskySparse::setMatrix\n");
    for (int backend = 1; backend >= 0; backend--)
    {
      NF_Triplet TA; TA.add(0,0,4.); TA.add(1,1,5.);
      NF_Triplet TB; TB.add(0,0,9.); TB.add(1,1,16.);
      MatrixSparse* A = MatrixSparse::createFromTriplet(TA, 2, 2, backend);
      MatrixSparse* B = MatrixSparse::createFromTriplet(TB, 2, 2, backend);
      CholeskySparse chol(A);
      printf("backend %d logdet(A)=%g (expected %g)\n", backend, chol.computeLogDeterminant(), log(20.));
      chol.setMatrix(B);
      printf("backend %d logdet(B)=%g (expected %g)\n", backend, chol.computeLogDeterminant(), log(144.));
    }
  }
  if (which == 8)
  {
    printf("P8: copy of a CholeskySparse\n");
    NF_Triplet TA; TA.add(0,0,4.); TA.add(1,1,5.);
    MatrixSparse* A = MatrixSparse::createFromTriplet(TA, 2, 2, 1);
    CholeskySparse chol(A);
    CholeskySparse copy(chol);
    printf("copy ready = %d\n", (int) copy.isReady());
    fflush(stdout);
    printf("logdet(copy)=%g\n", copy.computeLogDeterminant());
  }
  if (which == 9)
  {
    printf("P9: transposition of a non-square sparse matrix\n");
    for (int backend = 1; backend >= 0; backend--)
    {
      NF_Triplet T; T.add(0,0,1.); T.add(0,2,2.); T.add(1,1,3.); T.add(1,2,4.);
      MatrixSparse* A = MatrixSparse::createFromTriplet(T, 2, 3, backend);
      MatrixSparse* At = A->transpose();
      printf("backend %d: transpose() gives %d x %d (expected 3 x 2)\n", backend, At->getNRows(), At->getNCols());
      A->transposeInPlace();
      printf("backend %d: transposeInPlace() gives %d x %d (expected 3 x 2)\n", backend, A->getNRows(), A->getNCols());
    }
  }
  if (which == 10)
  {
    printf("P10: MatrixSparse::prodVecMat on a 2x3 matrix\n");
    for (int backend = 1; backend >= 0; backend--)
    {
      NF_Triplet T; T.add(0,0,1.); T.add(0,2,2.); T.add(1,1,3.); T.add(1,2,4.);
      MatrixSparse* A = MatrixSparse::createFromTriplet(T, 2, 3, backend);
      VectorDouble x2 = {1., 1.};
      VectorDouble y = A->prodVecMat(x2, false);
      printf("backend %d x*A: size %d (expected 3):", backend, (int) y.size()); showv("", y);
      VectorDouble x3 = {1., 1., 1.};
      VectorDouble z = A->prodVecMat(x3, true);
      printf("backend %d x*t(A): size %d (expected 2: 3 7):", backend, (int) z.size()); showv("", z);
    }
  }
  if (which == 11)
  {
    printf("P11: MatrixSparse::prodVecMatInPlace transposed (Eigen back-end)\n");
    NF_Triplet T; T.add(0,0,1.); T.add(0,1,2.); T.add(1,0,3.); T.add(1,1,4.);
    MatrixSparse* A = MatrixSparse::createFromTriplet(T, 2, 2, 1);
    VectorDouble x = {1., 10.};
    VectorDouble y(2, 0.);
    A->prodVecMatInPlace(x, y, true);
    showv("x*t(A) (expected 21 43)", y);
    MatrixSparse* B = MatrixSparse::createFromTriplet(T, 2, 2, 0);
    VectorDouble y2(2, 0.);
    B->prodVecMatInPlace(x, y2, true);
    showv("cs: x*t(A) (expected 21 43)", y2);
  }
  if (which == 12)
  {
    printf("P12: dense -> sparse conversion when the last row/column is zero\n");
    MatrixRectangular D(3, 3);
    D.setValue(0, 0, 1.); D.setValue(1, 0, 2.);
    MatrixSparse* S = createFromAnyMatrix(&D);
    printf("sparse copy is %d x %d (expected 3 x 3)\n", S->getNRows(), S->getNCols());
  }
  if (which == 13)
  {
    printf("P13: setColumn / setRow on a symmetric matrix\n");
    MatrixSquareSymmetric S(3);
    S.setColumn(0, VectorDouble({1., 2., 3.}));
    show("after setColumn(0,{1,2,3})", S);
    printf("isSymmetric = %d\n", (int) S.isSymmetric());
  }
  if (which == 14)
  {
    printf("P14: setDiagonal on the different storages\n");
    MatrixSquareGeneral G(2); G.fill(7.);
    G.setDiagonal(VectorDouble({1., 2.}));
    show("dense", G);
    for (int backend = 1; backend >= 0; backend--)
    {
      NF_Triplet T; T.add(0,0,7.); T.add(0,1,7.); T.add(1,0,7.); T.add(1,1,7.);
      MatrixSparse* A = MatrixSparse::createFromTriplet(T, 2, 2, backend);
      A->setDiagonal(VectorDouble({1., 2.}));
      show(backend ? "sparse Eigen" : "sparse cs", *A);
    }
  }
  if (which == 15)
  {
    printf("P15: scaleByDiag / addScalarDiag on both sparse back-ends\n");
    for (int backend = 1; backend >= 0; backend--)
    {
      NF_Triplet T; T.add(0,0,4.); T.add(0,1,2.); T.add(1,0,2.); T.add(1,1,9.);
      MatrixSparse* A = MatrixSparse::createFromTriplet(T, 2, 2, backend);
      A->scaleByDiag();
      show(backend ? "scaleByDiag Eigen" : "scaleByDiag cs", *A);
      NF_Triplet T2; T2.add(0,0,4.); T2.add(0,1,2.); T2.add(1,0,2.);
      MatrixSparse* B = MatrixSparse::createFromTriplet(T2, 2, 2, backend);
      B->addScalarDiag(1.);
      show(backend ? "addScalarDiag(1) Eigen" : "addScalarDiag(1) cs", *B);
    }
  }
  if (which == 16)
  {
    printf("P16: setValue on an entry absent from the pattern\n");
    for (int backend = 1; backend >= 0; backend--)
    {
      NF_Triplet T; T.add(0,0,4.); T.add(1,1,9.);
      MatrixSparse* A = MatrixSparse::createFromTriplet(T, 2, 2, backend);
      A->setValue(0, 1, 5.);
      printf("backend %d: A(0,1) = %g (expected 5)\n", backend, A->getValue(0,1));
    }
  }
  if (which == 17)
  {
    printf("P17: CholeskyDense of a non positive definite matrix\n");
    MatrixSquareSymmetric A(2);
    A.setValue(0,0,1.); A.setValue(1,0,2.); A.setValue(1,1,1.);
    CholeskyDense chol(&A);
    printf("ready=%d logdet=%g\n", (int) chol.isReady(), chol.computeLogDeterminant());
    std::vector<double> b = {1., 1.}, x(2, 0.);
    int err = chol.solve(constvect(b.data(), 2), vect(x.data(), 2));
    printf("solve err=%d x=%g %g\n", err, x[0], x[1]);
  }
  if (which == 18)
  {
    printf("P18: VectorNumT::isSame\n");
    VectorDouble a = {0.}, b = {0.5};
    printf("isSame({0},{0.5},1e-10) = %d (expected 0)\n", (int) a.isSame(b, 1.e-10));
  }
  if (which == 19)
  {
    printf("P19: byCol of createFromVD vs resetFromVD\n");
    VectorDouble v = {1., 2., 3., 4., 5., 6.};
    MatrixRectangular* A = MatrixRectangular::createFromVD(v, 2, 3, true);
    MatrixRectangular B; B.resetFromVD(2, 3, v, true);
    show("createFromVD(byCol=true)", *A);
    show("resetFromVD(byCol=true)", B);
  }
  if (which == 20)
  {
    printf("P20: CholeskySparse LX with cs back-end\n");
    NF_Triplet TA; TA.add(0,0,4.); TA.add(1,1,9.);
    MatrixSparse* A = MatrixSparse::createFromTriplet(TA, 2, 2, 0);
    CholeskySparse chol(A);
    std::vector<double> b = {1., 1.}, x(2, 0.);
    int err = chol.LX(constvect(b.data(), 2), vect(x.data(), 2));
    printf("err=%d x=%g %g (expected 2 3)\n", err, x[0], x[1]);
  }
  if (which == 21)
  {
    printf("P21: arrangeInPlace(int values) with size\n");
    VectorInt ranks = {0, 1, 2, 3, 4};
    VectorInt values = {5, 3, 4, 1, 0};
    VH::arrangeInPlace(0, ranks, values, true, 3);
    printf("sizes after partial arrange: ranks %d values %d (expected 5 5)\n", (int) ranks.size(), (int) values.size());
  }
  if (which == 22)
  {
    printf("P22: prodMatMat of two cs-backend sparse matrices (global flag Eigen = true)\n");
    NF_Triplet T; T.add(0,0,1.); T.add(0,1,2.); T.add(1,0,3.); T.add(1,1,4.);
    MatrixSparse* A = MatrixSparse::createFromTriplet(T, 2, 2, 0);
    AMatrix* R = MatrixFactory::prodMatMat(A, A);
    show("A*A (expected 7 10; 15 22)", *R);
  }
  if (which == 23)
  {
    printf("P23: prodMatInPlace (this = this * Y) dense\n");
    MatrixSquareGeneral A(2), Y(2);
    A.setValue(0,0,1.); A.setValue(0,1,2.); A.setValue(1,0,3.); A.setValue(1,1,4.);
    Y.setValue(0,0,0.); Y.setValue(0,1,1.); Y.setValue(1,0,1.); Y.setValue(1,1,1.);
    A.prodMatInPlace(&Y);
    show("A*Y (expected 2 3; 4 7)", A);
  }
  if (which == 24)
  {
    printf("P24: addScalar / prodScalar with tiny arguments\n");
    MatrixSquareGeneral A(1); A.setValue(0,0,0.);
    A.addScalarDiag(1.e-11);
    printf("0 + 1e-11 on diagonal = %g\n", A.getValue(0,0));
    MatrixRectangular B(1,1);
    AMatrix& bb = B;
    bb.addScalar(1.e-11);
    printf("dense addScalar(1e-11) = %g\n", B.getValue(0,0));
    NF_Triplet T; T.add(0,0,1.);
    MatrixSparse* S = MatrixSparse::createFromTriplet(T, 1, 1, 1);
    S->prodScalar(1. + 1.e-11);
    printf("sparse 1*(1+1e-11) - 1 = %g\n", S->getValue(0,0) - 1.);
    S->addValue(0, 0, 1.e-11);
    printf("sparse addValue(1e-11): delta = %g\n", S->getValue(0,0) - 1.);
  }
  if (which == 25)
  {
    printf("P25: innerMatrix with non square r1, r2\n");
    printf("P25b: VH::isSorted with ties: %d\n", (int) VH::isSorted(VectorDouble({1., 1., 2.}), true));
    VectorDouble red = VH::reduce(VectorDouble({1., 2., 3., 4.}), VectorInt({1, 1}));
    showv("reduce({1,2,3,4},{1,1})", red);
  }
  if (which == 26)
  {
    printf("P26: matProductInPlace modes 4/5 vs 2/3\n");
    MatrixSquareSymmetric A(2);
    A.setValue(0,0,4.); A.setValue(1,0,2.); A.setValue(1,1,5.);
    CholeskyDense chol(&A);
    MatrixRectangular a(2, 2), x2, x4;
    a.setValue(0,0,1.); a.setValue(0,1,2.); a.setValue(1,0,3.); a.setValue(1,1,4.);
    chol.matProductInPlace(2, a, x2);
    chol.matProductInPlace(4, a, x4);
    show("mode 2: A*TU", x2);
    show("mode 4: t(A)*TU", x4);
  }
  if (which == 27)
  {
    printf("P27: eigen values after modification of the matrix\n");
    MatrixSquareSymmetric A(2);
    A.setValue(0,0,2.); A.setValue(1,0,0.); A.setValue(1,1,1.);
    A.computeEigen();
    showv("eigen values", A.getEigenValues());
    A.setValue(0,0,5.);
    showv("eigen values after setValue(0,0,5) without recompute", A.getEigenValues());
    MatrixSquareSymmetric B(A);
    showv("eigen values of a copy", B.getEigenValues());
  }
  if (which == 28)
  {
    printf("P28: MatrixSparse addMatMat / glue / sampling on back-ends\n");
    NF_Triplet T; T.add(0,0,1.); T.add(0,1,2.); T.add(1,0,3.); T.add(1,1,4.);
    MatrixSparse* A = MatrixSparse::createFromTriplet(T, 2, 2, 0);
    VectorInt rr = {0, -1};
    MatrixSparse* sub = A->extractSubmatrixByRanks(rr, rr);
    printf("cs matrix -> extractSubmatrixByRanks gives flagEigen=%d\n", (int) sub->isFlagEigen());
  }
  return 0;
}
