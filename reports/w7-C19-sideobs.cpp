// Side observations on the UNMODIFIED library (each block prints what changed in the data bases)
// Run with:  ./sideobs 2>&1 | grep -v "^Error in"
// Small helper: snapshot of a Db (names, roles, values) and comparison
#include "Db/Db.hpp"
#include "Db/DbGrid.hpp"
#include <cmath>
#include <cstring>
#include <iostream>
#include <sstream>
#include <string>
#include <vector>

struct Snap
{
  int ncol = 0;
  int nech = 0;
  std::vector<std::string> names;
  std::vector<std::string> roles;
  std::vector<std::vector<double>> vals;
};

static Snap takeSnap(const Db* db)
{
  Snap s;
  s.ncol = db->getColumnNumber();
  s.nech = db->getSampleNumber();
  for (int icol = 0; icol < s.ncol; icol++)
  {
    s.names.push_back(db->getNameByColIdx(icol));
    ELoc type;
    int item = -1;
    std::ostringstream r;
    if (db->getLocatorByColIdx(icol, &type, &item))
      r << type.getKey() << "#" << item;
    else
      r << "-";
    s.roles.push_back(r.str());
    VectorDouble v = db->getColumnByColIdx(icol, false, false);
    s.vals.push_back(std::vector<double>(v.begin(), v.end()));
  }
  return s;
}

static bool sameValue(double a, double b)
{
  return std::memcmp(&a, &b, sizeof(double)) == 0 || a == b || (std::isnan(a) && std::isnan(b));
}

// Compare the 'ncol' first columns of 'after' with 'before'; returns number of differences
static int cmpSnap(const char* title, const Snap& before, const Snap& after, int extraAllowed, std::ostream& os)
{
  int ndiff = 0;
  if (after.nech != before.nech)
  {
    os << title << ": number of samples " << before.nech << " -> " << after.nech << "\n";
    ndiff++;
  }
  if (after.ncol != before.ncol + extraAllowed)
  {
    os << title << ": number of columns " << before.ncol << " -> " << after.ncol
       << " (expected " << before.ncol + extraAllowed << ")\n";
    ndiff++;
  }
  int n = std::min(before.ncol, after.ncol);
  for (int i = 0; i < n; i++)
  {
    if (before.names[i] != after.names[i])
    {
      os << title << ": column " << i << " name '" << before.names[i] << "' -> '" << after.names[i] << "'\n";
      ndiff++;
    }
    if (before.roles[i] != after.roles[i])
    {
      os << title << ": column " << i << " (" << before.names[i] << ") role " << before.roles[i] << " -> " << after.roles[i] << "\n";
      ndiff++;
    }
    int nv = 0;
    for (size_t k = 0; k < before.vals[i].size() && k < after.vals[i].size(); k++)
      if (!sameValue(before.vals[i][k], after.vals[i][k])) nv++;
    if (nv > 0)
    {
      os << title << ": column " << i << " (" << before.names[i] << ") " << nv << " value(s) changed\n";
      ndiff++;
    }
  }
  for (int i = n; i < after.ncol; i++)
    os << title << ":   [extra column " << i << " '" << after.names[i] << "' role " << after.roles[i] << "]\n";
  return ndiff;
}
#include "geoslib_f.h"
#include "Model/Model.hpp"
#include "Drifts/DriftF.hpp"
#include "Drifts/DriftM.hpp"
#include "Neigh/NeighUnique.hpp"
#include "Neigh/NeighMoving.hpp"
#include "Estimation/CalcKriging.hpp"
#include "Simulation/CalcSimuTurningBands.hpp"
#include "Simulation/CalcSimuPartition.hpp"
#include "Simulation/SimuPartitionParam.hpp"
#include "Simulation/CalcSimuFFT.hpp"
#include "Simulation/SimuFFTParam.hpp"
#include "Calculators/CalcStatistics.hpp"
#include "Calculators/CalcMigrate.hpp"
#include "Basic/Law.hpp"
#include "Basic/VectorHelper.hpp"

static Db* makeData(int nech, int nvar, int seed)
{
  law_set_random_seed(seed);
  VectorDouble tab = VH::simulateUniform(2 * nech, 0., 10.);
  for (int iv = 0; iv < nvar; iv++)
  {
    VectorDouble v = VH::simulateGaussian(nech);
    tab.insert(tab.end(), v.begin(), v.end());
  }
  VectorString names = {"x1", "x2"};
  VectorString locs  = {"x1", "x2"};
  for (int iv = 0; iv < nvar; iv++)
  {
    names.push_back("z" + std::to_string(iv + 1));
    locs.push_back("z" + std::to_string(iv + 1));
  }
  return Db::createFromSamples(nech, ELoadBy::COLUMN, tab, names, locs);
}

int main()
{
  // ------------------------------------------------------------------
  std::cout << "=== OBS1: kriging with external drift, dbin has no F\n";
  {
    Db* data = makeData(20, 1, 123);
    DbGrid* grid = DbGrid::create({6, 5}, {2., 2.}, {0., 0.});
    VectorDouble f(grid->getSampleNumber());
    for (int i = 0; i < (int) f.size(); i++) f[i] = grid->getCoordinate(i, 0) + 0.3 * grid->getCoordinate(i, 1);
    grid->addColumns(f, "drift", ELoc::F);
    Model* model = Model::createFromParam(ECov::SPHERICAL, 5., 1.);
    DriftM d0;
    DriftF d1(0);
    model->addDrift(&d0);
    model->addDrift(&d1);
    NeighUnique* neigh = NeighUnique::create();
    Snap b1 = takeSnap(data), b2 = takeSnap(grid);
    int err = kriging(data, grid, model, neigh);
    std::cout << "kriging returns " << err << "\n";
    cmpSnap("dbin ", b1, takeSnap(data), 0, std::cout);
    cmpSnap("dbout", b2, takeSnap(grid), 2, std::cout);
  }

  // ------------------------------------------------------------------
  std::cout << "=== OBS2: krigsum failing\n";
  {
    Db* data = makeData(20, 2, 123);
    DbGrid* grid = DbGrid::create({6, 5}, {2., 2.}, {0., 0.});
    VectorDouble s(grid->getSampleNumber(), 1.);
    grid->addColumns(s, "sum", ELoc::SUM);
    Model* model = Model::createFromParam(ECov::SPHERICAL, 5., 1.);
    NeighMoving* neigh = NeighMoving::create(false, 5, 0.001); // tiny radius
    Snap b1 = takeSnap(data), b2 = takeSnap(grid);
    int err = krigsum(data, grid, model, neigh);
    std::cout << "krigsum returns " << err << "\n";
    cmpSnap("dbin ", b1, takeSnap(data), 0, std::cout);
    cmpSnap("dbout", b2, takeSnap(grid), 0, std::cout);
  }

  // ------------------------------------------------------------------
  std::cout << "=== OBS3: tessellation_poisson on a grid where a column was deleted before\n";
  {
    DbGrid* grid = DbGrid::create({20, 20}, {1., 1.}, {0., 0.});
    grid->addColumnsByConstant(1, 1., "A");
    grid->addColumnsByConstant(1, 2., "B");
    grid->deleteColumn("A");
    Model* model = Model::createFromParam(ECov::SPHERICAL, 5., 1.);
    SimuPartitionParam parparam(100, 0.5);
    Snap b2 = takeSnap(grid);
    int err = tessellation_poisson(grid, model, parparam, 1234, 0);
    std::cout << "tessellation_poisson returns " << err << "\n";
    cmpSnap("dbout", b2, takeSnap(grid), 1, std::cout);
  }
  std::cout << "=== OBS3b: tessellation_poisson failing (no plane)\n";
  {
    DbGrid* grid = DbGrid::create({20, 20}, {1., 1.}, {0., 0.});
    Model* model = Model::createFromParam(ECov::SPHERICAL, 5., 1.);
    SimuPartitionParam parparam(100, 1.e-8);
    Snap b2 = takeSnap(grid);
    int err = tessellation_poisson(grid, model, parparam, 1234, 0);
    std::cout << "tessellation_poisson returns " << err << "\n";
    cmpSnap("dbout", b2, takeSnap(grid), 0, std::cout);
  }

  // ------------------------------------------------------------------
  std::cout << "=== OBS4: CalcKriging object reused: success then failure\n";
  {
    Db* data = makeData(20, 1, 123);
    DbGrid* grid = DbGrid::create({6, 5}, {2., 2.}, {0., 0.});
    Model* model = Model::createFromParam(ECov::SPHERICAL, 5., 1.);
    NeighUnique* neigh = NeighUnique::create();
    CalcKriging krige(true, true, false);
    krige.setDbin(data);
    krige.setDbout(grid);
    krige.setModel(model);
    krige.setNeigh(neigh);
    bool ok1 = krige.run();
    Snap b2 = takeSnap(grid);
    krige.setCalcul(EKrigOpt::BLOCK); // block without discretization: refused
    bool ok2 = krige.run();
    std::cout << "run1=" << ok1 << " run2=" << ok2 << "\n";
    cmpSnap("dbout", b2, takeSnap(grid), 0, std::cout);
  }

  // ------------------------------------------------------------------
  std::cout << "=== OBS5: migrate of an unknown variable\n";
  {
    Db* data = makeData(20, 1, 123);
    DbGrid* grid = DbGrid::create({6, 5}, {2., 2.}, {0., 0.});
    Snap b1 = takeSnap(data), b2 = takeSnap(grid);
    int err = migrate(data, grid, "nonexistent");
    std::cout << "migrate returns " << err << "\n";
    cmpSnap("dbin ", b1, takeSnap(data), 0, std::cout);
    cmpSnap("dbout", b2, takeSnap(grid), 0, std::cout);
  }

  // ------------------------------------------------------------------
  std::cout << "=== OBS6: addSelectionFromDbByMorpho changes roles of the grid\n";
  {
    Db* data = makeData(50, 1, 123);
    DbGrid* grid = DbGrid::create({10, 10}, {1., 1.}, {0., 0.});
    grid->addColumnsByConstant(1, 5., "myZ", ELoc::Z);
    Snap b2 = takeSnap(grid);
    int err = grid->addSelectionFromDbByMorpho(data, 0, 0, 0, {1, 1});
    std::cout << "returns " << err << "\n";
    cmpSnap("grid", b2, takeSnap(grid), 1, std::cout);
  }

  // ------------------------------------------------------------------
  std::cout << "=== OBS7: conditional simtub into a grid that already holds variables with the SIMU role\n";
  {
    Db* data = makeData(20, 1, 123);
    DbGrid* grid = DbGrid::create({6, 5}, {2., 2.}, {0., 0.});
    grid->addColumnsByConstant(2, 7., "oldsim", ELoc::SIMU);
    Model* model = Model::createFromParam(ECov::LINEAR, 5., 1.);
    NeighUnique* neigh = NeighUnique::create();
    Snap b1 = takeSnap(data), b2 = takeSnap(grid);
    int err = simtub(data, grid, model, neigh, 1, 4321, 50);
    std::cout << "simtub returns " << err << "\n";
    cmpSnap("dbin ", b1, takeSnap(data), 0, std::cout);
    cmpSnap("dbout", b2, takeSnap(grid), 0, std::cout);
  }

  // ------------------------------------------------------------------
  std::cout << "=== OBS8: declustering (method 3) with an external drift model, data without drift variable\n";
  {
    Db* data = makeData(25, 1, 123);
    DbGrid* grid = DbGrid::create({5, 5}, {2., 2.}, {1., 1.});
    VectorDouble f(grid->getSampleNumber());
    for (int i = 0; i < (int) f.size(); i++) f[i] = grid->getCoordinate(i, 0) + 0.3 * grid->getCoordinate(i, 1);
    grid->addColumns(f, "drift", ELoc::F);
    Model* model = Model::createFromParam(ECov::SPHERICAL, 5., 1.);
    DriftM d0;
    DriftF d1(0);
    model->addDrift(&d0);
    model->addDrift(&d1);
    NeighUnique* neigh = NeighUnique::create();
    Snap b1 = takeSnap(data), b2 = takeSnap(grid);
    int err = declustering(data, model, 3, neigh, grid, VectorDouble(), {2, 2});
    std::cout << "declustering returns " << err << "\n";
    cmpSnap("data", b1, takeSnap(data), 1, std::cout);
    cmpSnap("grid", b2, takeSnap(grid), 0, std::cout);
  }

  // ------------------------------------------------------------------
  std::cout << "=== OBS9: simfft with nbsimu=2\n";
  {
    DbGrid* grid = DbGrid::create({16, 16}, {1., 1.}, {0., 0.});
    Model* model = Model::createFromParam(ECov::SPHERICAL, 5., 1.);
    SimuFFTParam param;
    Snap bg = takeSnap(grid);
    int err = simfft(grid, model, param, 2);
    std::cout << "simfft returns " << err << "\n";
    cmpSnap("grid", bg, takeSnap(grid), 2, std::cout);
  }
  return 0;
}
