// Side observations on the unmodified tree (several independent checks)
#include "Db/Db.hpp"
#include "Db/DbGrid.hpp"
#include "Model/Model.hpp"
#include "Neigh/NeighUnique.hpp"
#include "Neigh/NeighMoving.hpp"
#include "Estimation/CalcKriging.hpp"
#include "Estimation/CalcGlobal.hpp"
#include "Estimation/CalcSimpleInterpolation.hpp"
#include "Calculators/CalcStatistics.hpp"
#include "Simulation/CalcSimuTurningBands.hpp"
#include "Variogram/Vario.hpp"
#include "Variogram/VarioParam.hpp"
#include "Basic/GlobalEnvironment.hpp"
#include "Basic/VectorHelper.hpp"
#include "Stats/Classical.hpp"
#include "geoslib_f.h"

#include <cmath>
#include <cstdio>

static Db* buildDb(const VectorDouble& x, const VectorDouble& y, const VectorDouble& z,
                   const VectorDouble& sel = VectorDouble())
{
  Db* db = Db::create();
  db->addColumns(x, "x", ELoc::X, 0);
  db->addColumns(y, "y", ELoc::X, 1);
  db->addColumns(z, "z", ELoc::Z, 0);
  if (!sel.empty()) db->addColumns(sel, "sel", ELoc::SEL, 0);
  return db;
}

static void makeData(int n, VectorDouble& x, VectorDouble& y, VectorDouble& z)
{
  x.resize(n); y.resize(n); z.resize(n);
  for (int i = 0; i < n; i++)
  {
    x[i] = 10. * fmod(0.37 * i + 0.11, 1.);
    y[i] = 10. * fmod(0.61 * i + 0.29, 1.);
    z[i] = 3. + sin(0.9 * i) + 0.15 * i;
  }
}

static void removeOne(int k, const VectorDouble& v, VectorDouble& r)
{
  r.clear();
  for (int i = 0; i < (int)v.size(); i++)
    if (i != k) r.push_back(v[i]);
}

// S1: declustering (method 1) with an active sample whose value is undefined
static void s1()
{
  printf("\n--- S1: declustering(method=1), one active sample with undefined value\n");
  VectorDouble x, y, z; makeData(10, x, y, z);
  int k = 3;
  VectorDouble zu = z; zu[k] = TEST;
  Db* dbU = buildDb(x, y, zu);
  VectorDouble xr, yr, zr; removeOne(k, x, xr); removeOne(k, y, yr); removeOne(k, z, zr);
  Db* dbR = buildDb(xr, yr, zr);
  declustering(dbU, nullptr, 1, nullptr, nullptr, {4., 4.});
  declustering(dbR, nullptr, 1, nullptr, nullptr, {4., 4.});
  VectorDouble wU = dbU->getColumnByUID(dbU->getLastUID());
  VectorDouble wR = dbR->getColumnByUID(dbR->getLastUID());
  int jr = 0; int ndiff = 0;
  for (int i = 0; i < 10; i++)
  {
    if (i == k) { printf("  sample %d (undefined): weight=%g\n", i, wU[i]); continue; }
    if (std::abs(wU[i] - wR[jr]) > 1.e-10) { ndiff++; printf("  sample %d: weight %.6f vs %.6f after removal\n", i, wU[i], wR[jr]); }
    jr++;
  }
  printf("  => %d weights differ\n", ndiff);
  delete dbU; delete dbR;
}

// S2: global_arithmetic with an active sample whose value is undefined
static void s2()
{
  printf("\n--- S2: global_arithmetic, one active sample with undefined value\n");
  VectorDouble x, y, z; makeData(10, x, y, z);
  int k = 3;
  VectorDouble zu = z; zu[k] = TEST;
  Db* dbU = buildDb(x, y, zu);
  VectorDouble xr, yr, zr; removeOne(k, x, xr); removeOne(k, y, yr); removeOne(k, z, zr);
  Db* dbR = buildDb(xr, yr, zr);
  DbGrid* grid = DbGrid::create({5, 5}, {2., 2.}, {1., 1.});
  Model* model = Model::createFromParam(ECov::SPHERICAL, 6., 2.);
  Global_Result gU = global_arithmetic(dbU, grid, model, 0, false);
  Global_Result gR = global_arithmetic(dbR, grid, model, 0, false);
  printf("  with undefined sample: np=%d zest=%.6f sse=%.6f cvgeo=%.6f nweights=%d\n", gU.np, gU.zest, gU.sse, gU.cvgeo, (int)gU.weights.size());
  printf("  sample removed       : np=%d zest=%.6f sse=%.6f cvgeo=%.6f nweights=%d\n", gR.np, gR.zest, gR.sse, gR.cvgeo, (int)gR.weights.size());
  delete dbU; delete dbR; delete grid; delete model;
}

// S3: statisticsBySample: masked samples
static void s3()
{
  printf("\n--- S3: Db::statisticsBySample, masked samples in the new variable\n");
  VectorDouble x, y, z; makeData(6, x, y, z);
  VectorDouble sel = {1, 0, 1, 1, 0, 1};
  Db* db = buildDb(x, y, z, sel);
  db->statisticsBySample({"x", "y", "z"});
  VectorDouble v = db->getColumnByUID(db->getLastUID());
  for (int i = 0; i < 6; i++) printf("  sample %d sel=%g stat=%g%s\n", i, sel[i], v[i], FFFF(v[i]) ? " (undefined)" : "");
  delete db;
}

// S4: simtub on a grid with masked nodes
static void s4()
{
  printf("\n--- S4: simtub (non conditional) on a grid with masked nodes\n");
  DbGrid* grid = DbGrid::create({4, 4}, {1., 1.}, {0., 0.});
  VectorDouble sel(16, 1.); sel[5] = 0.; sel[10] = 0.;
  grid->addColumns(sel, "sel", ELoc::SEL, 0);
  Model* model = Model::createFromParam(ECov::CUBIC, 5., 1.5);
  simtub(nullptr, grid, model, nullptr, 1, 5432, 50);
  VectorDouble s = grid->getColumnByUID(grid->getLastUID());
  printf("  masked node 5: %g ; masked node 10: %g ; active node 6: %g\n", s[5], s[10], s[6]);
  delete grid; delete model;
}

// S5: xvalid in unique neighborhood, a sample with an undefined coordinate
static void s5()
{
  printf("\n--- S5: xvalid (Unique Neighborhood), one active sample with undefined coordinate\n");
  VectorDouble x, y, z; makeData(10, x, y, z);
  int k = 2;
  VectorDouble xu = x; xu[k] = TEST;
  Db* dbU = buildDb(xu, y, z);
  VectorDouble xr, yr, zr; removeOne(k, x, xr); removeOne(k, y, yr); removeOne(k, z, zr);
  Db* dbR = buildDb(xr, yr, zr);
  Model* model = Model::createFromParam(ECov::SPHERICAL, 6., 2.);
  model->setMean(3.5);
  NeighUnique* neighU = NeighUnique::create();
  int e1 = xvalid(dbU, model, neighU, false, 1, 1);
  int e2 = xvalid(dbR, model, neighU, false, 1, 1);
  printf("  error codes: %d %d\n", e1, e2);
  VectorDouble eU = dbU->getColumn("Xvalid.z.esterr");
  VectorDouble eR = dbR->getColumn("Xvalid.z.esterr");
  int jr = 0;
  for (int i = 0; i < 10 && !eU.empty(); i++)
  {
    if (i == k) { printf("  sample %d (undefined coordinate): esterr=%g\n", i, eU[i]); continue; }
    printf("  sample %d: esterr %.6f vs %.6f after removal%s\n", i, eU[i], eR[jr], std::abs(eU[i] - eR[jr]) > 1e-8 ? "   <== differs" : "");
    jr++;
  }
  delete dbU; delete dbR; delete model; delete neighU;
}

// S6: variogram and Domain
static void s6()
{
  printf("\n--- S6: experimental variogram with a Domain (no selection)\n");
  VectorDouble x, y, z; makeData(12, x, y, z);
  VectorDouble dom(12, 1.); dom[3] = 2.; dom[7] = 2.; dom[8] = 2.;
  Db* dbD = buildDb(x, y, z);
  dbD->addColumns(dom, "dom", ELoc::DOM, 0);
  GlobalEnvironment::getEnv()->setDomainReference(2);
  VectorDouble xr, yr, zr;
  int nact = 0;
  for (int i = 0; i < 12; i++)
  {
    if (!dbD->isActive(i)) continue;
    nact++;
    xr.push_back(x[i]); yr.push_back(y[i]); zr.push_back(z[i]);
  }
  printf("  number of samples declared active by Db::isActive: %d / 12\n", nact);
  Db* dbR = buildDb(xr, yr, zr);
  VarioParam* vp = VarioParam::createOmniDirection(4, 2., 0.5);
  Vario* vD = Vario::computeFromDb(*vp, dbD);
  Vario* vR = Vario::computeFromDb(*vp, dbR);
  for (int ip = 0; ip < 4; ip++)
    printf("  lag %d: sw=%g gg=%.6f  | inactive samples removed: sw=%g gg=%.6f\n", ip,
           vD->getSw(0, 0, 0, ip), vD->getGg(0, 0, 0, ip), vR->getSw(0, 0, 0, ip), vR->getGg(0, 0, 0, ip));
  printf("  variance: %g vs %g\n", vD->getVar(0, 0), vR->getVar(0, 0));
  GlobalEnvironment::getEnv()->setDomainReference(0);
  delete vD; delete vR; delete vp; delete dbD; delete dbR;
}

// S7: inverse distance from an input grid with masked nodes
static void s7()
{
  printf("\n--- S7: inverseDistance from an input grid holding a masked node\n");
  DbGrid* gin = DbGrid::create({3, 3}, {1., 1.}, {0., 0.});
  VectorDouble z = {1., 1., 1., 1., 100., 1., 1., 1., 1.};
  gin->addColumns(z, "z", ELoc::Z, 0);
  VectorDouble sel(9, 1.); sel[4] = 0.;
  gin->addColumns(sel, "sel", ELoc::SEL, 0);
  Db* out = buildDb({0.5}, {0.5}, {0.});
  out->clearLocators(ELoc::Z);
  inverseDistance(gin, out);
  printf("  estimate at (0.5,0.5) = %g (the masked node holds 100, the others 1)\n", out->getColumnByUID(out->getLastUID())[0]);
  delete gin; delete out;
}

// S8: dbStatisticsOnGrid and masked cells
static void s8()
{
  printf("\n--- S8: dbStatisticsOnGrid, masked cells of the output grid\n");
  VectorDouble x, y, z; makeData(30, x, y, z);
  Db* db = buildDb(x, y, z);
  DbGrid* grid = DbGrid::create({2, 2}, {5., 5.}, {0., 0.});
  VectorDouble sel = {1., 0., 1., 1.};
  grid->addColumns(sel, "sel", ELoc::SEL, 0);
  dbStatisticsOnGrid(db, grid, EStatOption::MEAN);
  VectorDouble v = grid->getColumnByUID(grid->getLastUID());
  for (int i = 0; i < 4; i++) printf("  cell %d sel=%g mean=%g\n", i, sel[i], v[i]);
  delete db; delete grid;
}

// S10: values of the selection other than 0 / 1
static void s10()
{
  printf("\n--- S10: selection values other than 0 and 1\n");
  VectorDouble x, y, z; makeData(5, x, y, z);
  VectorDouble sel = {1., 2., -1., TEST, 0.};
  Db* db = buildDb(x, y, z, sel);
  printf("  sel      :"); for (int i = 0; i < 5; i++) printf(" %g", sel[i]); printf("\n");
  printf("  isActive :"); for (int i = 0; i < 5; i++) printf(" %d", (int)db->isActive(i)); printf("\n");
  printf("  getSampleNumber(true) = %d\n", db->getSampleNumber(true));
  printf("  getColumn('z', useSel=true) size = %d\n", (int)db->getColumn("z", true).size());
  Model* model = Model::createFromParam(ECov::SPHERICAL, 6., 2.);
  MatrixRectangular m = model->evalCovMatrix(db);
  printf("  evalCovMatrix: %d rows\n", m.getNRows());
  printf("  getMean('z', useSel=true) = %g\n", db->getMean("z", true));
  delete db; delete model;
}

// S11: computeLogLikelihood with an undefined value
static void s11()
{
  printf("\n--- S11: Model::computeLogLikelihood, one active sample with undefined value\n");
  VectorDouble x, y, z; makeData(10, x, y, z);
  int k = 3;
  VectorDouble zu = z; zu[k] = TEST;
  Db* dbU = buildDb(x, y, zu);
  VectorDouble xr, yr, zr; removeOne(k, x, xr); removeOne(k, y, yr); removeOne(k, z, zr);
  Db* dbR = buildDb(xr, yr, zr);
  Model* model = Model::createFromParam(ECov::SPHERICAL, 6., 2.);
  model->setMean(3.5);
  double lU = model->computeLogLikelihood(dbU);
  double lR = model->computeLogLikelihood(dbR);
  printf("  loglike with undefined sample = %g ; after removal = %g\n", lU, lR);
  delete dbU; delete dbR; delete model;
}

// S12: quantiles
static void s12()
{
  printf("\n--- S12: VectorHelper::quantiles with an undefined value\n");
  VectorDouble v = {1., 2., 3., 4., TEST};
  VectorDouble q = VH::quantiles(v, {0.5, 0.9});
  printf("  quantiles(0.5, 0.9) of {1,2,3,4,NA} = %g %g ; of {1,2,3,4} = %g %g\n", q[0], q[1],
         VH::quantiles({1., 2., 3., 4.}, {0.5, 0.9})[0], VH::quantiles({1., 2., 3., 4.}, {0.5, 0.9})[1]);
}

int main(int argc, char** argv)
{
  int which = (argc > 1) ? atoi(argv[1]) : 0;
  if (which == 0 || which == 1) s1();
  if (which == 0 || which == 2) s2();
  if (which == 0 || which == 3) s3();
  if (which == 0 || which == 4) s4();
  if (which == 0 || which == 5) s5();
  if (which == 0 || which == 6) s6();
  if (which == 0 || which == 7) s7();
  if (which == 0 || which == 8) s8();
  if (which == 0 || which == 10) s10();
  if (which == 0 || which == 11) s11();
  if (which == 0 || which == 12) s12();
  return 0;
}
