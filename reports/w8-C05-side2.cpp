// Side observations on the unmodified tree (second series)
#include "Db/Db.hpp"
#include "Db/DbGrid.hpp"
#include "Model/Model.hpp"
#include "Neigh/NeighUnique.hpp"
#include "Neigh/NeighMoving.hpp"
#include "Neigh/NeighImage.hpp"
#include "Estimation/CalcKriging.hpp"
#include "Estimation/CalcImage.hpp"
#include "Estimation/CalcSimpleInterpolation.hpp"
#include "Basic/VectorHelper.hpp"

#include <cmath>
#include <cstdio>

static Db* buildDb(const VectorDouble& x, const VectorDouble& y, const VectorDouble& z,
                   const VectorDouble& sel = VectorDouble())
{
  Db* db = Db::create();
  db->addColumns(x, "x", ELoc::X, 0);
  db->addColumns(y, "y", ELoc::X, 1);
  if (!z.empty()) db->addColumns(z, "z", ELoc::Z, 0);
  if (!sel.empty()) db->addColumns(sel, "sel", ELoc::SEL, 0);
  return db;
}

static void makeData(int n, VectorDouble& x, VectorDouble& y, VectorDouble& z)
{
  x.resize(n); y.resize(n); z.resize(n);
  for (int i = 0; i < n; i++)
  {
    x[i] = 10. * fmod(0.37 * i + 0.11, 1.);
    y[i] = 10. * fmod(0.61 * i + 0.29, 1.);
    z[i] = 3. + sin(0.9 * i) + 0.15 * i;
  }
}

static void removeOne(int k, const VectorDouble& v, VectorDouble& r)
{
  r.clear();
  for (int i = 0; i < (int)v.size(); i++)
    if (i != k) r.push_back(v[i]);
}

// S9: moving neighborhood with Ball Tree search, active sample with undefined value
static void s9()
{
  printf("\n--- S9: kriging, Moving Neighborhood (nmaxi=3) with Ball Tree search, one sample with undefined value\n");
  VectorDouble x, y, z; makeData(20, x, y, z);
  // the target is located very close to sample k
  int k = 4;
  VectorDouble zu = z; zu[k] = TEST;
  VectorDouble xr, yr, zr; removeOne(k, x, xr); removeOne(k, y, yr); removeOne(k, z, zr);
  Model* model = Model::createFromParam(ECov::SPHERICAL, 8., 2.);
  model->setMean(3.5);
  for (int useBall = 0; useBall < 2; useBall++)
  {
    Db* dbU = buildDb(x, y, zu);
    Db* dbR = buildDb(xr, yr, zr);
    Db* tU  = buildDb({x[k] + 0.05}, {y[k] + 0.05}, VectorDouble());
    Db* tR  = buildDb({x[k] + 0.05}, {y[k] + 0.05}, VectorDouble());
    NeighMoving* neighM = NeighMoving::create(false, 3, 20.);
    neighM->setBallSearch(useBall == 1, 5);
    kriging(dbU, tU, model, neighM);
    kriging(dbR, tR, model, neighM);
    printf("  ball search %s: estim=%.6f stdev=%.6f | after removal: estim=%.6f stdev=%.6f\n",
           useBall ? "ON " : "OFF",
           tU->getColumn("Kriging.z.estim")[0], tU->getColumn("Kriging.z.stdev")[0],
           tR->getColumn("Kriging.z.estim")[0], tR->getColumn("Kriging.z.stdev")[0]);
    delete dbU; delete dbR; delete tU; delete tR; delete neighM;
  }
  delete model;
}

// S14: krimage with a masked node
static void s14()
{
  printf("\n--- S14: krimage on a grid holding a masked node\n");
  DbGrid* g1 = DbGrid::create({7, 7}, {1., 1.}, {0., 0.});
  DbGrid* g2 = DbGrid::create({7, 7}, {1., 1.}, {0., 0.});
  VectorDouble z(49), sel(49, 1.);
  for (int i = 0; i < 49; i++) z[i] = sin(0.4 * i) + 0.02 * i;
  VectorDouble z2 = z;
  z[24] = 50.; // the masked node holds a large value in the first grid
  z2[24] = -50.; // and another one in the second grid
  sel[24] = 0.;
  g1->addColumns(z, "z", ELoc::Z, 0);  g1->addColumns(sel, "sel", ELoc::SEL, 0);
  g2->addColumns(z2, "z", ELoc::Z, 0); g2->addColumns(sel, "sel", ELoc::SEL, 0);
  Model* model = Model::createFromParam(ECov::CUBIC, 4., 1.);
  model->addCovFromParam(ECov::NUGGET, 0., 0.5);
  model->setMean(0.5);
  NeighImage* neighI = NeighImage::create({1, 1});
  int e1 = krimage(g1, model, neighI);
  int e2 = krimage(g2, model, neighI);
  VectorDouble r1 = g1->getColumnByUID(g1->getLastUID());
  VectorDouble r2 = g2->getColumnByUID(g2->getLastUID());
  printf("  errors %d %d; filtered value at node 23 (neighbor of the masked node): %g vs %g (only the value of the masked node differs)\n",
         e1, e2, r1[23], r2[23]);
  printf("  value at the masked node 24 in the new variable: %g\n", r1[24]);
  delete g1; delete g2; delete model; delete neighI;
}

// S16: simple interpolators and masked targets
static void s16()
{
  printf("\n--- S16: masked targets in the variables created by simple interpolators\n");
  VectorDouble x, y, z; makeData(10, x, y, z);
  Db* db = buildDb(x, y, z);
  DbGrid* grid = DbGrid::create({3, 3}, {3., 3.}, {1., 1.});
  VectorDouble sel(9, 1.); sel[4] = 0.;
  grid->addColumns(sel, "sel", ELoc::SEL, 0);
  inverseDistance(db, grid);
  printf("  inverseDistance : masked node -> %g ; active node -> %g\n",
         grid->getColumnByUID(grid->getLastUID())[4], grid->getColumnByUID(grid->getLastUID())[3]);
  nearestNeighbor(db, grid);
  printf("  nearestNeighbor : masked node -> %g ; active node -> %g\n",
         grid->getColumnByUID(grid->getLastUID())[4], grid->getColumnByUID(grid->getLastUID())[3]);
  Model* model = Model::createFromParam(ECov::SPHERICAL, 8., 2.);
  NeighUnique* neighU = NeighUnique::create();
  kriging(db, grid, model, neighU);
  printf("  kriging (stdev) : masked node -> %g ; active node -> %g\n",
         grid->getColumnByUID(grid->getLastUID())[4], grid->getColumnByUID(grid->getLastUID())[3]);
  delete db; delete grid; delete model; delete neighU;
}

int main(int argc, char** argv)
{
  int which = (argc > 1) ? atoi(argv[1]) : 0;
  if (which == 0 || which == 9) s9();
  if (which == 0 || which == 14) s14();
  if (which == 0 || which == 16) s16();
  return 0;
}
