// Side observations on the UNMODIFIED library: each block prints OBS when the
// save / reload property is violated, ok otherwise.
#include "Db/Db.hpp"
#include "Db/DbGrid.hpp"
#include "Basic/ASerializable.hpp"
#include "Basic/Law.hpp"
#include "Enum/ELoc.hpp"
#include "Enum/ELoadBy.hpp"
#include "Enum/ECalcVario.hpp"
#include "Neigh/NeighMoving.hpp"
#include "Variogram/Vario.hpp"
#include "Variogram/VarioParam.hpp"
#include "Variogram/DirParam.hpp"
#include "Matrix/Table.hpp"
#include "Mesh/MeshEStandard.hpp"
#include "OutputFormat/AOF.hpp"
#include "Space/SpaceTarget.hpp"

#include <cmath>
#include <cstdio>
#include <fstream>
#include <sstream>
#include <string>
#include <limits>

static std::string slurp(const std::string& fn)
{
  std::ifstream f(fn);
  std::stringstream ss;
  ss << f.rdbuf();
  return ss.str();
}

int main()
{
  int nech = 5;

  // S1: locators whose keyword starts with the letter of another locator
  {
    VectorDouble tab;
    for (int ic = 0; ic < 4; ic++)
      for (int i = 0; i < nech; i++) tab.push_back(ic + 0.1 * i);
    Db* db = Db::createFromSamples(nech, ELoadBy::COLUMN, tab, { "a", "b", "c", "d" },
                                   { "x1", "x2", "z1", "z2" }, false);
    db->setLocator("c", ELoc::FACIES, 0);
    db->setLocator("d", ELoc::GAUSFAC, 0);
    db->dumpToNF("side_S1.ascii");
    Db* back = Db::createFromNF("side_S1.ascii", false);
    printf("S1 locators written: ");
    for (auto& s : db->getLocators(true)) printf("%s ", s.c_str());
    printf(" reloaded: ");
    if (back != nullptr) for (auto& s : back->getLocators(true)) printf("%s ", s.c_str());
    printf(" -> %s\n", (back != nullptr && back->getLocators(true) == db->getLocators(true)) ? "ok" : "OBS");
  }

  // S2: anisotropic (rotated) moving neighbourhood
  {
    NeighMoving* n1 = NeighMoving::create(false, 10, 20., 1, 1, 0, { 1., 0.5 }, { 30., 0. });
    n1->dumpToNF("side_S2.ascii");
    NeighMoving* n2 = NeighMoving::createFromNF("side_S2.ascii", false);
    n2->dumpToNF("side_S2b.ascii");
    const BiTargetCheckDistance* b1 = n1->getBiPtDist();
    const BiTargetCheckDistance* b2 = n2->getBiPtDist();
    printf("S2 coeffs %lg %lg -> %lg %lg ; flagRotation %d -> %d ; second file identical: %d -> %s\n",
           b1->getAnisoCoeff(0), b1->getAnisoCoeff(1), b2->getAnisoCoeff(0), b2->getAnisoCoeff(1),
           b1->getFlagRotation(), b2->getFlagRotation(),
           (int) (slurp("side_S2.ascii") == slurp("side_S2b.ascii")),
           (b1->getAnisoCoeff(1) == b2->getAnisoCoeff(1) && b1->getFlagRotation() == b2->getFlagRotation()) ? "ok" : "OBS");
    printf("   normalized distance of (3,4): %lg -> %lg\n",
           b1->getNormalizedDistance({ 3., 4. }), b2->getNormalizedDistance({ 3., 4. }));
  }

  // S3: experimental covariance (asymmetric calculation) with two directions
  {
    Db* db = Db::createFillRandom(60, 2, 1);
    VarioParam vp;
    DirParam d1(4, 0.1, 0.5, 45., 0, 0, TEST, TEST, 0., VectorDouble(), { 1., 0. });
    DirParam d2(3, 0.15, 0.5, 45., 0, 0, TEST, TEST, 0., VectorDouble(), { 0., 1. });
    vp.addDir(d1);
    vp.addDir(d2);
    Vario v1(vp);
    v1.compute(db, ECalcVario::COVARIANCE);
    v1.dumpToNF("side_S3.ascii");
    Vario* v2 = Vario::createFromNF("side_S3.ascii", false);
    if (v2 == nullptr)
      printf("S3 covariance vario cannot be reloaded -> OBS\n");
    else
    {
      v2->dumpToNF("side_S3b.ascii");
      printf("S3 calcul %s -> %s ; dir sizes %d,%d -> %d,%d ; gg(dir1,0) %lg -> %lg ; same file %d -> %s\n",
             v1.getCalcul().getKey().data(), v2->getCalcul().getKey().data(),
             v1.getDirSize(0), v1.getDirSize(1), v2->getDirSize(0), v2->getDirSize(1),
             v1.getGgByIndex(1, 0), v2->getGgByIndex(1, 0),
             (int) (slurp("side_S3.ascii") == slurp("side_S3b.ascii")),
             (v1.getDirSize(0) == v2->getDirSize(0) && v1.getGgByIndex(1, 0) == v2->getGgByIndex(1, 0)) ? "ok" : "OBS");
    }
    // undefined lags of a variogram are written as 0
    Vario v3(vp);
    v3.compute(db, ECalcVario::VARIOGRAM);
    v3.setGgByIndex(0, 1, TEST);
    v3.dumpToNF("side_S3c.ascii");
    Vario* v4 = Vario::createFromNF("side_S3c.ascii", false);
    if (v4 != nullptr)
      printf("S3c undefined gg -> %lg after reload -> %s\n", v4->getGgByIndex(0, 1), FFFF(v4->getGgByIndex(0, 1)) ? "ok" : "OBS");
  }

  // S4: IfpEn exchange format: the value 3 and several variables
  {
    DbGrid* g = DbGrid::create({ 3, 2 });
    VectorDouble a = { 1., 2., 3., 4., 5., 6. };
    VectorDouble b = { 10., 20., 30., 40., 50., 60. };
    g->addColumns(a, "a");
    g->addColumns(b, "b");
    int cols[2] = { g->getUID("a"), g->getUID("b") };
    db_grid_write_ifpen("side_S4.ifpen", g, 2, cols);
    DbGrid* back = db_grid_read_ifpen("side_S4.ifpen");
    if (back == nullptr)
      printf("S4 cannot be read back -> OBS\n");
    else
    {
      VectorDouble a2 = back->getColumnByColIdx(back->getColumnNumber() - 2);
      VectorDouble b2 = back->getColumnByColIdx(back->getColumnNumber() - 1);
      printf("S4 first variable read back:");
      for (auto v : a2) printf(" %lg", FFFF(v) ? -99999. : v);
      printf(" ; second:");
      for (auto v : b2) printf(" %lg", FFFF(v) ? -99999. : v);
      printf(" -> %s\n", (a2 == a && b2 == b) ? "ok" : "OBS");
    }
  }

  // S5: Zycor: precision and the value -999
  {
    DbGrid* g = DbGrid::create({ 2, 5 }, { 1., 1. }, { 1234567.125, 0.0000012 });
    VectorDouble a = { 1.23456789, -999., 3., 4., 5., 6., 7., 8., 9., 123456789. };
    g->addColumns(a, "a");
    db_grid_write_zycor("side_S5.zycor", g, g->getUID("a"));
    DbGrid* back = db_grid_read_zycor("side_S5.zycor");
    if (back == nullptr)
      printf("S5 cannot be read back -> OBS\n");
    else
    {
      VectorDouble a2 = back->getColumnByColIdx(back->getColumnNumber() - 1);
      printf("S5 x0 = %.10lg %.10lg ; values %.10lg %.10lg(undefined=%d) %.10lg -> %s\n", back->getX0(0), back->getX0(1),
             a2[0], a2[1], (int) FFFF(a2[1]), a2[9], (a2 == a) ? "ok" : "OBS");
    }
  }

  // S6: Table names and title
  {
    Table* t = Table::create(2, 2);
    t->setValue(0, 0, 1.); t->setValue(1, 1, 2.);
    t->setTitle("MyTitle");
    t->setColumnNames({ "c1", "c2" });
    t->setRowNames({ "r1", "r2" });
    t->dumpToNF("side_S6.ascii");
    Table* t2 = Table::createFromNF("side_S6.ascii", false);
    printf("S6 title '%s' -> '%s' ; ncolnames %d -> %d -> %s\n", t->getTitle().c_str(), t2->getTitle().c_str(),
           (int) t->getColumnNames().size(), (int) t2->getColumnNames().size(),
           (t2->getTitle() == t->getTitle() && t2->getColumnNames().size() == 2) ? "ok" : "OBS");
  }

  // S7: MeshEStandard
  {
    MatrixRectangular apices(4, 2);
    double xy[4][2] = { { 0, 0 }, { 1, 0 }, { 0, 1 }, { 1, 1 } };
    for (int i = 0; i < 4; i++) for (int j = 0; j < 2; j++) apices.setValue(i, j, xy[i][j]);
    MatrixInt meshes(2, 3);
    int tr[2][3] = { { 0, 1, 2 }, { 1, 2, 3 } };
    for (int i = 0; i < 2; i++) for (int j = 0; j < 3; j++) meshes.setValue(i, j, tr[i][j]);
    MeshEStandard* m = MeshEStandard::createFromExternal(apices, meshes);
    m->dumpToNF("side_S7.ascii");
    MeshEStandard* m2 = MeshEStandard::createFromNF("side_S7.ascii", false);
    if (m2 == nullptr)
      printf("S7 cannot be reloaded -> OBS\n");
    else
    {
      m2->dumpToNF("side_S7b.ascii");
      printf("S7 ndim %d -> %d ; nmeshes %d -> %d ; same file %d -> %s\n", m->getNDim(), m2->getNDim(),
             m->getNMeshes(), m2->getNMeshes(), (int) (slurp("side_S7.ascii") == slurp("side_S7b.ascii")),
             (m->getNDim() == m2->getNDim() && slurp("side_S7.ascii") == slurp("side_S7b.ascii")) ? "ok" : "OBS");
    }
  }

  // S8: dumpToNF result when the file cannot be opened
  {
    Table* t = Table::create(1, 1);
    bool ok = t->dumpToNF("/nonexistent_dir/xx/side_S8.ascii");
    printf("S8 dumpToNF in a non-existent directory returns %d -> %s\n", (int) ok, ok ? "OBS" : "ok");
  }

  // S9: short file names with a container directory
  {
    ASerializable::setContainerName(false, "./side_dir/");
    Table* t = Table::create(1, 1);
    t->setValue(0, 0, 5.);
    bool ok = t->dumpToNF("t2");
    Table* t2 = Table::createFromNF("t2", false);
    printf("S9 dump 't2' in container: %d, reload: %s -> %s\n", (int) ok, t2 ? "found" : "not found", t2 ? "ok" : "OBS");
    ASerializable::unsetContainerName();
  }

  // S10: column names with blanks, infinite values
  {
    VectorDouble tab = { 1., 2., 3., 4., 5., 6. };
    Db* db = Db::createFromSamples(3, ELoadBy::COLUMN, tab, { "my var", "b" }, { "z1", "z2" }, false);
    db->dumpToNF("side_S10.ascii");
    Db* back = Db::createFromNF("side_S10.ascii", false);
    printf("S10 name with a blank: reload %s -> %s\n", back ? "done" : "refused", (back && back->getAllNames() == db->getAllNames()) ? "ok" : "OBS");

    VectorDouble tab2 = { 1., std::numeric_limits<double>::infinity(), 3. };
    Db* db2 = Db::createFromSamples(3, ELoadBy::COLUMN, tab2, { "v" }, { "z1" }, false);
    db2->dumpToNF("side_S10b.ascii");
    Db* back2 = Db::createFromNF("side_S10b.ascii", false);
    if (back2 == nullptr) printf("S10b infinite value: reload refused -> OBS\n");
    else printf("S10b infinite value reloaded as %lg -> %s\n", back2->getValue("v", 1), std::isinf(back2->getValue("v", 1)) ? "ok" : "OBS");
  }
  return 0;
}
