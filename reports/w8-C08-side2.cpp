// More side observations on the UNMODIFIED library
#include "Db/Db.hpp"
#include "Db/DbGrid.hpp"
#include "Basic/ASerializable.hpp"
#include "Enum/ELoc.hpp"
#include "Enum/ELoadBy.hpp"
#include "Enum/ECov.hpp"
#include "Neigh/NeighImage.hpp"
#include "Neigh/NeighUnique.hpp"
#include "Neigh/NeighMoving.hpp"
#include "Anamorphosis/AnamHermite.hpp"
#include "LithoRule/Rule.hpp"
#include "LithoRule/RuleShift.hpp"
#include "Fractures/FracEnviron.hpp"
#include "Fractures/FracFault.hpp"
#include "Fractures/FracFamily.hpp"
#include "Model/Model.hpp"
#include "Space/ASpaceObject.hpp"

#include <cmath>
#include <cstdio>
#include <fstream>
#include <sstream>
#include <string>

static std::string slurp(const std::string& fn)
{
  std::ifstream f(fn);
  std::stringstream ss;
  ss << f.rdbuf();
  return ss.str();
}

int main(int argc, char* argv[])
{
  int which = (argc > 1) ? atoi(argv[1]) : 0;

  // T1: cross-validation flag of a neighbourhood
  if (which == 0 || which == 1)
  {
    NeighUnique* n = NeighUnique::create(true);
    n->dumpToNF("side2_T1.ascii");
    NeighUnique* n2 = NeighUnique::createFromNF("side2_T1.ascii", false);
    printf("T1 flagXvalid %d -> %d -> %s\n", (int) n->getFlagXvalid(), (int) n2->getFlagXvalid(),
           n->getFlagXvalid() == n2->getFlagXvalid() ? "ok" : "OBS");
  }

  // T2: Hermite anamorphosis, flagBound
  if (which == 0 || which == 2)
  {
    AnamHermite* a = AnamHermite::create(5, false);
    VectorDouble tab;
    for (int i = 0; i < 50; i++) tab.push_back(std::exp(0.05 * i) + 0.01 * (i % 7));
    a->fitFromArray(tab);
    a->dumpToNF("side2_T2.ascii");
    AnamHermite* a2 = AnamHermite::createFromNF("side2_T2.ascii", false);
    if (a2 == nullptr) printf("T2 cannot reload -> OBS\n");
    else
    {
      a2->dumpToNF("side2_T2b.ascii");
      printf("T2 flagBound %d -> %d ; z(y=5) %lg -> %lg ; same file %d -> %s\n", (int) a->getFlagBound(), (int) a2->getFlagBound(),
             a->transformToRawValue(5.), a2->transformToRawValue(5.), (int) (slurp("side2_T2.ascii") == slurp("side2_T2b.ascii")),
             (a->getFlagBound() == a2->getFlagBound() && a->transformToRawValue(5.) == a2->transformToRawValue(5.)) ? "ok" : "OBS");
    }
  }

  // T3: RuleShift
  if (which == 0 || which == 3)
  {
    RuleShift* r = RuleShift::createFromFaciesCount(3, { 0.2, 0.3 });
    r->dumpToNF("side2_T3.ascii");
    Rule* r2 = Rule::createFromNF("side2_T3.ascii", false);
    if (r2 == nullptr) printf("T3 cannot reload -> OBS\n");
    else
    {
      bool ok2 = r2->dumpToNF("side2_T3b.ascii");
      printf("T3 RuleShift reloaded as a %s ; second file identical %d (written %d) -> %s\n",
             dynamic_cast<RuleShift*>(r2) != nullptr ? "RuleShift" : "plain Rule",
             (int) (slurp("side2_T3.ascii") == slurp("side2_T3b.ascii")), (int) ok2,
             (slurp("side2_T3.ascii") == slurp("side2_T3b.ascii")) ? "ok" : "OBS");
    }
  }

  // T4: fracture environment with a main fault and no family
  if (which == 0 || which == 4)
  {
    FracEnviron* e = FracEnviron::create(10., 5., 0., 0., 1., 0.1);
    FracFault fault(3., 45.);
    e->addFault(fault);
    e->dumpToNF("side2_T4.ascii");
    FracEnviron* e2 = FracEnviron::createFromNF("side2_T4.ascii", false);
    printf("T4 FracEnviron with a fault without family: reload %s -> %s\n", e2 ? "done" : "refused", e2 ? "ok" : "OBS");
  }

  // T5: Model with a drift and a mean ; Model in 3D with rotation
  if (which == 0 || which == 5)
  {
    Model* m = Model::createFromParam(ECov::SPHERICAL, 10., 2., 1., { 10., 5. }, VectorDouble(), { 30., 0. });
    m->setMean(3.5);
    m->setDriftIRF(1);
    m->dumpToNF("side2_T5.ascii");
    Model* m2 = Model::createFromNF("side2_T5.ascii", false);
    if (m2 == nullptr) printf("T5 cannot reload -> OBS\n");
    else
    {
      m2->dumpToNF("side2_T5b.ascii");
      printf("T5 mean %lg -> %lg ; ndrift %d -> %d ; same file %d -> %s\n", m->getMean(0), m2->getMean(0),
             m->getDriftNumber(), m2->getDriftNumber(), (int) (slurp("side2_T5.ascii") == slurp("side2_T5b.ascii")),
             (m->getMean(0) == m2->getMean(0)) ? "ok" : "OBS");
    }
  }

  // T6: image neighbourhood in 3D while the default space is 2D
  if (which == 0 || which == 6)
  {
    defineDefaultSpace(ESpaceType::RN, 3);
    NeighImage* n = NeighImage::create({ 2, 3, 1 }, 2);
    n->dumpToNF("side2_T6.ascii");
    defineDefaultSpace(ESpaceType::RN, 2);
    NeighImage* n2 = NeighImage::createFromNF("side2_T6.ascii", false);
    if (n2 == nullptr) printf("T6 cannot reload -> OBS\n");
    else
    {
      printf("T6 reloaded: skip %d radius size %d\n", n2->getSkip(), (int) n2->getImageRadius().size());
      n2->dumpToNF("side2_T6b.ascii");
      printf("T6 same file %d -> %s\n", (int) (slurp("side2_T6.ascii") == slurp("side2_T6b.ascii")),
             (slurp("side2_T6.ascii") == slurp("side2_T6b.ascii")) ? "ok" : "OBS");
    }
  }
  return 0;
}
