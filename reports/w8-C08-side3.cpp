#include "Neigh/NeighImage.hpp"
#include "Neigh/NeighBench.hpp"
#include "Neigh/NeighCell.hpp"
#include <cstdio>
int main()
{
  NeighImage* n = NeighImage::create({ 2, 3 }, 2);
  n->dumpToNF("side3_img.ascii");
  NeighImage* n2 = NeighImage::createFromNF("side3_img.ascii", false);
  if (n2 == nullptr) { printf("T6b cannot reload\n"); return 0; }
  printf("T6b reloaded: skip %d radius size %d\n", n2->getSkip(), (int) n2->getImageRadius().size());
  return 0;
}
