#include "Db/Db.hpp"
#include "Variogram/Vario.hpp"
#include "Variogram/VarioParam.hpp"
#include "Variogram/DirParam.hpp"
#include "Enum/ECalcVario.hpp"
#include <cstdio>
int main()
{
  Db* db = Db::createFillRandom(60, 2, 1);
  VarioParam vp;
  DirParam d1(4, 0.1);
  vp.addDir(d1);
  Vario v1(vp);
  v1.compute(db, ECalcVario::COVARIANCE);
  v1.dumpToNF("side4.ascii");
  Vario* v2 = Vario::createFromNF("side4.ascii", false);
  if (v2 == nullptr) { printf("refused\n"); return 0; }
  printf("dir size %d -> %d ; gg[0] %lg -> %lg ; calcul %s -> %s\n", v1.getDirSize(0), v2->getDirSize(0),
         v1.getGgByIndex(0,0), v2->getGgByIndex(0,0), v1.getCalcul().getKey().data(), v2->getCalcul().getKey().data());
  return 0;
}
