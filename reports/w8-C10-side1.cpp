// Side observations on the UNMODIFIED tree (batch 1)
#include "Db/Db.hpp"
#include "Db/DbGrid.hpp"
#include "Model/Model.hpp"
#include "Neigh/NeighBench.hpp"
#include "Neigh/NeighMoving.hpp"
#include "Anamorphosis/AnamHermite.hpp"
#include "Basic/Law.hpp"
#include "Basic/VectorHelper.hpp"
#include "Matrix/MatrixSparse.hpp"
#include "Space/ASpaceObject.hpp"
#include "Variogram/VarioParam.hpp"
#include "Variogram/DirParam.hpp"
#include "Enum/ECov.hpp"

#include <cstdio>
#include <cmath>

static void title(const char* t) { printf("\n===== %s =====\n", t); }

// S1: NeighBench: memo returned for a target located in ANOTHER bench
static void s1()
{
  title("S1 NeighBench::select after a target in another bench");
  defineDefaultSpace(ESpaceType::RN, 3);
  // data: 3 samples at z=0, 3 samples at z=10
  Db* data = Db::createFromSamples(6, ELoadBy::SAMPLE,
     {0.,0.,0., 1., 1.,0.,0., 2., 0.,1.,0., 3.,
      0.,0.,10., 4., 1.,0.,10., 5., 0.,1.,10., 6.},
     {"x","y","z","v"}, {"x1","x2","x3","z1"});
  // targets: one at z=0 and one at z=10
  Db* target = Db::createFromSamples(2, ELoadBy::SAMPLE,
     {0.5,0.5,0., 0.5,0.5,10.}, {"x","y","z"}, {"x1","x2","x3"});

  VectorInt fresh, after;
  {
    NeighBench* nb = NeighBench::create(false, 1.);
    nb->attach(data, target);
    nb->select(1, fresh);           // first call in a "fresh" object
    delete nb;
  }
  {
    NeighBench* nb = NeighBench::create(false, 1.);
    nb->attach(data, target);
    VectorInt dummy;
    nb->select(0, dummy);           // a target in the lower bench
    nb->select(1, after);           // then the target in the upper bench
    delete nb;
  }
  printf("fresh  select(1): %s", fresh.toString().c_str());
  printf("after select(0), select(1): %s", after.toString().c_str());
  printf("%s\n", (fresh == after) ? "same" : "DIFFERENT (history dependent)");
  delete data; delete target;
  defineDefaultSpace(ESpaceType::RN, 2);
}

// S2: ANeigh::select twice on the same target: order of ranks / colocated item
static void s2()
{
  title("S2 ANeigh::select twice for the same target");
  Db* data = Db::createFromSamples(4, ELoadBy::SAMPLE,
     {5.,5., 1.,  0.,0., 2.,  3.,3., 3.,  1.,1., 4.},
     {"x","y","v"}, {"x1","x2","z1"});
  Db* target = Db::createFromSamples(1, ELoadBy::SAMPLE,
     {0.2,0.2, 7.}, {"x","y","v"}, {"x1","x2","z1"});
  NeighMoving* nm = NeighMoving::create(false, 3, 100.);
  nm->attach(data, target);
  VectorInt r1, r2;
  nm->select(0, r1);
  nm->select(0, r2);
  printf("1st call: %s2nd call: %s", r1.toString().c_str(), r2.toString().c_str());
  printf("%s\n", (r1 == r2) ? "same" : "DIFFERENT");

  // with the colocated option
  nm->setRankColCok({target->getUID("v")});
  nm->attach(data, target);
  nm->select(0, r1);
  nm->select(0, r2);
  printf("colocated 1st call: %scolocated 2nd call: %s", r1.toString().c_str(), r2.toString().c_str());
  printf("%s\n", (r1 == r2) ? "same" : "DIFFERENT");
  delete nm; delete data; delete target;
}

// S3: AnamHermite fitted twice keeps the bounds of the first fit
static void s3()
{
  title("S3 AnamHermite::fitFromArray twice");
  law_set_random_seed(1234);
  VectorDouble d1 = VH::simulateGaussian(200);
  for (auto& v : d1) v = exp(v);              // lognormal in [~0.05, ~20]
  VectorDouble d2 = VH::simulateUniform(200, 100., 200.);

  AnamHermite* a = AnamHermite::create(20);
  a->fitFromArray(d1);
  a->fitFromArray(d2);
  AnamHermite* b = AnamHermite::create(20);
  b->fitFromArray(d2);
  printf("refit : az=[%lf %lf] pz=[%lf %lf]\n", a->getAzmin(), a->getAzmax(), a->getPzmin(), a->getPzmax());
  printf("fresh : az=[%lf %lf] pz=[%lf %lf]\n", b->getAzmin(), b->getAzmax(), b->getPzmin(), b->getPzmax());
  printf("Z(y=-3): refit=%lf fresh=%lf\n", a->transformToRawValue(-3.), b->transformToRawValue(-3.));
  printf("Z(y=+3): refit=%lf fresh=%lf\n", a->transformToRawValue(3.), b->transformToRawValue(3.));
  delete a; delete b;
}

// S4: Model::addCovFromParam resets the mean
static void s4()
{
  title("S4 Model::addCovFromParam after setMean");
  Model* m = Model::createFromEnvironment(1, 2);
  m->addCovFromParam(ECov::SPHERICAL, 10., 1.);
  m->setMean(5.);
  printf("mean after setMean            = %lf\n", m->getMean(0));
  m->addCovFromParam(ECov::NUGGET, 0., 0.2);
  printf("mean after addCovFromParam    = %lf\n", m->getMean(0));
  delete m;
}

// S6: new-style random generator: a 'memo' function rewinds the stream
static void s6()
{
  title("S6 new-style generator and functions which save/restore the seed");
  DbGrid* grid = DbGrid::create({4, 3}, {2., 5.});
  law_set_old_style(false);
  law_set_random_seed(777);
  double a1 = law_uniform();
  double a2 = law_uniform();
  law_set_random_seed(777);
  double b1 = law_uniform();
  (void) grid->getDiscretizedBlock({2,2});
  double b2 = law_uniform();
  printf("without call: %lf %lf\n", a1, a2);
  printf("with call   : %lf %lf  -> %s\n", b1, b2, (a2 == b2) ? "same" : "DIFFERENT (stream rewound)");
  law_set_old_style(true);
  law_set_random_seed(43241421);
  delete grid;
}

// S7: sparse matrices created under different values of the global back-end flag
static void s7()
{
  title("S7 MatrixSparse::addMatMat with mixed back-ends");
  bool memo = isGlobalFlagEigen();
  setGlobalFlagEigen(true);
  MatrixSparse* A = MatrixSparse::diagConstant(3, 2.);
  setGlobalFlagEigen(false);
  MatrixSparse* B = MatrixSparse::diagConstant(3, 1.);
  MatrixSparse* C = MatrixSparse::addMatMat(A, B);
  printf("A(eigen)+B(cs): C(0,0)=%lf (expected 3)\n", C->getValue(0,0));
  setGlobalFlagEigen(memo);
  delete A; delete B; delete C;
}

// S12: VarioParam::addMultiDirs is refused ... after having added the first directions
static void s12()
{
  title("S12 VarioParam::addMultiDirs refused half-way");
  VarioParam vp;
  DirParam d1(10, 1.);
  DirParam d2 = DirParam(10, 1.);
  d2.setGrincr({1, 0});            // defined for grid
  std::vector<DirParam> dirs = {d1, d2};
  vp.addMultiDirs(dirs);
  printf("number of directions after the refused call = %d (0 expected)\n", vp.getDirectionNumber());
}

// S15: Db::setLocatorByUID with a hole: the missing item designates UID 0
static void s15()
{
  title("S15 Db::setLocatorByUID leaving a hole");
  Db* db = Db::createFromSamples(2, ELoadBy::SAMPLE, {1.,2.,3., 4.,5.,6.}, {"a","b","c"});
  db->setLocatorByUID(db->getUID("c"), ELoc::Z, 1);
  printf("nz=%d  name of z1='%s' name of z2='%s'\n", db->getLocNumber(ELoc::Z),
         db->getNameByLocator(ELoc::Z,0).c_str(), db->getNameByLocator(ELoc::Z,1).c_str());
  // re-assigning the next free item to a variable already holding this role
  Db* db2 = Db::createFromSamples(2, ELoadBy::SAMPLE, {1.,2.,3., 4.,5.,6.}, {"a","b","c"}, {"z1","z2","z3"});
  db2->setLocatorByUID(db2->getUID("a"), ELoc::Z, -1);
  printf("after setLocatorByUID(a, Z, -1): nz=%d:", db2->getLocNumber(ELoc::Z));
  for (int i = 0; i < db2->getLocNumber(ELoc::Z); i++) printf(" '%s'", db2->getNameByLocator(ELoc::Z,i).c_str());
  printf("\n");
  delete db; delete db2;
}

int main()
{
  s1(); s2(); s3(); s4(); s6(); s7(); s12(); s15();
  return 0;
}
