// Side observations on the UNMODIFIED tree (batch 2)
#include "Db/Db.hpp"
#include "Db/DbGrid.hpp"
#include "Model/Model.hpp"
#include "Neigh/NeighUnique.hpp"
#include "Neigh/NeighImage.hpp"
#include "Neigh/NeighMoving.hpp"
#include "Estimation/CalcKriging.hpp"
#include "Fractures/FracList.hpp"
#include "Fractures/FracEnviron.hpp"
#include "Fractures/FracFamily.hpp"
#include "Fractures/FracFault.hpp"
#include "Polynomials/Chebychev.hpp"
#include "Basic/Law.hpp"
#include "Basic/OptDbg.hpp"
#include "Basic/VectorHelper.hpp"
#include "Basic/CSVformat.hpp"
#include "Enum/ECov.hpp"
#include "Enum/EDbg.hpp"

#include <cstdio>
#include <cmath>

static void title(const char* t) { printf("\n===== %s =====\n", t); }

// S8: FracList::simulate twice on the same object
static void s8()
{
  title("S8 FracList::simulate twice on the same object");
  FracEnviron env = FracEnviron(300., 100., 0., 0., 20., 10.);
  FracFamily family1 = FracFamily(0., 20., 0.2, 1., 1., 0.5, 0.2, 1.2, 2.4, 5.);
  env.addFamily(family1);
  FracList fresh;
  fresh.simulate(env, true, true, 432431, false, VectorDouble());
  FracList twice;
  twice.simulate(env, true, true, 1111, false, VectorDouble());
  twice.simulate(env, true, true, 432431, false, VectorDouble());
  printf("fresh object : %d fractures; object already used: %d fractures\n",
         fresh.getNFracs(), twice.getNFracs());
}

// S10: krigtest switches OFF the debug options set by the user
static void s10()
{
  title("S10 krigtest and the debug options of the user");
  Db* data = Db::createFromSamples(4, ELoadBy::SAMPLE,
     {5.,5., 1.,  0.,0., 2.,  3.,3., 3.,  1.,1., 4.}, {"x","y","v"}, {"x1","x2","z1"});
  DbGrid* grid = DbGrid::create({3,3}, {2.,2.});
  Model* model = Model::createFromParam(ECov::SPHERICAL, 10., 1.);
  NeighUnique* neigh = NeighUnique::create();
  OptDbg::define(EDbg::INTERFACE);
  fprintf(stderr,"before: option INTERFACE = %d\n", (int) OptDbg::query(EDbg::INTERFACE));
  (void) krigtest(data, grid, model, neigh, 1, EKrigOpt::POINT, VectorInt(), false, false);
  fprintf(stderr,"after krigtest(verbose=false): option INTERFACE = %d\n", (int) OptDbg::query(EDbg::INTERFACE));
  OptDbg::define(EDbg::INTERFACE);
  (void) krigtest(data, grid, model, neigh, 1, EKrigOpt::POINT, VectorInt(), false, true);
  fprintf(stderr, "after krigtest(verbose=true): option INTERFACE = %d\n", (int) OptDbg::query(EDbg::INTERFACE));
  OptDbg::undefineAll();
  delete data; delete grid; delete model; delete neigh;
}

int main(int argc, char* argv[])
{
  s8();
  if (argc > 1) s10();
  return 0;
}
