// Side observations on the UNMODIFIED tree (batch 3)
#include "Db/Db.hpp"
#include "Db/DbGrid.hpp"
#include "Model/Model.hpp"
#include "Neigh/NeighUnique.hpp"
#include "Neigh/NeighImage.hpp"
#include "Estimation/CalcKriging.hpp"
#include "Estimation/CalcImage.hpp"
#include "Polynomials/Chebychev.hpp"
#include "Basic/Law.hpp"
#include "Basic/VectorHelper.hpp"
#include "Basic/CSVformat.hpp"
#include "Basic/Grid.hpp"
#include "Enum/ECov.hpp"

#include <cstdio>
#include <cmath>

static void title(const char* t) { printf("\n===== %s =====\n", t); }

// S11: Db::resetFromCSV refused: the roles of the (kept) variables are lost
static void s11()
{
  title("S11 Db::resetFromCSV on a missing file");
  Db* db = Db::createFromSamples(2, ELoadBy::SAMPLE, {1.,2.,3., 4.,5.,6.}, {"x","y","v"}, {"x1","x2","z1"});
  printf("before: ncol=%d ndim=%d nz=%d\n", db->getColumnNumber(), db->getNDim(), db->getLocNumber(ELoc::Z));
  int err = db->resetFromCSV("/tmp/wt8-C10/out/no_such_file.csv", false, CSVformat());
  printf("return code=%d; after: ncol=%d ndim=%d nz=%d\n", err, db->getColumnNumber(), db->getNDim(), db->getLocNumber(ELoc::Z));
  delete db;
}

// S13: copies of vectors sharing their storage
static void s13()
{
  title("S13 copies of VectorDouble");
  VectorDouble a = {1., 2., 3.};
  double& r = a[0];          // reference taken BEFORE the copy
  VectorDouble b = a;        // copy (shares the storage)
  r = 99.;                   // modifies 'a' ... and 'b'
  printf("a[0]=%lf b[0]=%lf %s\n", a[0], b[0], (b[0] == 1.) ? "independent" : "NOT independent");

  VectorDouble c = {1., 2., 3.};
  VectorDouble d = c;
  c.getVector()[1] = -5.;    // public accessor which does not take a private storage
  printf("c[1]=%lf d[1]=%lf %s\n", c[1], d[1], (d[1] == 2.) ? "independent" : "NOT independent");
}

// S18: kriging with an image neighbourhood re-seeds the global generator
static void s18()
{
  title("S18 krimage and the random sequence");
  DbGrid* grid = DbGrid::create({20,20});
  law_set_random_seed(131);
  VectorDouble tab = VH::simulateGaussian(400);
  grid->addColumns(tab, "z", ELoc::Z);
  Model* model = Model::createFromParam(ECov::CUBIC, 5., 1.);
  model->addCovFromParam(ECov::NUGGET, 0., 0.5);
  NeighImage* neigh = NeighImage::create({2,2}, 1);

  law_set_random_seed(999);
  double u1 = law_uniform();
  law_set_random_seed(999);
  (void) krimage(grid, model, neigh);
  double u2 = law_uniform();
  printf("law_uniform after seed: %lf ; same with krimage in between: %lf -> %s\n", u1, u2,
         (u1 == u2) ? "same" : "DIFFERENT");
  delete grid; delete model; delete neigh;
}

// S5: Chebychev::fit does not keep the interval, eval() runs beyond the coefficients
static void s5()
{
  title("S5 Chebychev fit/eval");
  Chebychev c1;
  c1.init(101, 50, 0., 1.);
  c1.fit([](double x){ return exp(-x); }, 0., 4., 1.e-6);
  printf("number of coefficients kept = %d (ncMax=%d)\n", (int) c1.getCoeffs().size(), 101);
  printf("f(2)=%lf ; eval(2)=%lf (interval of fit [0,4], interval of eval [0,1])\n", exp(-2.), c1.eval(2.));
}

// S20: Grid::iteratorInit refused: the previous iterator is half kept
static void s20()
{
  title("S20 krigtest with iech0 = 0");
  Db* data = Db::createFromSamples(4, ELoadBy::SAMPLE,
     {5.,5., 1.,  0.,0., 2.,  3.,3., 3.,  1.,1., 4.}, {"x","y","v"}, {"x1","x2","z1"});
  DbGrid* grid = DbGrid::create({3,3}, {2.,2.});
  Model* model = Model::createFromParam(ECov::SPHERICAL, 10., 1.);
  NeighUnique* neigh = NeighUnique::create();
  Krigtest_Res r0 = krigtest(data, grid, model, neigh, 0, EKrigOpt::POINT, VectorInt(), false, false);
  Krigtest_Res r8 = krigtest(data, grid, model, neigh, 8, EKrigOpt::POINT, VectorInt(), false, false);
  Krigtest_Res r1 = krigtest(data, grid, model, neigh, 1, EKrigOpt::POINT, VectorInt(), false, false);
  printf("first weight: target 0 -> %lf ; target 8 -> %lf ; target 1 -> %lf\n",
         r0.wgt.getValue(0,0), r8.wgt.getValue(0,0), r1.wgt.getValue(0,0));
  delete data; delete grid; delete model; delete neigh;
}

int main()
{
  s11(); s13(); s5(); s20(); s18();
  return 0;
}
