// Side observations (batch 4): a refused DbGrid::reset leaves a Db whose grid
// definition and contents disagree
#include "Db/DbGrid.hpp"
#include <cstdio>
int main()
{
  DbGrid* g = DbGrid::create({4,3}, {1.,1.});
  printf("before: nx=(%d,%d) nech=%d ncol=%d ndim=%d\n", g->getNX(0), g->getNX(1), g->getSampleNumber(), g->getColumnNumber(), g->getNDim());
  int err = g->reset({5,2}, {1.,-1.});     // refused: negative mesh
  printf("reset returns %d\n", err);
  printf("after : nx=(%d,%d) nech=%d ncol=%d ndim=%d\n", g->getNX(0), g->getNX(1), g->getSampleNumber(), g->getColumnNumber(), g->getNDim());
  delete g;
  return 0;
}
