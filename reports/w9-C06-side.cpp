// Side observations on the unmodified tree: run "side <n>"; prints what is observed
#include "common.hpp"
#include "Geometry/BiTargetCheckDate.hpp"
#include "Basic/ASerializable.hpp"

static Db* makeDb3(const std::vector<double>& x, const std::vector<double>& y, const std::vector<double>& z)
{
  int n = (int)x.size();
  VectorDouble tab;
  for (int i = 0; i < n; i++) tab.push_back(x[i]);
  for (int i = 0; i < n; i++) tab.push_back(y[i]);
  for (int i = 0; i < n; i++) tab.push_back(z[i]);
  for (int i = 0; i < n; i++) tab.push_back(1. + i);
  return Db::createFromSamples(n, ELoadBy::COLUMN, tab, {"x", "y", "z", "v"}, {"x1", "x2", "x3", "z1"});
}

int main(int argc, char** argv)
{
  int which = (argc > 1) ? atoi(argv[1]) : 0;
  if (which == 1)
  { // 3-D isotropic neighbourhood ignores the third coordinate
    defineDefaultSpace(ESpaceType::RN, 3);
    Db* dbin  = makeDb3({0., 1.}, {0., 1.}, {100., 0.});
    Db* dbout = makeDb3({0.}, {0.}, {0.});
    NeighMoving* neigh = NeighMoving::create(false, 10, 5.);
    neigh->attach(dbin, dbout);
    VectorInt r; neigh->select(0, r);
    printVec("S1: 3-D, radius 5, sample 0 is at distance 100 along z, expected [ 1 ], got", toStd(r));
  }
  if (which == 2)
  { // changing the xvalid flag does not invalidate the memo of the last target
    defineDefaultSpace(ESpaceType::RN, 2);
    Db* db = makeDb({0., 1., 2., 3.}, {0., 0., 0., 0.});
    NeighMoving* neigh = NeighMoving::create(false, 10, 5.);
    neigh->attach(db, db);
    VectorInt r; neigh->select(1, r);
    printVec("S2: before setFlagXvalid(true), target 1:", toStd(r));
    neigh->setFlagXvalid(true);
    neigh->select(1, r);
    printVec("S2: after  setFlagXvalid(true), target 1 (expected [ 0 2 3 ]):", toStd(r));
  }
  if (which == 3)
  { // the Date pair checker never receives the dates
    defineDefaultSpace(ESpaceType::RN, 2);
    Db* dbin  = makeDb({0., 1., 2., 3.}, {0., 0., 0., 0.});
    Db* dbout = makeDb({1.5}, {0.});
    dbin->addColumns({10., 11., 12., 13.}, "date", ELoc::DATE);
    dbout->addColumns({10.}, "date", ELoc::DATE);
    NeighMoving* neigh = NeighMoving::create(false, 10, 5.);
    neigh->addBiTargetCheck(new BiTargetCheckDate(-5., 5.));
    int err = neigh->attach(dbin, dbout);
    VectorInt r; neigh->select(0, r);
    printf("S3: attach=%d; date differences all within [-5,5[: expected [ 0 1 2 3 ], got", err); printVec("", toStd(r));
  }
  if (which == 4)
  { // sector index out of range when the sample is a hair "below" the target on its left
    defineDefaultSpace(ESpaceType::RN, 2);
    Db* dbin  = makeDb({-1., 1., 0.}, {1e-20, 0., 1.});   // incr = target - sample = (1, -1e-20) for sample 0
    Db* dbout = makeDb({0.}, {0.});
    NeighMoving* neigh = NeighMoving::create(false, 2, 5., 1, 4, 1);
    neigh->attach(dbin, dbout);
    VectorInt r; neigh->select(0, r);
    printVec("S4: nsect=4 nsmax=1 nmaxi=2: got", toStd(r));
    VectorDouble s = neigh->summary(0);
    printf("S4: summary: nsel=%g non-empty sectors=%g\n", s[0], s[3]);
  }
  if (which == 5)
  { // reload after a save changes the anisotropic radius / drops the rotation
    defineDefaultSpace(ESpaceType::RN, 2);
    ASerializable::setContainerName(true);
    NeighMoving* neigh = NeighMoving::create(false, 10, 10., 1, 1, ITEST, {1., 0.5}, {30., 0.});
    neigh->dumpToNF("side_neigh.ascii");
    NeighMoving* neigh2 = NeighMoving::createFromNF("side_neigh.ascii", false);
    std::vector<double> x, y;
    for (int i = 0; i < 400; i++) { x.push_back(-20. + 40. * urand()); y.push_back(-20. + 40. * urand()); }
    Db* dbin = makeDb(x, y); Db* dbout = makeDb({0.}, {0.});
    neigh->attach(dbin, dbout); neigh2->attach(dbin, dbout);
    neigh->setNMaxi(0); neigh2->setNMaxi(0);
    VectorInt r1, r2; neigh->select(0, r1); neigh2->select(0, r2);
    printf("S5: original: %d neighbours; reloaded: %d neighbours; identical=%d\n", (int)r1.size(), (int)r2.size(), (int)(toStd(r1) == toStd(r2)));
    printf("S5: radius %g -> %g, coeffs (%g,%g) -> (%g,%g), flagRotation %d -> %d\n", neigh->getRadius(), neigh2->getRadius(),
           neigh->getAnisoCoeff(0), neigh->getAnisoCoeff(1), neigh2->getAnisoCoeff(0), neigh2->getAnisoCoeff(1),
           (int)neigh->getFlagRotation(), (int)neigh2->getFlagRotation());
  }
  if (which == 6)
  { // the tie-breaking perturbation reorders samples whose distances differ by less than distmax*rank*1e-9
    defineDefaultSpace(ESpaceType::RN, 2);
    int n = 3000;
    std::vector<double> x(n), y(n, 0.);
    x[0] = 1.001;                        // slightly farther
    for (int i = 1; i < n - 1; i++) x[i] = 1000.;
    x[n - 1] = 1.000;                    // the closest sample, but with a high rank
    Db* dbin = makeDb(x, y); Db* dbout = makeDb({0.}, {0.});
    NeighMoving* neigh = NeighMoving::create(false, 1, 2000.);
    neigh->attach(dbin, dbout);
    VectorInt r; neigh->select(0, r);
    printf("S6: nmaxi=1: expected [ %d ] (distance 1.000), got", n - 1); printVec("", toStd(r));
  }
  if (which == 7)
  { // Ball search + cross-validation: fewer than nmaxi although more qualify
    defineDefaultSpace(ESpaceType::RN, 2);
    Db* db = makeDb({0., 1., 2., 3., 4., 5.}, {0., 0., 0., 0., 0., 0.});
    NeighMoving* neigh = NeighMoving::create(true, 3, 100.);
    neigh->setBallSearch(true, 2);
    neigh->attach(db, db);
    VectorInt r; neigh->select(0, r);
    printVec("S7: xvalid, nmaxi=3, ball search, target 0: expected [ 1 2 3 ], got", toStd(r));
    // anisotropy is ignored by the pre-selection of the ball tree
    Db* dbin = makeDb({3., 0., 0.}, {0., 1., -1.}); Db* dbout = makeDb({0.}, {0.});
    NeighMoving* n2 = NeighMoving::create(false, 1, 1., 1, 1, ITEST, {10., 0.1});
    n2->setBallSearch(true, 2);
    n2->attach(dbin, dbout);
    n2->select(0, r);
    printVec("S7b: aniso radius (10, 0.1), nmaxi=1, ball search: expected [ 0 ], got", toStd(r));
  }
  if (which == 8)
  { // are the k nearest neighbours returned in increasing order ?
    defineDefaultSpace(ESpaceType::RN, 2);
    int nbad = 0, ntot = 0;
    for (int trial = 0; trial < 300; trial++)
    {
      int n = 60 + trial % 50;
      VectorVectorDouble data(2);
      for (int i = 0; i < n; i++) { data[0].push_back(urand()); data[1].push_back(urand()); }
      Ball ball(data, nullptr, 5);
      int k = 4 + trial % 40;
      VectorDouble t = {urand(), urand()};
      KNN knn = ball.queryOneAsVD(t, k);
      VectorDouble d = knn.getDistances(0);
      VectorInt id = knn.getIndices(0);
      std::vector<double> ref;
      for (int i = 0; i < n; i++) ref.push_back(hypot(data[0][i]-t[0], data[1][i]-t[1]));
      std::sort(ref.begin(), ref.end());
      bool bad = false;
      for (int j = 0; j < k; j++) if (fabs(d[j] - ref[j]) > 1e-12) bad = true;
      std::vector<double> ds; for (int j = 0; j < k; j++) ds.push_back(d[j]);
      std::sort(ds.begin(), ds.end());
      static int nset = 0;
      for (int j = 0; j < k; j++) if (fabs(ds[j] - ref[j]) > 1e-12) { nset++; break; }
      if (trial == 299) printf("S8: %d queries return a wrong SET (the others are only badly ordered)\n", nset);
      ntot++; if (bad) { nbad++; if (nbad == 1) { printf("S8: first bad case n=%d k=%d: distances:", n, k); for (int j = 0; j < k; j++) printf(" %.4f", d[j]); printf("\n"); } }
    }
    printf("S8: %d / %d kNN queries not equal to the sorted k smallest distances\n", nbad, ntot);
  }
  if (which == 9)
  { // the distance function is a process-wide global shared by all trees
    VectorVectorDouble data(2);
    data[0] = {3., 0.}; data[1] = {3., 4.5};       // P0=(3,3): L2=4.24 L1=6 ; P1=(0,4.5): L2=4.5 L1=4.5
    Ball b1(data, nullptr, 10, 1);                 // euclidean
    VectorDouble t = {0., 0.};
    int before = b1.queryClosest(t);
    Ball b2(data, nullptr, 10, 2);                 // manhattan tree created afterwards
    int after = b1.queryClosest(t);
    printf("S9: closest in the euclidean tree: %d before / %d after creating another tree with the manhattan distance\n", before, after);
  }
  if (which == 10)
  { // queryOneInPlace reports success when the query is refused
    VectorVectorDouble data(2);
    data[0] = {0., 1., 2.}; data[1] = {0., 0., 0.};
    Ball b(data, nullptr, 10, 1);
    VectorInt ind = {7, 7}; VectorDouble dist = {7., 7.};
    int err = b.queryOneInPlace({0., 0.}, 5, ind, dist);
    printf("S10: queryOneInPlace with k=5 > 3 points returns %d, indices untouched:", err); printVec("", toStd(ind));
  }
  return 0;
}
