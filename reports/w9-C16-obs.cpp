// Side observations on the unmodified tree (each block prints what it sees)
#include "Db/DbGrid.hpp"
#include "Db/Db.hpp"
#include "Basic/Grid.hpp"
#include "Basic/VectorNumT.hpp"
#include "geoslib_old_f.h"
#include <cstdio>
#include <cmath>
#include <cstring>

int main(int argc, char** argv)
{
  int which = (argc > 1) ? atoi(argv[1]) : 0;

  if (which == 0 || which == 1)
  {
    // O1: rotation set by matrix at the gimbal position: angles do not reproduce the matrix,
    //     so anything that copies a grid through its angles (resetFromGrid, copyParams(4), createCoarse...) changes the geometry
    Grid a;
    a.resetFromVector({4, 3, 5}, {1., 2., 3.}, {10., 20., 30.}, {30., 90., 20.});
    Grid g;
    g.resetFromVector({4, 3, 5}, {1., 2., 3.}, {10., 20., 30.});
    g.setRotationByVector(a.getRotMat());
    Grid h;
    h.resetFromGrid(&g);
    VectorDouble ang = g.getRotAngles();
    VectorDouble cg = g.indicesToCoordinate({3, 2, 4});
    VectorDouble ch = h.indicesToCoordinate({3, 2, 4});
    printf("O1: angles reported after setRotationByVector(M(30,90,20)) = %g %g %g\n", ang[0], ang[1], ang[2]);
    printf("O1: node (3,2,4) original = %g %g %g ; after resetFromGrid = %g %g %g\n", cg[0], cg[1], cg[2], ch[0], ch[1], ch[2]);
  }
  if (which == 0 || which == 2)
  {
    // O2: default eps=1e-6 moves points lying just below a cell border (or just outside the grid) into the next cell
    Grid g;
    g.resetFromVector({5, 5}, {1000., 1000.}, {0., 0.});
    VectorDouble p1 = {2999.9995, 500.};   // geometrically in cell 2 (corner mode)
    VectorDouble p2 = {-0.0005, 500.};     // geometrically outside
    VectorInt i1 = g.coordinateToIndices(p1);
    int r2 = g.coordinateToRank(p2);
    printf("O2: x=2999.9995 (dx=1000) -> index %d (floor gives 2); x=-0.0005 -> rank %d (should be -1)\n", i1.empty() ? -9 : i1[0], r2);
  }
  if (which == 0 || which == 3)
  {
    // O3: centerCoordinateInPlace with an undefined coordinate returns 0 and moves the point to the origin node
    DbGrid* db = DbGrid::create({5, 4}, {2., 3.}, {10., 20.});
    VectorDouble c = {TEST, 25.};
    int err = db->centerCoordinateInPlace(c, true, true);
    printf("O3: centerCoordinateInPlace({TEST,25}, stopIfOut=true) returns %d, coor = %g %g\n", err, c[0], c[1]);
  }
  if (which == 0 || which == 4)
  {
    // O4: Grid constructor leaves dx = 0 when dx is not given (resetFromVector defaults to 1): conversions divide by 0
    Grid g(2, {5, 4});
    printf("O4: Grid(2,{5,4}) dx = %g %g ; coordinateToRank({1,1}) = %d\n", g.getDX(0), g.getDX(1), g.coordinateToRank({1., 1.}));
    // and the constructor argument order is (nx, x0, dx) whereas resetFromVector/DbGrid::create use (nx, dx, x0)
  }
  if (which == 0 || which == 5)
  {
    // O5: 4-D grid: angles are stored and reported, but no rotation is applied
    Grid g;
    g.resetFromVector({3, 3, 3, 3}, {1., 1., 1., 1.}, {0., 0., 0., 0.}, {30., 0., 0., 0.});
    VectorDouble ang = g.getRotAngles();
    VectorDouble c = g.indicesToCoordinate({1, 0, 0, 0});
    printf("O5: 4-D angles reported = %g..., isRotated = %d, node(1,0,0,0) = %g %g\n", ang[0], (int) g.isRotated(), c[0], c[1]);
  }
  if (which == 6)
  {
    // O6: createSubGrid with inverted limits -> DbGrid::create fails -> null pointer dereferenced
    DbGrid* db = DbGrid::create({5, 4}, {2., 3.}, {10., 20.});
    DbGrid* sub = DbGrid::createSubGrid(db, {{3, 2}, {0, 2}});
    printf("O6: createSubGrid with inverted limits returned %p\n", (void*) sub);
  }
  if (which == 7)
  {
    // O7: iterator with a user order given 1-based (as iteratorInit validates it) is read 0-based by iteratorNext
    Grid g;
    g.resetFromVector({3, 2}, {1., 1.}, {0., 0.});
    g.iteratorInit({2, 1});
    for (int i = 0; i < 6; i++)
    {
      VectorInt ind = g.iteratorNext();
      printf("O7: iter %d -> (%d,%d)\n", i, ind[0], ind[1]);
    }
  }
  if (which == 8)
  {
    // O8: createFromGridShrink validates the loop counter instead of the rank
    DbGrid* db = DbGrid::create({5, 4, 3}, {2., 3., 1.}, {10., 20., 30.});
    DbGrid* s = DbGrid::createFromGridShrink(*db, {7});
    printf("O8: createFromGridShrink(rank 7 of a 3-D grid) returned ndim=%d\n", s == nullptr ? -1 : s->getNDim());
  }
  if (which == 0 || which == 9)
  {
    // O9: shrink of a rotated 3-D grid by its first dimension: the remaining 2-D grid is rotated by the 2nd Euler angle
    DbGrid* db = DbGrid::create({5, 4, 3}, {2., 3., 1.}, {10., 20., 30.}, {0., 40., 0.});
    DbGrid* s = DbGrid::createFromGridShrink(*db, {0});
    if (s != nullptr)
    {
      VectorDouble ang = s->getAngles();
      printf("O9: shrink dim 0 of grid with angles (0,40,0): 2-D grid angles = %g %g\n", ang[0], ang[1]);
    }
  }
  return 0;
}
