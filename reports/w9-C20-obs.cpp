// Side observations on the UNMODIFIED library (each block prints what it sees)
#include "Polygon/Polygons.hpp"
#include "Polygon/PolyElem.hpp"
#include "Db/Db.hpp"
#include "Basic/VectorNumT.hpp"
#include <cstdio>
#include <iostream>
#include <iomanip>

int main()
{
  std::cout << std::setprecision(17);
  // O1: PolyElem::inside (public) on a polygon left open
  {
    PolyElem open({0., 2., 2., 0.}, {0., 0., 2., 2.});
    std::cout << "O1 open square [0,2]^2, PolyElem::inside(-1,1) = "
              << open.inside({-1., 1.}) << " (truth 0); via Polygons::inside = ";
    Polygons p; p.addPolyElem(open);
    std::cout << p.inside({-1., 1.}) << std::endl;
  }
  // O2: closure test uses an absolute tolerance of 1e-5
  {
    double s = 4.e-6;
    Polygons p; p.addPolyElem(PolyElem({0., s, s, 0.}, {0., 0., s, s}));
    std::cout << "O2 open square of side 4e-6: inside(-1e-6, 2e-6) = "
              << p.inside({-1.e-6, 2.e-6}) << " (truth 0)" << std::endl;
    Polygons q; q.addPolyElem(PolyElem({0., 4., 4., 0.}, {0., 0., 4., 4.}));
    std::cout << "   same shape of side 4      : inside(-1, 2)       = "
              << q.inside({-1., 2.}) << " (truth 0)" << std::endl;
  }
  // O3: a point strictly inside (by one rounding) is reported outside
  {
    Polygons p; p.addPolyElem(PolyElem({0., 3., 10., 0.}, {0., 7., 0., 0.}));
    double xx = 9. / 7., yy = 3.;
    long double side = 3.L * (long double) yy - 7.L * (long double) xx; // <0 : right of edge (0,0)-(3,7) => inside
    std::cout << "O3 triangle (0,0)(3,7)(10,0): point (9./7.,3): exact 3*y-7*x = "
              << (double) side << " (negative => strictly inside); inside() = "
              << p.inside({xx, yy}) << std::endl;
  }
  // O4: neutral file keeps 15 significant digits only: vertices move on reload
  {
    double x0 = 0.1 + 0.2; // 0.30000000000000004
    Polygons p; p.addPolyElem(PolyElem({x0, 1., 1., x0, x0}, {0., 0., 1., 1., 0.}));
    p.dumpToNF("obs_poly.ascii");
    Polygons* q = Polygons::createFromNF("obs_poly.ascii", false);
    std::cout << "O4 vertex x saved " << x0 << " reloaded " << q->getX(0)[0]
              << "; point (0.3,0.5): before " << p.inside({0.3, 0.5})
              << " after reload " << q->inside({0.3, 0.5}) << " (truth 0)" << std::endl;
    delete q;
    std::remove("obs_poly.ascii");
  }
  // O5: dbPolygonDistance(polin != 0) calls polygon->inside(double, double)
  {
    Polygons p; p.addPolyElem(PolyElem({0., 10., 10., 0., 0.}, {0., 0., 10., 10., 0.}));
    VectorDouble tab = {5., 5., 20., 5., 5., 7., 30., 30.};
    Db* db = Db::createFromSamples(4, ELoadBy::SAMPLE, tab, {"x", "y"}, {"x1", "x2"});
    int err = dbPolygonDistance(db, &p, TEST, 0, 1);
    VectorDouble d = db->getColumnByColIdx(db->getColumnNumber() - 1);
    std::cout << "O5 dbPolygonDistance(polin=1) err=" << err << " distances:";
    for (int i = 0; i < 4; i++) std::cout << " " << (FFFF(d[i]) ? -999. : d[i]);
    std::cout << "  (expected 5 NA 3 NA; NA shown as -999)" << std::endl;
    delete db;
  }
  return 0;
}
