"""Swapped arguments in a forwarding call.  When a function forwards its own parameters / locals to a callee whose
parameters carry the same names, each name goes to the parameter of that name: `f(bench, cylrad)` forwarded as
`g(.., cylrad, bench, ..)` to `g(.., double bench, double cylrad, ..)` exchanges two quantities of the same type, which
the compiler cannot see.  Only exact two-way exchanges between identically named, identically typed parameters are reported."""
from facts import call_args, show, walk


def callee_params(prog, c):
    cal = c.get("callee")
    if not cal:
        return None
    nargs = len(call_args(c))
    cands = []
    for g in prog.fns(cal):
        if len(g.params) == nargs:
            cands.append([(p["n"], p["t"]) for p in g.params])
    if not cands and "::" in cal:
        cls, short = cal.rsplit("::", 1)
        for k in [cls] + prog.bases(cls):
            for m in prog.classes.get(k, {}).get("methods", []):
                if m["n"] == short and len(m["params"]) == nargs:
                    cands.append([(p["n"], p["t"]) for p in m["params"]])
    # all overloads with this arity must agree on the names, else the call is not judged
    if not cands or any(x != cands[0] for x in cands):
        return None
    return cands[0]


def rule(prog, chk, rule_id, file_filter=None, floor_n=1):
    n = 0
    for f in sorted(prog.funcs, key=lambda x: (x.file, x.line)):
        if f.body is None or (file_filter and not any(s in f.file for s in file_filter)):
            continue
        for c in f.calls():
            if c["k"] not in ("Call", "MCall", "Construct"):
                continue
            args = call_args(c)
            if len(args) < 2:
                continue
            P = callee_params(prog, c)
            if not P:
                continue
            names = []
            for a in args:
                x = a
                while x is not None and x["k"] == "Cast":
                    x = x["c"][0]
                names.append(x["n"] if x is not None and x["k"] == "DeclRefExpr" and x.get("dk") in ("var", "parm") else None)
            matched = [i for i, nm in enumerate(names) if nm is not None and nm in [p[0] for p in P]]
            if len(matched) < 2:
                continue
            n += 1
            swaps = []
            for i in matched:
                j = [p[0] for p in P].index(names[i])
                if j != i and j < len(names) and names[j] == P[i][0] and P[i][1] == P[j][1] and i < j:
                    a, b = names[i], names[j]
                    # deliberate transpositions of a symmetric pair of indices (ivar/jvar, irow/icol, ix/jx, iech1/iech2, db1/db2 ...)
                    # are how symmetric halves are filled: not judged
                    twin = (a[0] in "ij" and b[0] in "ij") or (a[:-1] == b[:-1] and a[-1].isdigit() and b[-1].isdigit()) or \
                           (len(a) == len(b) and sum(x != y for x, y in zip(a, b)) == 1)
                    if not twin:
                        swaps.append((i, j))
            chk.analysed(f)
            ok = not swaps
            chk.ob(rule_id, "%s: the call of %s forwards each same-named argument to the parameter of that name" % (f.name, c["callee"]), f.loc(c), ok,
                   detail=None if ok else "`%s` is passed as parameter `%s` and `%s` as parameter `%s` (both %s): the two quantities are exchanged" % (
                       names[swaps[0][0]], P[swaps[0][0]][0], names[swaps[0][1]], P[swaps[0][1]][0], P[swaps[0][0]][1]),
                   key="%s|%s|%s" % (rule_id, f.name + "/%d" % len(f.params), c["callee"]), nontrivial=True)
    chk.floor(rule_id, n, floor_n)
    return n
