"""C01 - kriging system assembled over exactly the neighbourhood samples (DESIGN.md section C01).
Decides the index discipline only (E5 index kinds): inside KrigingSystem a *position in the neighbourhood* (0.._nech-1) and a
*sample rank* of a data base are different kinds of integer.  A position reaches a data base / covariance / drift accessor
only through the neighbourhood vector (_nbgh[pos]); the neighbourhood vector is subscripted only by a position; the output
data base is accessed with the target rank.  In a moving neighbourhood position != rank, so a confusion assembles the system
over other samples than the selected ones.  Values of the system, signs, accuracy are NOT decided."""
import os

import facts
import gates
from facts import REPO, Program, extract, show, call_obj, call_args, walk, CALL_KINDS
from e1_paths import single_def
from report import Check

UNITS = ["src/Estimation/KrigingSystem.cpp", "src/Drifts/DriftList.cpp"]
CLS = "KrigingSystem"
# private helpers whose listed arguments are sample ranks of the input data base (-1 designates the target); from their
# doc comments, confirmed against the call sites
RANK_PARAMS = {
    "KrigingSystem::_getIdim": [0], "KrigingSystem::_getFext": [0], "KrigingSystem::_getIvar": [0], "KrigingSystem::_getVerr": [0],
    "KrigingSystem::_getFlagAddress": [0], "KrigingSystem::_continuousMultiplier": [0], "KrigingSystem::_covtab0Calcul": [1],
    "ACov::updateCovByPoints": [1, 3], "SpacePoint::setIech": [0], "Model::evalDriftValue": [1], "ANeigh::_xvalid": [0],
}
POS_FIELDS = {"_nech"}          # number of samples in the current neighbourhood
NBGH = "_nbgh"


def this_field(n):
    if n is None or n["k"] != "MemberExpr" or n.get("mk") != "field":
        return None
    b = (n.get("c") or [None])[0]
    return n["n"] if (b is None or b["k"] == "This") else None


class Kinds:
    def __init__(self, prog, f):
        self.prog = prog
        self.f = f
        self.loopbound = {}
        for loop in f.walk():
            if loop["k"] != "For":
                continue
            init, cond, inc, body = loop["c"]
            if cond is None:
                continue
            for x in walk(cond):
                if x["k"] == "BinOp" and x.get("op") == "<" and x["c"][0] is not None and x["c"][0]["k"] == "DeclRefExpr":
                    self.loopbound.setdefault(x["c"][0]["d"], []).append(x["c"][1])

    def bound_kind(self, b, depth=0):
        """kind of the values 0..b-1"""
        if b is None or depth > 3:
            return None
        if b["k"] == "Cast":
            return self.bound_kind(b["c"][0], depth + 1)
        if this_field(b) in POS_FIELDS:
            return "POS"
        if b["k"] == "MCall":
            short = (b.get("callee") or "").split("::")[-1]
            o = call_obj(b)
            if short in ("size", "length") and this_field(o) == NBGH:
                return "POS"
            if short == "getSampleNumber" and o is not None:
                a = call_args(b)
                if a and a[0] is not None and a[0]["k"] == "Bool" and a[0]["v"] is True:
                    return None
                s = show(o)
                if s in ("_dbin", "getDbin()"):
                    return "RANK_IN"
                if s in ("_dbout", "getDbout()"):
                    return "RANK_OUT"
        if b["k"] == "DeclRefExpr" and b.get("dk") == "var":
            d = single_def(self.f, b["d"])
            if d is not None and d is not b:
                return self.bound_kind(d, depth + 1)
        return None

    def kind(self, e, depth=0):
        """'POS', 'RANK_IN', 'RANK_OUT' or None (unknown) for an int expression"""
        if e is None or depth > 4:
            return None
        k = e["k"]
        if k == "Cast":
            return self.kind(e["c"][0], depth + 1)
        if this_field(e) == "_iechOut":
            return "RANK_OUT"
        if k in ("OpCall", "Index") and len(e.get("c") or []) == 2 and this_field(e["c"][0]) == NBGH:
            return "RANK_IN"
        if k == "DeclRefExpr" and e.get("dk") == "var":
            d = e["d"]
            if d in self.loopbound:
                ks = {self.bound_kind(b) for b in self.loopbound[d]}
                if len(ks) == 1:
                    return ks.pop()
                return None
            dd = single_def(self.f, d)
            if dd is not None and dd is not e:
                return self.kind(dd, depth + 1)
            # a local initialised from _getFlagAddress(..) is an ADDRESS in the compressed system (even if it is incremented later)
            for x in self.f.walk():
                if x["k"] == "VarDecl" and x.get("d") == d and x.get("c") and x["c"][0] is not None:
                    init = x["c"][0]
                    while init["k"] == "Cast":
                        init = init["c"][0]
                    if init["k"] == "MCall" and (init.get("callee") or "").endswith("::_getFlagAddress"):
                        return "ADDR"
        if k == "MCall" and (e.get("callee") or "").endswith("::_getFlagAddress"):
            return "ADDR"
        if k == "DeclRefExpr" and e.get("dk") == "parm":
            if e["n"] in ("iech_out",):
                return "RANK_OUT"
        return None


def fkey_of(f):
    return "%s/%d" % (f.name, len(f.params))


def branch_parameter_rule(prog, chk, files):
    """C01p - the equation asked about is the equation answered.  A helper of the drift list that splits on a mode flag (`if (_flagCombined) ..
    else ..`) and receives the rank of an equation / function / variable reads that rank in BOTH branches (when nothing outside the branches
    does): `DriftList::isDriftSampleDefined(db, ib, ..)` ignored `ib` in its default branch, so the unbiasedness equation of a variable
    that has no sample in the neighbourhood was kept and the cokriging system had a zero row (NaN estimates, zero standard deviation)."""
    n = 0
    for f in sorted(prog.funcs, key=lambda x: (x.file, x.line)):
        if f.body is None or not any(f.file.endswith(s_) for s_ in files) or f.body["k"] != "Block":
            continue
        ints = {p_["d"]: p_["n"] for p_ in f.params if p_["t"].strip() in ("int", "const int")}
        if not ints:
            continue
        for x in [y for y in f.body["c"] if y is not None and y["k"] == "If" and y["c"][-1] is not None and y["c"][-2] is not None]:
            cnd = {z.get("d") for z in walk(x["c"][-3])} if x["c"][-3] is not None else set()
            t = {z.get("d") for z in walk(x["c"][-2]) if z["k"] == "DeclRefExpr"}
            e = {z.get("d") for z in walk(x["c"][-1]) if z["k"] == "DeclRefExpr"}
            for d_, nm in sorted(ints.items(), key=lambda kv: kv[1]):
                if d_ in cnd or not (d_ in t or d_ in e):
                    continue
                elsewhere = any(z["k"] == "DeclRefExpr" and z.get("d") == d_ for y in f.body["c"] if y is not None and y["i"] != x["i"] for z in walk(y))
                if elsewhere:
                    continue
                n += 1
                ok = (d_ in t) == (d_ in e)
                chk.analysed(f)
                chk.ob("C01p", "%s: `%s` is read by both branches of `if (%s)`" % (f.name, nm, show(x["c"][-3])[:30]), f.loc(x), ok,
                       detail=None if ok else "only the %s branch reads `%s`: in the other mode the answer does not depend on the item asked about" % (
                           "first" if d_ in t else "else", nm), key="C01p|%s|%s" % (f.name, nm))
    chk.floor("C01p", n, 4)


def main(tier):
    chk = Check("C01", tier,
                "Static index-kind discipline of the kriging system assembly: positions in the neighbourhood and sample ranks are "
                "distinct kinds of integers; the input data base, the covariance / drift evaluators and the helpers that take a rank "
                "never receive a position, the neighbourhood vector is never subscripted by a rank, the output data base is accessed with "
                "the target rank. A necessary condition of 'assembled over exactly the neighbourhood samples' (in a moving neighbourhood "
                "position != rank). The numbers, signs and accuracy of the system are NOT decided; same-kind swaps are not detected.")
    units = [os.path.join(REPO, u) for u in UNITS]
    d = extract(units, "C01-" + tier)
    prog = Program().load_dir(d)
    dh, excluded = facts.extract_headers("C01h-" + tier)
    prog.load_dir(dh)
    chk.units = list(prog.units)
    n = 0
    nk = 0
    for f in sorted(prog.funcs, key=lambda x: (x.file, x.line)):
        if f.cls != CLS or f.body is None or not f.file.endswith("KrigingSystem.cpp"):
            continue
        K = Kinds(prog, f)
        fkey = "%s/%d" % (f.name, len(f.params))
        ordn = {}
        for c in f.walk():
            sinks = []      # (arg node, expected kinds, description)
            if c["k"] in ("OpCall", "Index") and len(c.get("c") or []) == 2 and this_field(c["c"][0]) == NBGH:
                sinks.append((c["c"][1], {"POS"}, "subscript of the neighbourhood vector"))
            elif c["k"] == "MCall" and (c.get("cls") or "").startswith("Db"):
                o = call_obj(c)
                s = show(o) if o is not None else ""
                ri = gates.rank_arg_index(prog, c)
                a = call_args(c)
                if ri is not None and ri < len(a) and s in ("_dbin", "_dbout"):
                    want = {"RANK_IN", "RANK_OUT"} if s == "_dbin" else {"RANK_OUT"}
                    sinks.append((a[ri], want, "sample rank of %s in %s" % (s, (c.get("callee") or "").split("::")[-1])))
            elif c["k"] in ("MCall", "Call") and c.get("callee") in RANK_PARAMS:
                a = call_args(c)
                for i in RANK_PARAMS[c["callee"]]:
                    if i < len(a):
                        sinks.append((a[i], {"RANK_IN", "RANK_OUT"}, "rank argument #%d of %s" % (i + 1, c["callee"].split("::")[-1])))
            for (arg, want, what) in sinks:
                kd = K.kind(arg)
                n += 1
                if kd is not None:
                    nk += 1
                chk.analysed(f)
                ok = kd is None or kd in want
                name = show(arg)[:30]
                ordn[(what, name)] = ordn.get((what, name), 0) + 1
                chk.ob("C01", "%s: %s receives `%s` (%s)" % (f.name, what, name, {None: "kind not inferred", "POS": "position in the neighbourhood", "ADDR": "address in the compressed system",
                                                                                    "RANK_IN": "rank in the input Db", "RANK_OUT": "target rank"}[kd]),
                       f.loc(c), ok,
                       detail=None if ok else "`%s` is a %s but this %s expects %s: with a moving neighbourhood or a selection the system is assembled "
                       "over other samples than the neighbourhood" % (name, {"POS": "position in the neighbourhood (0.._nech-1)", "ADDR": "address of a (sample, variable) in the compressed kriging system",
                                                                                 "RANK_IN": "sample rank of the input Db", "RANK_OUT": "target rank"}[kd],
                                                                         what, " or ".join(sorted(want))),
                       key="C01|%s|%s|%s#%d" % (fkey, what, name, ordn[(what, name)]), nontrivial=kd is not None)
    # C01v: per-variable locators (measurement-error variance V, variables Z) are read with the index of the variable being
    # assembled; a literal item is accepted only where the system is known to be monovariate (code mode: setKrigOptCode requires
    # one variable and one V column)
    from e1_paths import CFG, peel_cond
    nv = 0
    for f in sorted(prog.funcs, key=lambda x: (x.file, x.line)):
        if f.cls != CLS or f.body is None or f.cfg is None or not f.file.endswith("KrigingSystem.cpp"):
            continue
        varloops = set()
        for loop in f.walk():
            if loop["k"] == "For" and loop["c"][1] is not None:
                for x in walk(loop["c"][1]):
                    if x["k"] == "BinOp" and x.get("op") == "<" and x["c"][0] is not None and x["c"][0]["k"] == "DeclRefExpr" and \
                            this_field(x["c"][1]) in ("_nvar", "_nvarCL"):
                        varloops.add(x["c"][0]["d"])
        for c in f.calls():
            if c["k"] != "MCall" or (c.get("callee") or "").split("::")[-1] != "getLocVariable" or show(call_obj(c)) not in ("_dbin", "_dbout"):
                continue
            a = call_args(c)
            if len(a) < 3 or a[0] is None or (a[0].get("q") or show(a[0])) not in ("ELoc::V", "ELoc::Z"):
                continue
            item = a[2]
            while item is not None and item["k"] == "Cast":
                item = item["c"][0]
            nv += 1
            chk.analysed(f)
            if item is not None and item["k"] == "Int" and varloops:
                g = CFG(f)
                # monovariate context: every path to the call passes `_flagCode` true
                def eo(blk, k, s_):
                    cnd = g.cond(blk["b"])
                    if cnd is None or len(blk["s"]) != 2:
                        return True
                    core, pol = peel_cond(cnd)
                    if this_field(core) == "_flagCode":
                        return not (((k == 0) == pol) is True)
                    return True
                w = g.search(g.entry_pos(), is_target=lambda y, c=c: y["i"] == c["i"], edge_ok=eo) if g.pos_of(c) else None
                ok = w is None
                chk.ob("C01v", "%s: %s of the per-variable locator %s is read with the index of the variable being assembled" % (f.name, "item", a[0].get("q") or show(a[0])), f.loc(c), ok,
                       detail=None if ok else "item %s is a literal inside the loops over the variables (outside the monovariate code mode): every variable gets the "
                       "value of variable %s in the kriging system" % (item["v"], item["v"]), key="C01v|%s|%s|literal%d" % (fkey_of(f), a[0].get("q") or show(a[0]), item["v"]),
                       path=None if ok else g.describe(w))
            else:
                chk.ob("C01v", "%s: item `%s` of the per-variable locator %s" % (f.name, show(item)[:20], a[0].get("q") or show(a[0])), f.loc(c), True,
                       key="C01v|%s|%s|%s" % (fkey_of(f), a[0].get("q") or show(a[0]), show(item)[:20]), nontrivial=item is not None and item.get("d") in varloops)
    chk.floor("C01v", nv, 2)
    # C01b: the block whose variance C(v,v) enters the estimation variance is the block whose covariance with the data enters the
    # right-hand side: within one function, all the discretisations of the target block (DbGrid::getDiscretizedBlock) describe the
    # same block - same numbers of points, same target, same per-cell flag; only the randomisation arguments may differ
    nb = 0
    for f in sorted(prog.funcs, key=lambda x: (x.file, x.line)):
        if f.body is None:
            continue
        cs = [c for c in f.calls() if (c.get("callee") or "").endswith("::getDiscretizedBlock")]
        if len(cs) < 2:
            continue
        ref = [show(a) if a is not None else None for a in call_args(cs[0])[:3]]
        for c in cs[1:]:
            cur = [show(a) if a is not None else None for a in call_args(c)[:3]]
            nb += 1
            ok = cur == ref
            chk.analysed(f)
            chk.ob("C01b", "%s: the discretisations of the target block describe the same block" % f.name, f.loc(c), ok,
                   detail=None if ok else "one discretisation is built with (%s), another with (%s): the block variance C(v,v) is computed for another block than the one "
                   "whose covariance with the data forms the right-hand side (the estimation variance is not C(v,v) - lambda' C(data,v) of one block)" % (
                       ", ".join(map(str, ref)), ", ".join(map(str, cur))), key="C01b|%s" % fkey_of(f))
    chk.floor("C01b", nb, 1)
    # C01g: what the public getters report is the system that was solved.  KrigingSystem keeps two storages for each of its
    # matrices (full / compressed for heterotopic neighbourhoods) and a 'mode' pointer to the one in use (`_lhs = &_lhsf` ...):
    # a public getter that returns one of the two storages by name, without going through the mode pointer, reports a matrix
    # that was not filled for the other kind of neighbourhood (krigtest showed an all-zero L.H.S. for isotopic data)
    alts = {}
    for f in prog.funcs:
        if f.cls != "KrigingSystem" or f.body is None:
            continue
        for x in f.walk():
            if x["k"] == "Assign" and x.get("op") == "=" and x["c"][0] is not None and x["c"][0]["k"] == "MemberExpr" and x["c"][1] is not None:
                r = x["c"][1]
                while r["k"] == "Cast":
                    r = r["c"][0]
                if r["k"] == "UnOp" and r.get("op") == "&" and r["c"][0] is not None and r["c"][0]["k"] == "MemberExpr":
                    alts.setdefault(x["c"][0]["n"], set()).add(r["c"][0]["n"])
    alts = {p_: m_ for p_, m_ in alts.items() if len(m_) >= 2}
    owner = {m_: p_ for p_, ms in alts.items() for m_ in ms}
    ng = 0
    pub = {m["usr"] for m in prog.classes.get("KrigingSystem", {}).get("methods", []) if m.get("access") == "public"}
    for f in sorted(prog.funcs, key=lambda x: (x.file, x.line)):
        if f.cls != "KrigingSystem" or f.body is None or f.usr not in pub or f.kind != "method":
            continue
        everywhere = {x["n"] for x in f.walk() if x["k"] == "MemberExpr" and x.get("mk") == "field"}
        for r in f.walk():
            if r["k"] != "Return" or not r.get("c") or r["c"][0] is None:
                continue
            named = {x["n"] for x in walk(r["c"][0]) if x["k"] == "MemberExpr" and x.get("mk") == "field"}
            hit = sorted(m_ for m_ in named if m_ in owner)
            # the mode pointer may be consulted in the return expression or in a test that guards it (function level)
            through = {p_ for p_ in everywhere if p_ in alts}
            if not hit and not {p_ for p_ in named if p_ in alts}:
                continue
            ng += 1
            bad = [m_ for m_ in hit if owner[m_] not in through]
            chk.analysed(f)
            chk.ob("C01g", "%s: reports the storage in use (through the mode pointer)" % f.name, f.loc(r), not bad,
                   detail=None if not bad else "returns `%s` by name; the system that was solved is the one `%s` points to (it is `%s` or `%s` depending on the "
                   "neighbourhood): for the other kind of neighbourhood the getter reports a matrix that was never filled" % (
                       bad[0], owner[bad[0]], *sorted(alts[owner[bad[0]]])[:2]), key="C01g|%s" % f.name)
    chk.extra["mode_pointers"] = {k_: sorted(v_) for k_, v_ in alts.items()}
    chk.floor("C01g", ng, 3)
    chk.extra["sinks_with_inferred_kind"] = nk
    chk.floor("C01", n, 60)
    chk.floor("C01-kinded", nk, 30)
    branch_parameter_rule(prog, chk, ("src/Drifts/DriftList.cpp",))
    return chk.finish()
