"""C03 - every offered covariance structure is a valid model (DESIGN.md section C03).  Static clauses only:
 C03a  closed form: the body of _evaluateCov(h) of the piecewise-polynomial structures, evaluated abstractly (E6: exact
       rational arithmetic on a polynomial in h, branch decisions taken at rational sample points of each piece), IS the
       published polynomial on each piece, with C(0) = 1, continuity at the breakpoints and value 0 beyond the support
 C03b  necessary bound of validity: an isotropic correlation valid in R^d is >= inf Lambda_d (d=1: -1, d=2: -0.4028,
       d=3: -0.2173; valid in every dimension: >= 0); the polynomial pieces are evaluated exactly on a rational grid and a
       value below the bound of the dimension the class DECLARES (getMaxNDim) refutes the declaration
 C03c  declared domain: the constant returned by getMaxNDim() is not larger than the published maximal dimension
 C03d  the declared domain is enforced on the final object: the constructor of the base class cannot do it (a virtual call
       from a constructor does not reach the overrider), so every constructor that creates a basic structure tests it
 C03e  factory exhaustiveness: every ECov enumerator has a case in CovFactory::createCovFunc and duplicateCovFunc, and the
       class built for E_X passes ECov::X to ACovFunc
 C03f  variogram form: in CovAniso::_evalCorFromH the variogram is C(0) - C(h) built from the same evaluation
Positive definiteness itself (all point sets), non-polynomial structures, sums, anisotropy / rotation geometry and sill
matrices are NOT decided."""
import os
from fractions import Fraction as Fr

import facts
from facts import REPO, Program, extract, show, call_obj, call_args, walk
from e1_paths import CFG, single_def
from e6_abseval import Interp, Poly, Unsupported, Return
from report import Check

# ---- published definitions (a table of mathematics; Chiles & Delfiner 2012 sec. 2.5; Wendland 1995) ----------------------
# pieces: (from, to, polynomial as a product of factors [(coefficients low->high, power)], scale)
ONE_MINUS_H = [1, -1]
PUBLISHED = {
    "CovSpherical": {"pieces": [(0, 1, [([1, Fr(-3, 2), 0, Fr(1, 2)], 1)], 1)], "maxdim": 3,
                     "ref": "spherical model 1 - 3/2 h + 1/2 h^3, valid in R^3"},
    "CovCubic": {"pieces": [(0, 1, [([1, 0, -7, Fr(35, 4), 0, Fr(-7, 2), 0, Fr(3, 4)], 1)], 1)], "maxdim": 3,
                 "ref": "cubic model 1 - 7h^2 + 35/4 h^3 - 7/2 h^5 + 3/4 h^7, valid in R^3"},
    "CovTriangle": {"pieces": [(0, 1, [(ONE_MINUS_H, 1)], 1)], "maxdim": 1, "ref": "triangle (tent) model 1 - h, valid in R^1 only"},
    "CovWendland0": {"pieces": [(0, 1, [(ONE_MINUS_H, 2)], 1)], "maxdim": 3, "ref": "Wendland phi_{3,0} = (1-h)^2"},
    "CovWendland1": {"pieces": [(0, 1, [(ONE_MINUS_H, 4), ([1, 4], 1)], 1)], "maxdim": 3, "ref": "Wendland phi_{3,1} = (1-h)^4 (4h+1)"},
    "CovWendland2": {"pieces": [(0, 1, [(ONE_MINUS_H, 6), ([3, 18, 35], 1)], Fr(1, 3))], "maxdim": 3,
                     "ref": "Wendland phi_{3,2} = (1-h)^6 (35h^2+18h+3)/3"},
}
# structures evaluated for the bound C03b only (no published polynomial is asserted for them)
POLY_ONLY = {"CovPenta": {"support": 2}}
# published maximal dimension of the structures that override getMaxNDim or should (C03c)
MAXDIM = {"CovSpherical": 3, "CovCubic": 3, "CovTriangle": 1, "CovWendland0": 3, "CovWendland1": 3, "CovWendland2": 3,
          "CovCosinus": 1, "CovStorkey": 1, "CovReg1D": 1, "CovPenta": 3, "CovGCspline2": 3,
          "CovSincard": 3}       # sin(h)/h is the characteristic function of the uniform law on the sphere of R^3 (Schoenberg): not valid in R^4
LAMBDA_INF = {1: Fr(-1), 2: Fr(-4028, 10000), 3: Fr(-2173, 10000)}     # slightly BELOW inf Lambda_d, so that a refutation is sound
UNITS = None


def poly_from(coeffs):
    p = Poly()
    h = Poly.var("h")
    x = Poly.const(1)
    for c in coeffs:
        p = p + x * Poly.const(Fr(c))
        x = x * h
    return p


def published_poly(factors, scale):
    p = Poly.const(Fr(scale))
    for coeffs, power in factors:
        q = poly_from(coeffs)
        for _ in range(power):
            p = p * q
    return p


class Dual:
    """a polynomial in h together with its value at a rational point: arithmetic on both, comparisons on the value"""
    __slots__ = ("p", "v")

    def __init__(self, p, v):
        self.p, self.v = p, Fr(v)

    @staticmethod
    def lift(x):
        if isinstance(x, Dual):
            return x
        if isinstance(x, bool):
            x = int(x)
        return Dual(Poly.const(Fr(x)), Fr(x))

    def __add__(self, o): o = Dual.lift(o); return Dual(self.p + o.p, self.v + o.v)
    __radd__ = __add__
    def __neg__(self): return Dual(-self.p, -self.v)
    def __sub__(self, o): o = Dual.lift(o); return Dual(self.p - o.p, self.v - o.v)
    def __rsub__(self, o): return Dual.lift(o) - self
    def __mul__(self, o): o = Dual.lift(o); return Dual(self.p * o.p, self.v * o.v)
    __rmul__ = __mul__

    def __truediv__(self, o):
        o = Dual.lift(o)
        if not o.p.is_const():
            raise Unsupported("division by a non-constant")
        return Dual(self.p * Poly.const(1 / o.v), self.v / o.v)

    def __rtruediv__(self, o): return Dual.lift(o) / self
    def __lt__(self, o): return self.v < Dual.lift(o).v
    def __le__(self, o): return self.v <= Dual.lift(o).v
    def __gt__(self, o): return self.v > Dual.lift(o).v
    def __ge__(self, o): return self.v >= Dual.lift(o).v
    def __eq__(self, o): return self.v == Dual.lift(o).v
    def __ne__(self, o): return self.v != Dual.lift(o).v
    def __hash__(self): return hash(self.v)


def eval_cov(f, x):
    """abstract run of _evaluateCov at h = x: (polynomial followed by the run, value)"""
    env = {f.params[0]["d"]: Dual(Poly.var("h"), x)}

    def hook(n, it):
        raise Unsupported("call of %s in a polynomial structure" % (n.get("callee") or "?"))
    it = Interp(env, call_hook=hook)
    it.truth = lambda v: (v.v != 0) if isinstance(v, Dual) else (v if isinstance(v, bool) else v != 0)
    try:
        it.run(f.body)
    except Return as r:
        return Dual.lift(r.v)
    raise Unsupported("no return value")


def sample_points(a, b, n=14):
    a, b = Fr(a), Fr(b)
    w = b - a
    pts = [a + w * Fr(k, n) for k in range(1, n)] + [a + w * Fr(1, 1000), b - w * Fr(1, 1000)]
    return sorted(set(pts))


def declared_maxdim(prog, cls):
    """(value or None when not overridden, function)"""
    for f in prog.funcs:
        if f.name == cls + "::getMaxNDim" and f.body is not None:
            rets = [x for x in f.walk() if x["k"] == "Return"]
            if len(rets) == 1 and rets[0].get("c") and rets[0]["c"][0] is not None:
                v = rets[0]["c"][0]
                while v["k"] == "Cast":
                    v = v["c"][0]
                if v["k"] == "Int":
                    return v["v"], f
            raise facts.AnalysisBroken("%s::getMaxNDim does not return a literal" % cls)
    return None, None


def rule_a(prog, chk):
    n = 0
    polys = {}
    for cls in sorted(list(PUBLISHED) + list(POLY_ONLY)):
        f = prog.fn(cls + "::_evaluateCov")
        chk.analysed(f)
        spec = PUBLISHED.get(cls)
        pieces = spec["pieces"] if spec else None
        support = pieces[-1][1] if spec else POLY_ONLY[cls]["support"]
        # -- the polynomial followed on each unit interval of the support, and its stability inside the interval
        got = {}
        try:
            bounds = sorted({Fr(0), Fr(support)} | ({Fr(p[0]) for p in pieces} | {Fr(p[1]) for p in pieces} if pieces else {Fr(k) for k in range(support + 1)}))
            for a, b in zip(bounds, bounds[1:]):
                ps = {}
                for x in sample_points(a, b):
                    r = eval_cov(f, x)
                    ps.setdefault(repr(r.p), (r.p, x))
                got[(a, b)] = ps
            beyond = [eval_cov(f, Fr(support) + d) for d in (Fr(0), Fr(1, 1000), Fr(1, 2), Fr(3), Fr(1000))]
            at0 = eval_cov(f, Fr(0))
        except Unsupported as e:
            raise facts.AnalysisBroken("%s::_evaluateCov is outside the polynomial fragment: %s" % (cls, e))
        polys[cls] = (got, support)
        if not spec:
            continue
        for (a, b, factors, scale) in pieces:
            want = published_poly(factors, scale)
            ps = got[(Fr(a), Fr(b))]
            n += 1
            ok = len(ps) == 1 and list(ps.values())[0][0] == want
            detail = None
            if not ok:
                if len(ps) > 1:
                    detail = "the code follows %d different polynomials inside ]%s,%s[ (e.g. at h=%s and h=%s): a breakpoint the published model " \
                             "does not have" % (len(ps), a, b, list(ps.values())[0][1], list(ps.values())[1][1])
                else:
                    detail = "the code computes %s, the published model (%s) is %s" % (list(ps.values())[0][0], spec["ref"], want)
            chk.ob("C03a", "%s::_evaluateCov is the published polynomial on [%s,%s[" % (cls, a, b), f.loc(), ok, detail=detail,
                   key="C03a|%s|piece %s-%s" % (cls, a, b))
        n += 1
        ok0 = at0.v == 1
        chk.ob("C03a", "%s: C(0) = 1" % cls, f.loc(), ok0, detail=None if ok0 else "C(0) = %s" % at0.v, key="C03a|%s|C(0)" % cls)
        n += 1
        okb = all(r.v == 0 for r in beyond)
        chk.ob("C03a", "%s vanishes from its range on (compact support)" % cls, f.loc(), okb,
               detail=None if okb else "the value beyond the range is not 0 (e.g. %s)" % [str(r.v) for r in beyond if r.v != 0][:2],
               key="C03a|%s|support" % cls)
    chk.floor("C03a", n, 15)
    return polys


def rule_b(prog, chk, polys):
    n = 0
    for cls, (got, support) in sorted(polys.items()):
        f = prog.fn(cls + "::_evaluateCov")
        dim, fdim = declared_maxdim(prog, cls)
        bound = Fr(0) if dim is None or dim > 3 else LAMBDA_INF[dim]
        worst = None
        for (a, b), ps in got.items():
            for key, (p, x0) in ps.items():
                co = p.coeffs("h")
                for x in sample_points(a, b, 40) + [a]:
                    v = sum(c.t.get((), Fr(0)) * x ** k for k, c in co.items())
                    if worst is None or v < worst[0]:
                        worst = (v, x)
        n += 1
        ok = worst[0] >= bound
        chk.ob("C03b", "%s (declared valid up to %s dimension(s)): no value below the bound %s of an isotropic correlation of that dimension" % (
                   cls, "any" if dim is None else dim, float(bound)), (fdim or f).loc(), ok,
               detail=None if ok else "C(%s) = %s < %s = inf Lambda_%s: no isotropic correlation function of R^%s takes this value, so the structure "
               "is not positive definite in the %s-D space it declares (kriging variances can be negative)" % (
                   worst[1], worst[0], float(bound), dim if dim else "inf", dim if dim else "n", dim if dim else "n"),
               key="C03b|%s" % cls)
    chk.floor("C03b", n, 7)


def rule_c(prog, chk):
    n = 0
    for cls, pub in sorted(MAXDIM.items()):
        dim, f = declared_maxdim(prog, cls)
        ev = prog.fn(cls + "::_evaluateCov", required=False)
        if ev is None:
            raise facts.AnalysisBroken("structure %s not found" % cls)
        n += 1
        ok = dim is not None and 0 < dim <= pub
        chk.analysed(f or ev)
        chk.ob("C03c", "%s declares a maximal space dimension <= %d (published domain of validity)" % (cls, pub), (f or ev).loc(), ok,
               detail=None if ok else ("the class does not override getMaxNDim(): the structure is offered in every dimension" if dim is None else
                                       "getMaxNDim() returns %s" % dim) + ", the structure is positive definite up to R^%d only" % pub,
               key="C03c|%s" % cls)
    chk.floor("C03c", n, 10)


def rule_d(prog, chk):
    """enforcement on the final object"""
    n = 0
    # (1) negative part: a constructor of ACovFunc cannot test the domain (virtual dispatch is off during construction)
    virt_over = {}
    for c, info in prog.classes.items():
        if "ACovFunc" in prog.bases(c):
            for m in info.get("methods", []):
                virt_over.setdefault(m["n"], set()).add(c)
    for f in prog.funcs:
        if f.cls != "ACovFunc" or f.kind != "ctor" or f.body is None:
            continue
        # virtual methods of the derived classes reached from the constructor through calls on `this`
        reached, work, seen = [], [f], set()
        while work:
            g = work.pop()
            if g.usr in seen:
                continue
            seen.add(g.usr)
            for c in g.calls():
                o = call_obj(c)
                if c["k"] == "MCall" and (o is None or o["k"] == "This") and (c.get("callee") or "").startswith("ACovFunc::"):
                    short = c["callee"].split("::")[-1]
                    if c.get("virt") and short in virt_over:
                        reached.append((g, c, short))
                    work += [h for h in prog.fns(c["callee"]) if h.body is not None]
        n += 1
        chk.analysed(f)
        chk.ob("C03d", "%s: the constructor of the base class does not rely on a member function that the structures override" % f.sig(),
               f.loc(reached[0][1]) if reached else f.loc(), not reached,
               detail=None if not reached else "the constructor reaches the virtual %s() (through %s): during the construction of the base class the "
               "call is bound to ACovFunc::%s, never to the override of the structure being built, so the test made with it is vacuous" % (
                   reached[0][2], reached[0][0].name, reached[0][2]),
               key="C03d|%s/%d|virtual-in-ctor" % (f.name, len(f.params)))
    # (2) positive part: who creates a basic structure tests the finished object
    for f in sorted(prog.funcs, key=lambda x: (x.file, x.line)):
        if f.body is None or f.cfg is None or f.cls != "CovAniso":
            continue
        creates = [c for c in f.calls() if (c.get("callee") or "") == "CovFactory::createCovFunc"]
        if not creates:
            continue
        n += 1
        chk.analysed(f)

        def reaches_check(g, depth=0, seen=None):
            seen = seen if seen is not None else set()
            if g.usr in seen or depth > 2 or g.body is None:
                return False
            seen.add(g.usr)
            for c in g.calls():
                short = (c.get("callee") or "").split("::")[-1]
                if c["k"] == "MCall" and short in ("isConsistent", "getMaxNDim") and c.get("virt") and (c.get("cls") or "").startswith(("ACovFunc", "Cov")):
                    o = call_obj(c)
                    if o is not None and o["k"] != "This":
                        return True
                if c["k"] in ("Call",) and (c.get("callee") or "") in ("_isValid", "CovHelper::isValid"):
                    return True
                if c["k"] == "MCall" and (call_obj(c) is None or call_obj(c)["k"] == "This"):
                    if any(reaches_check(h, depth + 1, seen) for h in prog.fns(c.get("callee") or "")):
                        return True
            return False
        ok = reaches_check(f)
        chk.ob("C03d", "%s: the structure created by the factory is tested against its declared domain (space dimension)" % f.sig(), f.loc(creates[0]), ok,
               detail=None if ok else "the structure is created and kept without any test of getMaxNDim() on the finished object: a structure valid "
               "in R^1 only is accepted in a 2-D or 3-D model, whose covariance matrices are then not positive semi-definite",
               key="C03d|%s/%d|domain-test" % (f.name, len(f.params)))
    chk.floor("C03d", n, 3)


def rule_e(prog, chk):
    n = 0
    consts = [c["n"] for c in prog.enums.get("ECov::EECov", {}).get("consts", []) if c["n"] not in ("E_UNKNOWN", "E_FUNCTION")]
    if len(consts) < 25:
        raise facts.AnalysisBroken("enumeration ECov::EECov not found")
    facs = [f for nm in ("CovFactory::createCovFunc", "CovFactory::duplicateCovFunc") for f in prog.fns(nm) if f.body is not None]
    if len(facs) != 2:
        raise facts.AnalysisBroken("CovFactory::createCovFunc / duplicateCovFunc not found")
    for f in facs:
        chk.analysed(f)
        cases = {}
        for x in f.walk():
            if x["k"] == "Case" and x.get("c") and x["c"][0] is not None:
                lab = x["c"][0]
                while lab["k"] == "Cast":
                    lab = lab["c"][0]
                news = [y for y in walk(x) if y["k"] == "New"]
                cases[lab.get("n")] = (x, news[0].get("t") if news else None)
        for e in consts:
            n += 1
            ok = e in cases and cases[e][1] is not None
            detail = None
            where = f.loc(cases[e][0]) if e in cases else f.loc()
            if ok:
                # the class built for E_X announces ECov::X
                cls = cases[e][1].replace("class ", "").strip()
                tags = set()
                for g in prog.funcs:
                    if g.cls == cls and g.kind == "ctor":
                        for init in g.d.get("inits") or []:
                            if init.get("base") and "ACovFunc" in init["base"] and init.get("init") is not None:
                                for y in walk(init["init"]):
                                    if y["k"] == "DeclRefExpr" and (y.get("q") or "").startswith("ECov::") and y.get("dk") in ("smember", "var", "other", "enum"):
                                        tags.add(y["n"])
                ctor_seen = any(g.cls == cls and g.kind == "ctor" and g.body is not None for g in prog.funcs)
                if ctor_seen and tags and ("E_" + sorted(tags)[0] != e and sorted(tags)[0] != e[2:]):
                    ok = False
                    detail = "the factory builds %s for %s, but %s announces itself as ECov::%s: the model is saved / printed / fitted as another structure" % (
                        cls, e, cls, sorted(tags)[0])
            else:
                detail = "no case for ECov::%s: the factory returns nullptr for an offered structure" % e
            chk.ob("C03e", "%s builds the class of ECov::%s" % (f.name, e), where, ok, detail=detail, key="C03e|%s|%s" % (f.short, e))
    chk.floor("C03e", n, 60)


def rule_f(prog, chk):
    f = prog.fn("CovAniso::_evalCorFromH")
    chk.analysed(f)
    g = CFG(f)
    found = []
    for s in f.walk():
        if s["k"] != "If" or len(s["c"]) < 2:
            continue
        cond = s["c"][0]
        if cond is None or not any(y["k"] == "MCall" and (y.get("callee") or "").endswith("::getAsVario") for y in walk(cond)):
            continue
        for x in walk(s["c"][1]):
            if x["k"] == "Assign" and x.get("op") == "=":
                lhs, rhs = x["c"]
                while rhs is not None and rhs["k"] == "Cast":
                    rhs = rhs["c"][0]
                ok = False
                if rhs is not None and rhs["k"] == "BinOp" and rhs.get("op") == "-":
                    a, b = rhs["c"]

                    def is_c0(e, depth=0):
                        while e is not None and e["k"] == "Cast":
                            e = e["c"][0]
                        if e is None or depth > 2:
                            return False
                        if e["k"] == "MCall" and (e.get("callee") or "").endswith("::evalCov"):
                            args = call_args(e)
                            return bool(args) and args[0] is not None and args[0]["k"] in ("Int", "Float") and args[0]["v"] == 0
                        if e["k"] == "DeclRefExpr" and e.get("dk") == "var":
                            d = single_def(f, e["d"])
                            return d is not None and d is not e and is_c0(d, depth + 1)
                        return False
                    same = b is not None and b["k"] == "DeclRefExpr" and lhs is not None and lhs["k"] == "DeclRefExpr" and b.get("d") == lhs.get("d")
                    # the subtracted variable holds an evaluation of the same structure
                    ok = is_c0(a) and same
                found.append((x, ok))
    chk.floor("C03f", len(found), 1)
    for x, ok in found:
        chk.ob("C03f", "CovAniso::_evalCorFromH: the variogram is evalCov(0) minus the covariance just evaluated", f.loc(x), ok,
               detail=None if ok else "`%s` is not C(0) - C(h) built from the same evaluation" % show(x)[:60], key="C03f|_evalCorFromH")


def rule_g(prog, chk):
    """C03g - variable numbers vs ranks in a list of requested variables (E5 kinds).  The matrix builders take a list `ivars` of
    variable numbers; a loop variable bounded by the length of that list is a RANK in the list and reaches a sill / covariance
    evaluation only through `ivars[rank]`: used directly, the covariance of another variable pair (a cross-sill on the diagonal) is
    written, and the matrix is no longer positive semi-definite."""
    import argswap
    n = nk = 0
    for f in sorted(prog.funcs, key=lambda x: (x.file, x.line)):
        if f.body is None or "src/Covariances/" not in f.file:
            continue
        lists = {p["d"] for p in f.params if "VectorInt" in p["t"] and "var" in p["n"].lower()} | \
                {x["d"] for x in f.walk() if x["k"] == "VarDecl" and "VectorInt" in (x.get("t") or "") and "var" in x["n"].lower()}
        if not lists:
            continue
        ranks = set()
        for loop in f.walk():
            if loop["k"] == "For" and loop["c"][1] is not None:
                for x in walk(loop["c"][1]):
                    if x["k"] == "BinOp" and x.get("op") == "<" and x["c"][0] is not None and x["c"][0]["k"] == "DeclRefExpr":
                        b = x["c"][1]
                        for _ in range(3):
                            while b is not None and b["k"] == "Cast":
                                b = b["c"][0]
                            if b is not None and b["k"] == "DeclRefExpr" and b.get("dk") == "var":
                                b = single_def(f, b["d"])
                            else:
                                break
                        if b is not None and b["k"] == "MCall" and (b.get("callee") or "").split("::")[-1] == "size":
                            o = call_obj(b)
                            if o is not None and o["k"] == "DeclRefExpr" and o.get("d") in lists:
                                ranks.add(x["c"][0]["d"])
        if not ranks:
            continue
        for c in f.calls():
            if c["k"] not in ("MCall", "Call"):
                continue
            args = call_args(c)
            short = (c.get("callee") or "").split("::")[-1]
            # names of the parameters at each position, over every declaration of that name and arity
            names_at = {}
            cal = c.get("callee") or ""
            cands = [[(p["n"]) for p in g.params] for g in prog.fns(cal) if len(g.params) >= len(args)]
            if "::" in cal:
                cls_, sh_ = cal.rsplit("::", 1)
                for k_ in [cls_] + prog.bases(cls_) + prog.derived(cls_):
                    for m in prog.classes.get(k_, {}).get("methods", []):
                        if m["n"] == sh_ and len(m["params"]) >= len(args):
                            cands.append([p["n"] for p in m["params"]])
            for cand in cands:
                for i_, nm in enumerate(cand):
                    names_at.setdefault(i_, set()).add(nm)
            P = None
            sill = c["k"] == "MCall" and call_obj(c) is not None and show(call_obj(c)) == "_sill" and short == "getValue"
            for i, a in enumerate(args):
                x = a
                while x is not None and x["k"] == "Cast":
                    x = x["c"][0]
                if x is None or x["k"] != "DeclRefExpr":
                    continue
                allowed = {"ivar", "jvar", "ivar0", "jvar0", "ivar1", "jvar1", "ivar2", "jvar2"}
                wants_var = (sill and i < 2) or (bool(names_at.get(i)) and names_at[i] <= allowed)
                if not wants_var:
                    continue
                n += 1
                bad = x.get("d") in ranks
                if bad:
                    chk.analysed(f)
                chk.ob("C03g", "%s: the variable number passed to %s is not a rank in the list of requested variables" % (f.name, short), f.loc(c), not bad,
                       detail=None if not bad else "`%s` ranges over the positions of the list of requested variables and is used as a variable number: when the "
                       "list is not 0,1,2.. the sill of another pair of variables is used" % x["n"],
                       key="C03g|%s/%d|%s(%s)#%d" % (f.name, len(f.params), short, x["n"], i), nontrivial=bad)
    chk.floor("C03g", n, 8)


def rule_g2(prog, chk):
    """C03g2 - the converse kind: a local matrix DIMENSIONED by the length of the list of requested variables is subscripted with
    ranks in that list, never with the variable numbers read from it (`mat0(nvar1, nvar2)` filled with `mat0.setValue(ivars[i],
    jvars[j], ..)` is written and read out of range as soon as the requested variable is not number 0)."""
    n = 0
    for f in sorted(prog.funcs, key=lambda x: (x.file, x.line)):
        if f.body is None or "src/Covariances/" not in f.file:
            continue
        lists = {p["d"] for p in f.params if "VectorInt" in p["t"] and "var" in p["n"].lower()} | \
                {x["d"] for x in f.walk() if x["k"] == "VarDecl" and "VectorInt" in (x.get("t") or "") and "var" in x["n"].lower()}
        if not lists:
            continue

        def from_size(e, depth=0):
            while e is not None and e["k"] == "Cast":
                e = e["c"][0]
            if e is None or depth > 3:
                return False
            if e["k"] == "MCall" and (e.get("callee") or "").split("::")[-1] == "size":
                o = call_obj(e)
                return o is not None and o["k"] == "DeclRefExpr" and o.get("d") in lists
            if e["k"] == "DeclRefExpr" and e.get("dk") == "var":
                d = single_def(f, e["d"])
                return d is not None and d is not e and from_size(d, depth + 1)
            return False
        mats = set()
        varnum = set()
        for x in f.walk():
            if x["k"] == "VarDecl" and x.get("c") and x["c"][0] is not None:
                init = x["c"][0]
                if init["k"] == "Construct" and "Matrix" in (x.get("t") or ""):
                    a = [y for y in call_args(init) if y is not None and y["k"] != "DefaultArg"]
                    if a and all(from_size(y) for y in a[:2]):
                        mats.add(x["d"])
                e = init
                while e is not None and e["k"] == "Cast":
                    e = e["c"][0]
                if e is not None and (e["k"] == "Index" or (e["k"] == "OpCall" and e.get("op") == "[]")) and e["c"][0] is not None and \
                        e["c"][0]["k"] == "DeclRefExpr" and e["c"][0].get("d") in lists:
                    varnum.add(x["d"])
        if not mats:
            continue
        for c in f.calls():
            if c["k"] != "MCall" or (c.get("callee") or "").split("::")[-1] not in ("setValue", "getValue", "updValue", "addValue"):
                continue
            o = call_obj(c)
            if o is None or o["k"] != "DeclRefExpr" or o.get("d") not in mats:
                continue
            for i, a in enumerate(call_args(c)[:2]):
                x = a
                while x is not None and x["k"] == "Cast":
                    x = x["c"][0]
                if x is None or x["k"] != "DeclRefExpr":
                    continue
                n += 1
                bad = x.get("d") in varnum
                if bad:
                    chk.analysed(f)
                chk.ob("C03g2", "%s: `%s` (dimensioned by the number of requested variables) is subscripted with a rank in the list" % (f.name, o["n"]), f.loc(c), not bad,
                       detail=None if not bad else "`%s` is a variable NUMBER read from the list of requested variables; the matrix has one row / column per requested "
                       "variable: for a request other than variable 0 the cell is outside the matrix (the value is lost, what is read back is undefined)" % x["n"],
                       key="C03g2|%s/%d|%s.%s(%s)#%d" % (f.name, len(f.params), o["n"], c["callee"].split("::")[-1], x["n"], i), nontrivial=bad)
    chk.floor("C03g2", n, 2)


def rule_s(prog, chk):
    """C03s - an in-place rescaling of a SYMMETRIC matrix visits each pair of variables once.  `setSill(icov, i, j, f(getSill(icov, i, j)))`
    writes the cells (i,j) and (j,i) of the symmetric storage: inside a double loop where both i and j run over all the variables the
    cross terms are transformed twice (Model::standardize divided every cross sill twice: [[.25,.2],[.2,.25]] became [[1,3.2],[3.2,1]],
    which is not positive semi-definite)."""
    SYMSET = {"setSill": "getSill", "setValue": "getValue"}
    n = 0
    for f in sorted(prog.funcs, key=lambda x: (x.file, x.line)):
        if f.body is None:
            continue
        loops = {}
        for L in f.walk():
            if L["k"] == "For" and L["c"][1] is not None:
                c = L["c"][1]
                if c["k"] == "BinOp" and c.get("op") in ("<", "<=") and c["c"][0] is not None and c["c"][0]["k"] == "DeclRefExpr":
                    loops[c["c"][0]["d"]] = show(c["c"][1])
        if len(loops) < 2:
            continue
        for c in f.calls():
            if c["k"] != "MCall":
                continue
            short = (c.get("callee") or "").split("::")[-1]
            if short not in SYMSET or not (short == "setSill" or "Symmetric" in (c.get("cls") or "")):
                continue
            a = call_args(c)
            idx = [x for x in a if x is not None and x["k"] == "DeclRefExpr" and x.get("d") in loops]
            if len(idx) < 2:
                continue
            i1, i2 = idx[-2], idx[-1]

            def has_get(e, depth=0):
                if e is None or depth > 2:
                    return False
                for y in walk(e):
                    if y["k"] == "MCall" and (y.get("callee") or "").split("::")[-1] == SYMSET[short]:
                        ya = [show(z) for z in call_args(y) if z is not None]
                        if show(i1) in ya and show(i2) in ya:
                            return True
                    if y["k"] == "DeclRefExpr" and y.get("dk") == "var" and y.get("d") not in loops:
                        for z in f.walk():
                            if z["k"] == "VarDecl" and z.get("d") == y["d"] and z.get("c") and has_get(z["c"][0], depth + 1):
                                return True
                return False
            if not has_get(a[-1]):
                continue
            n += 1
            full = loops[i1["d"]] == loops[i2["d"]]
            if full:
                chk.analysed(f)
            chk.ob("C03s", "%s: the in-place update `%s(.., %s, %s, f(%s(..)))` of a symmetric matrix visits each pair once" % (
                       f.name, short, i1["n"], i2["n"], SYMSET[short]), f.loc(c), not full,
                   detail=None if not full else "`%s` and `%s` both run up to `%s`: the pair (i,j) is transformed when visited as (i,j) and again as (j,i), "
                   "the cross terms are transformed twice and the matrix may stop being positive semi-definite" % (i1["n"], i2["n"], loops[i1["d"]]),
                   key="C03s|%s|%s" % (f.name, short), nontrivial=full)
    chk.floor("C03s", n, 1)


def rule_t(prog, chk):
    """C03t - the radii of an anisotropy belong to the ANISOTROPY axes.  The direct rotation matrix R maps anisotropy-axis coordinates to
    user coordinates (its columns are the anisotropy axes), the inverse matrix R^-1 maps user coordinates to anisotropy-axis coordinates
    (its rows are the anisotropy axes).  A tensor built in Tensor by scaling a rotation matrix with the radii therefore scales the
    COLUMNS of the direct matrix or the ROWS of the inverse matrix; the other two combinations attach the radii to the user's axes
    and describe the mirrored rotation (the frequential tensor used by the spectral evaluation was diag(r).R instead of diag(r).R^-1)."""
    n = 0
    for f in sorted(prog.funcs, key=lambda x: (x.file, x.line)):
        if f.cls != "Tensor" or f.body is None:
            continue
        src = {}
        for x in f.walk():
            if x["k"] in ("Assign", "OpCall") and x.get("op") == "=" and x["c"][0] is not None and x["c"][0]["k"] == "MemberExpr" and x["c"][1] is not None:
                for y in walk(x["c"][1]):
                    if y["k"] == "MCall" and (y.get("callee") or "").split("::")[-1] in ("getMatrixDirect", "getMatrixInverse"):
                        src[x["c"][0]["n"]] = (y["callee"].split("::")[-1], x)
            if x["k"] == "MCall" and (x.get("callee") or "").split("::")[-1] in ("multiplyRow", "divideRow", "multiplyColumn", "divideColumn"):
                o = call_obj(x)
                a = call_args(x)
                if o is None or o["k"] != "MemberExpr" or o["n"] not in src or not a or a[0] is None or "_radius" not in show(a[0]):
                    continue
                rot = src[o["n"]][0]
                axis = "Row" if x["callee"].endswith("Row") else "Column"
                ok = (rot == "getMatrixDirect" and axis == "Column") or (rot == "getMatrixInverse" and axis == "Row")
                n += 1
                chk.analysed(f)
                chk.ob("C03t", "%s: `%s` scales the %ss of %s by the radii (anisotropy axes)" % (f.name, o["n"], axis.lower(), rot), f.loc(x), ok,
                       detail=None if ok else "the %ss of the %s rotation matrix are the USER axes: scaling them by the radii builds the tensor of the mirrored "
                       "rotation (ranges measured along axes turned by the opposite angle)" % (axis.lower(), "direct" if rot == "getMatrixDirect" else "inverse"),
                       key="C03t|%s|%s" % (f.name, o["n"]))
    chk.floor("C03t", n, 3)


def rule_i(prog, chk):
    """C03i - positions in the list of ACTIVE structures vs structure ranks (E5 kinds).  When a calculation mode carries a list of
    active structures, a loop variable bounded by the length of that list is a POSITION in the list; the structure it designates
    is `getActiveCovList(position)`.  Used directly as a subscript of the structures (`_covs[i]`, getCova(i)), the first
    structures of the model are evaluated instead of the selected ones: C(0) stops being the value of C(h) at h = 0 and
    |C(h)| may exceed it."""
    n = 0
    for f in sorted(prog.funcs, key=lambda x: (x.file, x.line)):
        if f.body is None or "src/Covariances/" not in f.file:
            continue
        pos = set()
        for loop in f.walk():
            if loop["k"] == "For" and loop["c"][1] is not None:
                for x in walk(loop["c"][1]):
                    if x["k"] == "BinOp" and x.get("op") == "<" and x["c"][0] is not None and x["c"][0]["k"] == "DeclRefExpr":
                        b = x["c"][1]
                        for _ in range(3):
                            while b is not None and b["k"] == "Cast":
                                b = b["c"][0]
                            if b is not None and b["k"] == "DeclRefExpr" and b.get("dk") == "var":
                                b = single_def(f, b["d"])
                            else:
                                break
                        if b is not None and any(y["k"] == "MCall" and (y.get("callee") or "").split("::")[-1] in ("getActiveCovList", "getActiveCovCount")
                                                 for y in walk(b)):
                            pos.add(x["c"][0]["d"])
        if not pos:
            continue
        for x in f.walk():
            idx = None
            if x["k"] == "Index" or (x["k"] == "OpCall" and x.get("op") == "[]"):
                base = x["c"][0]
                if base is not None and base["k"] == "MemberExpr" and base.get("n") == "_covs":
                    idx = x["c"][1]
            elif x["k"] == "MCall" and (x.get("callee") or "").split("::")[-1] in ("getCova", "_getCova", "getCovAniso", "getType", "getSill"):
                a = call_args(x)
                idx = a[0] if a else None
            if idx is None:
                continue
            while idx is not None and idx["k"] == "Cast":
                idx = idx["c"][0]
            if idx is None:
                continue
            uses_pos = idx["k"] == "DeclRefExpr" and idx.get("d") in pos
            through = any(y["k"] == "MCall" and (y.get("callee") or "").split("::")[-1] == "getActiveCovList" for y in walk(idx))
            if not through and idx["k"] == "DeclRefExpr" and idx.get("dk") == "var":
                dfn = single_def(f, idx["d"])
                through = dfn is not None and dfn is not idx and any(
                    y["k"] == "MCall" and (y.get("callee") or "").split("::")[-1] == "getActiveCovList" for y in walk(dfn))
            if not uses_pos and not through:
                continue
            n += 1
            if uses_pos:
                chk.analysed(f)
            chk.ob("C03i", "%s: the structure is designated through the list of active structures" % f.name, f.loc(x), not uses_pos,
                   detail=None if not uses_pos else "`%s` is a position in the list of active structures and subscripts the structures directly: with a list "
                   "that is not 0,1,2.. the first structures of the model are evaluated instead of the selected ones" % idx["n"],
                   key="C03i|%s/%d|%s" % (f.name, len(f.params), show(x)[:30]), nontrivial=uses_pos)
    chk.floor("C03i", n, 4)


def rule_h(prog, chk):
    """C03h - the sparse covariance matrix drops negligible terms by their ABSOLUTE value: the test that decides whether a term
    eval(p1, p2, ..) is stored compares |value| with the threshold (a signed comparison removes every negative covariance:
    hole-effect structures and negative cross-sills give a matrix that is not the covariance matrix)."""
    n = 0
    for f in [g for g in prog.fns("ACov::evalCovMatrixSparse") if g.body is not None]:
        for c in f.calls():
            if c["k"] != "MCall" or (c.get("callee") or "").split("::")[-1] != "add" or "NF_Triplet" not in (c.get("cls") or c.get("callee") or ""):
                continue
            val = call_args(c)[-1]
            while val is not None and val["k"] == "Cast":
                val = val["c"][0]
            if val is None or val["k"] != "DeclRefExpr":
                continue
            child = c
            for a in f.ancestors(c):
                if a["k"] == "If" and len(a["c"]) >= 2 and a["c"][1] is child:
                    cond = a["c"][0]
                    uses = [y for y in walk(cond) if y["k"] == "DeclRefExpr" and y.get("d") == val.get("d")]
                    if not uses:
                        break
                    n += 1
                    chk.analysed(f)
                    # every occurrence of the value in the condition sits inside an absolute value (ABS macro = conditional, abs / fabs call)
                    def in_abs(u):
                        for p in f.ancestors(u):
                            if p is cond or p["i"] == cond["i"]:
                                if p["k"] == "Cond" or (p["k"] == "Call" and (p.get("callee") or "") in ("abs", "fabs", "std::abs", "std::fabs")):
                                    return True
                                return False
                            if p["k"] == "Cond" or (p["k"] == "Call" and (p.get("callee") or "") in ("abs", "fabs", "std::abs", "std::fabs")):
                                return True
                        return False
                    ok = all(in_abs(u) for u in uses)
                    chk.ob("C03h", "%s: the term stored in the sparse matrix is compared with the threshold by its absolute value" % f.sig(), f.loc(a), ok,
                           detail=None if ok else "`%s` compares the signed covariance with the threshold: every negative term is dropped" % show(cond)[:60],
                           key="C03h|%s/%d" % (f.name, len(f.params)))
                    break
                child = a
    chk.floor("C03h", n, 1)


def main(tier):
    chk = Check("C03", tier,
                "Static clauses of covariance validity: the code of the piecewise-polynomial structures IS the published polynomial "
                "(exact abstract evaluation, E6), vanishes beyond the range, never goes below the bound that any isotropic correlation "
                "of the declared dimension obeys; declared maximal dimensions are within the published ones and are tested on the "
                "finished object; the factory covers every ECov enumerator with the class that announces it; the variogram form is "
                "C(0)-C(h). Positive definiteness for all point sets, the non-polynomial structures (exponential, Gaussian, Matern, "
                "Bessel ...), sums, anisotropy / rotation geometry and sill matrices are NOT decided.")
    cov = os.path.join(REPO, "src/Covariances")
    units = [os.path.join(cov, x) for x in sorted(os.listdir(cov)) if x.startswith("Cov") and x.endswith(".cpp")] + \
            [os.path.join(cov, x) for x in ("ACovFunc.cpp", "ACov.cpp", "ACovAnisoList.cpp")] + [os.path.join(REPO, "src/Model/Model.cpp"), os.path.join(REPO, "src/Basic/Tensor.cpp")]
    if tier == "thorough":
        units = facts.all_units()
    d = extract(units, "C03-" + tier)
    prog = Program().load_dir(d)
    dh, excluded = facts.extract_headers("C03h-" + tier)
    prog.load_dir(dh)
    chk.units = list(prog.units)
    polys = rule_a(prog, chk)
    rule_b(prog, chk, polys)
    rule_c(prog, chk)
    rule_d(prog, chk)
    rule_e(prog, chk)
    rule_f(prog, chk)
    rule_g(prog, chk)
    rule_h(prog, chk)
    rule_i(prog, chk)
    rule_g2(prog, chk)
    rule_s(prog, chk)
    rule_t(prog, chk)
    # C03o: the factories of a structure apply their setters in an order that keeps what was asked: a setter that converts with
    # the current third parameter (setRanges: practical range -> scale) is not followed by the setter that replaces the parameter
    # (rule O of C08, c08_order.py: transitive read / write sets of the setters called on one local object)
    import c08_order
    c08_order.rule_O(prog, chk, 6, select=lambda f: "src/Covariances/" in f.file and f.short.startswith("create"), rule="C03o")
    # C03p: the admissible domain of the third parameter is enforced: a bound that may be undefined is compared under `!FFFF(bound)`
    import idioms
    idioms.defined_bound_rule(prog, chk, "C03p", ("src/Covariances/",), 1)
    chk.assumptions.append("published definitions: " + "; ".join("%s = %s" % (k, v["ref"]) for k, v in sorted(PUBLISHED.items())))
    chk.assumptions.append("bounds inf Lambda_d of isotropic correlations in R^d (Matern 1960 / Schoenberg): d=1 -1, d=2 -0.4028, d=3 -0.2173, all d: 0")
    return chk.finish()
