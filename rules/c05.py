"""C05 - masked or undefined samples never influence a result (DESIGN.md section C05).
 (a) gate completeness: in the anchored algorithms every loop variable that ranges over ALL the samples of a data base
     reads / writes that data base by rank only on paths that passed the activity gate for that variable
 (b) calculators whose _run skips inactive targets create their permanent outputs with the undefined value
"""
import os

import facts
import gates
from facts import REPO, Program, extract, show, call_obj, call_args, walk
from e1_paths import CFG, peel_cond, single_def
from report import Check

UNITS = """src/Neigh/ANeigh.cpp src/Neigh/NeighMoving.cpp src/Neigh/NeighBench.cpp src/Neigh/NeighCell.cpp src/Neigh/NeighUnique.cpp
src/Neigh/NeighImage.cpp src/Variogram/Vario.cpp src/Variogram/AVario.cpp src/Estimation/KrigingSystem.cpp src/Stats/Classical.cpp
src/Covariances/ACov.cpp src/Covariances/ACovAnisoList.cpp src/Simulation/CalcSimuTurningBands.cpp src/Drifts/DriftList.cpp
src/Model/Model.cpp src/Core/krige.cpp src/Simulation/CalcSimuSubstitution.cpp src/Simulation/CalcSimuPartition.cpp""".split()
CALC_UNITS = """src/Calculators/ACalcDbToDb.cpp src/Calculators/ACalcDbVarCreator.cpp src/Calculators/ACalcInterpolator.cpp
src/Calculators/ACalculator.cpp src/Calculators/CalcGridToGrid.cpp src/Calculators/CalcMigrate.cpp src/Calculators/CalcStatistics.cpp
src/Estimation/CalcGlobal.cpp src/Estimation/CalcImage.cpp src/Estimation/CalcKriging.cpp src/Estimation/CalcKrigingFactors.cpp
src/Estimation/CalcSimpleInterpolation.cpp src/Simulation/ACalcSimulation.cpp src/Calculators/CalcSimuPost.cpp
src/Anamorphosis/CalcAnamTransform.cpp src/Simulation/CalcSimuSubstitution.cpp src/Simulation/CalcSimuPartition.cpp""".split()

# (function, variable) loops that are meant to see every sample; one row each, with the reason (confirmed by reading)
EXEMPT = {
    ("ANeigh::_display", "iech"): "printout of the neighbourhood, no result depends on it",
    ("Vario::_calculateOnGrid", "iech"): "fills a freshly created weight column with the cell size for every node; masked nodes are "
                                          "filtered where the weight is read (isActive in the pair kernels)",
    ("declustering", "iech"): "initialises the new selection column to 0 for every sample before the gated assignment",
    ("dbStatisticsInGridTool", "i"): "post-processing of the per-cell accumulators of the OUTPUT grid created by the function itself "
                                     "(cells, not data samples); the data loop above is gated",
    ("global_transitive", "i"): "transitive covariogram: sums the regionalised variable over the whole grid by definition "
                                "(undefined values are skipped)",
}

# callees that return a negative rank for a masked or undefined sample (confirmed by reading): testing their result
# against 0 is an activity gate for their first argument
DERIVED_ACTIVE = {"KrigingSystem::_getFlagAddress": "returns -1 when _flag[] (built from Db::isActive and the definedness of the "
                                                    "variable) is off for that sample"}


class Ctx05(gates.GateCtx):
    def active_arrays(self):
        if getattr(self, "_arrs", None) is not None:
            return self._arrs
        out = set(super().active_arrays())
        self._arrs = set(out)         # while deriving the filled arrays, only the primitive ones count
        # locals filled as `A[i] = <non-false>` only behind the activity gate of i
        cands = {}
        for n in self.f.walk():
            if n["k"] in ("Assign", "OpCall") and n.get("op") == "=":
                l, r = n["c"][0], n["c"][1]
                if l is not None and l["k"] in ("OpCall", "Index") and len(l.get("c") or []) == 2:
                    base, idx = l["c"]
                    if base is not None and base["k"] == "DeclRefExpr" and base.get("dk") == "var" and \
                            idx is not None and idx["k"] == "DeclRefExpr":
                        falsy = r is not None and r["k"] in ("Bool", "Int") and not r.get("v")
                        cands.setdefault(base["d"], []).append((n, idx["d"], falsy))
        for d, stores in cands.items():
            if d in out:
                continue
            ok = any(not falsy for _, _, falsy in stores)
            for n, idx, falsy in stores:
                if falsy:
                    continue
                passes = gates.GateCtx.pass_edges(self, gates.GateCtx.active_matcher(self, idx))
                if self.ungated_path(idx, n, passes) is not None:
                    ok = False
            if ok:
                out.add(d)
        self._arrs = out
        return out

    def active_matcher(self, d, db=None):
        base = super().active_matcher(d, db)

        def m(core):
            r = base(core)
            if r is not None:
                return r
            # `_getFlagAddress(v, ..) < 0` (directly or through a local holding the result)
            if core["k"] == "BinOp" and core.get("op") in ("<", ">=") and core["c"][1] is not None and \
                    core["c"][1]["k"] == "Int" and core["c"][1]["v"] == 0:
                x = core["c"][0]
                if x is not None and x["k"] == "DeclRefExpr" and x.get("dk") == "var":
                    dd = single_def(self.f, x["d"])
                    # a local re-incremented later (jjech++) has several definitions: look at its initialiser
                    if dd is None:
                        for n in self.f.walk():
                            if n["k"] == "VarDecl" and n.get("d") == x["d"] and n.get("c"):
                                dd = n["c"][0]
                    x = dd
                if x is not None and x["k"] == "MCall" and x.get("callee") in DERIVED_ACTIVE:
                    a = call_args(x)
                    if a and a[0] is not None and a[0]["k"] == "DeclRefExpr" and a[0].get("d") == d:
                        return core["op"] == ">="
            return None
        return m


def rule_a(prog, chk):
    n = 0
    for f in sorted(prog.funcs, key=lambda x: (x.file, x.line)):
        if f.cfg is None or not f.d.get("main") or os.path.relpath(f.file, REPO) not in UNITS:
            continue
        rv = gates.raw_sample_vars(prog, f)
        # computed ranks (indiceToRank ...) are only judged in the object-style units; the old-style functions of
        # krige.cpp that walk a grid by indices (factorial kriging analysis, image tools) are out of the anchored algorithms
        if os.path.relpath(f.file, REPO) == "src/Core/krige.cpp":
            rv = [r for r in rv if not r[3].get("computed")]
        if not rv:
            continue
        gc = Ctx05(f)
        seen = set()
        for (d, name, db, loop) in rv:
            cons = gates.consumers(prog, f, d, db, loop["c"][3])
            if not cons:
                continue
            key0 = (f.name, name, loop["l"])
            if key0 in seen:
                continue
            seen.add(key0)
            chk.analysed(f)
            n += 1
            ordinal = len([k for k in seen if k[0] == f.name and k[1] == name])
            if (f.name, name) in EXEMPT:
                chk.ob("C05a", "%s: loop on `%s` over all samples of %s (exempt: %s)" % (f.name, name, db, EXEMPT[(f.name, name)]),
                       f.loc(loop), True, key="C05a|%s|%s#%d" % (f.name, name, ordinal), nontrivial=False)
                continue
            passes = gc.pass_edges(gc.active_matcher(d, db))
            bad = []
            for c in cons:
                w = gc.ungated_path(d, c, passes)
                if w is not None:
                    bad.append((c, w))
            ok = not bad
            chk.ob("C05a", "%s: samples `%s` of %s are consumed only behind the activity gate" % (f.name, name, db), f.loc(loop), ok,
                   detail=None if ok else "%s by rank `%s` is reachable without Db::isActive(%s) (or an equivalent gate) since the last "
                   "definition of `%s`: a masked sample is read / written" % (
                       ", ".join(sorted({(c.get("callee") or "").split("::")[-1] for c, _ in bad})), name, name, name),
                   key="C05a|%s|%s#%d" % (f.name, name, ordinal),
                   path=None if ok else gc.g.describe(bad[0][1]))
    chk.floor("C05a", n, 60)


def rule_c(prog, chk):
    """the kriging entry point gates its target rank: every store into the output data base made (transitively, on this) by
    KrigingSystem::estimate happens after `_dbout->isActive(_iechOut)` on every path"""
    f = prog.fn("KrigingSystem::estimate")
    chk.analysed(f)
    g = CFG(f)

    def is_gate_edge(blk, k, s_):
        c = g.cond(blk["b"])
        if c is None or len(blk["s"]) != 2:
            return True
        core, pol = peel_cond(c)
        if core is not None and core["k"] == "MCall" and (core.get("callee") or "").endswith("::isActive") and "_dbout" in show(call_obj(core)):
            return ((k == 0) == pol) is False          # only the edge on which the target is NOT active stays: it must not reach a store
        return True
    # stores: calls on this of the result-writing members
    writers = {"_estimateCalcul", "_estimateCalculImage", "_estimateCalculXvalidUnique", "_simulateCalcul", "_neighCalcul"}
    n = 0
    for c in f.calls():
        short = (c.get("callee") or "").split("::")[-1]
        if short not in writers:
            continue
        n += 1
        # reachable when the gate was not passed = (a) via the inactive edge, or (b) avoiding the test altogether
        def avoid_test(blk, k, s_):
            cc = g.cond(blk["b"])
            if cc is None or len(blk["s"]) != 2:
                return True
            core, pol = peel_cond(cc)
            if core is not None and core["k"] == "MCall" and (core.get("callee") or "").endswith("::isActive") and "_dbout" in show(call_obj(core)):
                return ((k == 0) == pol) is False
            return True
        w = g.search(g.entry_pos(), is_target=lambda x, c=c: x["i"] == c["i"], edge_ok=avoid_test)
        chk.ob("C05c", "KrigingSystem::estimate: %s() runs only for an active target" % short, f.loc(c), w is None,
               detail=None if w is None else "the result is stored for a target that did not pass _dbout->isActive(_iechOut): masked target "
               "sites are estimated and overwritten", key="C05c|KrigingSystem::estimate|" + short,
               path=None if w is None else g.describe(w))
    chk.floor("C05c", n, 4)


def rule_b(prog, chk):
    """outputs of target-skipping calculators are created undefined"""
    import c19
    classes = [c for c in c19.calc_classes(prog) if not prog.classes[c].get("abstract")]
    n = 0
    for K in classes:
        runm = c19.reachable_methods(prog, K, "_run")
        skips = None
        for short, f in runm.items():
            for c in f.calls():
                if (c.get("callee") or "").split("::")[-1] in ("isActive",):
                    o = call_obj(c)
                    if o is not None and "Dbout" in show(o) or (o is not None and show(o) in ("dbout", "_dbout", "dbgrid")):
                        skips = (f, c)
        # the kriging calculators skip inactive targets inside KrigingSystem::estimate (entry gate on the target rank)
        for short, f in runm.items():
            for c in f.calls("KrigingSystem::estimate"):
                skips = skips or (f, c)
        if skips is None:
            continue
        pre = c19.reachable_methods(prog, K, "_preprocess")
        for short, f in pre.items():
            if f.name in c19.REGISTRARS:
                continue
            ordinal = 0
            for c in f.calls():
                if c.get("callee") not in c19.REGISTRARS:
                    continue
                ordinal += 1
                a = call_args(c)
                idx = c19.REGISTRARS[c["callee"]]
                which = a[0] if c["callee"].startswith("ACalcDbToDb") else None
                st = c19.int_values(f, a[idx]) or {1, 2}
                if 1 not in st:
                    continue                      # temporaries
                if which is not None and c19.int_values(f, which) == {1}:
                    continue                      # created in the input data base
                vinit = a[-1] if len(a) >= (6 if which is not None else 5) else None
                n += 1
                chk.analysed(f)
                txt = show(vinit) if vinit is not None else "<default>"
                undefined = vinit is not None and (txt in ("TEST", "1.234e+30") or (vinit["k"] == "Float" and vinit["v"] > 1e29))
                if vinit is None or vinit["k"] == "DefaultArg":
                    # default of the registrar
                    reg = prog.fn(c["callee"])
                    undefined = None
                    for p in reg.params:
                        pass
                    undefined = False
                    txt = "<default 0.>"
                chk.ob("C05b", "%s: output variables are created undefined (%s skips inactive targets)" % (K, skips[0].name),
                       f.loc(c), bool(undefined),
                       detail=None if undefined else "the output column is created with %s; targets skipped because they are masked keep that "
                       "value instead of the undefined value" % txt,
                       key="C05b|%s|%s#%d" % (K, f.name, ordinal))
    chk.floor("C05b", n, 6)


# C05e: dropped statuses that cannot manifest (one line of reason each, confirmed by replay)
C05E_ACCEPTED = {
    ("KrigingSystem::isReady", "_bayesPreCalculations"): "the pre-calculation fails only when _setInternalShortCutVariablesNeigh / _prepar fail on the whole data set; "
                                                         "the same stages then fail again for every target, whose estimate is left undefined "
                                                         "(replays/C05_bayes_precalc_status.cpp: no defined estimate is written)",
}


def rule_e(prog, chk):
    """C05e - a stage of the kriging of one target that fails (undefined drift value at the target, no valid data ...) stops the
    estimation of that target: the status of every private stage function of KrigingSystem (int / bool functions with both a
    success and a failure return) is used by its caller, never dropped.  A dropped status lets the estimation go on with what
    the PREVIOUS target left in the arrays."""
    def status_fn(g):
        if g.body is None or not (g.ret.startswith("int") or g.ret.startswith("bool")):
            return False
        vals = set()
        for r in g.walk():
            if r["k"] == "Return" and r.get("c") and r["c"][0] is not None and r["c"][0]["k"] in ("Int", "Bool"):
                vals.add(r["c"][0]["v"])
        return len(vals) >= 2
    n = 0
    for f in sorted(prog.funcs, key=lambda x: (x.file, x.line)):
        if f.cls != "KrigingSystem" or f.body is None:
            continue
        for c in f.calls():
            if c["k"] != "MCall" or not (c.get("callee") or "").startswith("KrigingSystem::"):
                continue
            o = call_obj(c)
            if o is not None and o["k"] != "This":
                continue
            gs = [g for g in prog.fns(c["callee"]) if g.body is not None]
            if not gs or not all(status_fn(g) for g in gs):
                continue
            n += 1
            par = f.parent(c)
            while par is not None and par["k"] == "Cast" and "void" not in (par.get("t") or ""):
                par = f.parent(par)
            dropped = par is not None and par["k"] in ("Block", "If", "For", "While", "ForRange", "Do", "Else") and not (par["k"] == "If" and par["c"][0] is c)
            explicit_void = par is not None and par["k"] == "Cast" and "void" in (par.get("t") or "")
            chk.analysed(f)
            why = C05E_ACCEPTED.get((f.name, c["callee"].split("::")[-1]))
            ok = not dropped or explicit_void or bool(why)
            chk.ob("C05e", "%s: the status of %s is used" % (f.name, c["callee"].split("::")[-1]) + (" (accepted: %s)" % why if why and dropped else ""), f.loc(c), ok,
                   detail=None if ok else "the stage can fail (undefined drift / value at the target) and its status is dropped: the estimation continues with "
                   "the arrays of the previous target instead of giving an undefined result",
                   key="C05e|%s|%s" % (f.name, c["callee"].split("::")[-1]))
    chk.floor("C05e", n, 8)


def main(tier):
    chk = Check("C05", tier,
                "Static gate completeness: in the anchored algorithms (neighbourhood search, variogram kernels, kriging system, "
                "statistics, covariance / drift matrices, turning bands) every variable that ranges over ALL the samples of a data base "
                "is used to read or write that data base only on CFG paths that passed the activity gate for that variable; "
                "calculators that skip inactive targets create their outputs undefined. Necessary conditions of 'masked samples never "
                "influence a result'; equality with the physically reduced data base is NOT decided, nor filters on definedness of "
                "individual values.")
    units = [os.path.join(REPO, u) for u in UNITS + CALC_UNITS]
    if tier == "thorough":
        units = facts.all_units()
    d = extract(units, "C05-" + tier)
    prog = Program().load_dir(d)
    dh, excluded = facts.extract_headers("C05h-" + tier)
    prog.load_dir(dh)
    chk.units = list(prog.units)
    for k, v in EXEMPT.items():
        chk.assumptions.append("exempt loop %s/%s: %s" % (k[0], k[1], v))
    for k, v in DERIVED_ACTIVE.items():
        chk.assumptions.append("derived activity predicate %s: %s" % (k, v))
    rule_a(prog, chk)
    rule_c(prog, chk)
    rule_b(prog, chk)
    rule_e(prog, chk)
    # C05d: undefined-value tests that leave a loop (every unit that spells such a test is analysed)
    import c05_skip
    if tier == "thorough":
        dprog = prog
    else:
        extra = [u for u in c05_skip.units_with_pattern() if u not in units]
        dprog = Program().load_dir(extract(extra, "C05d-" + tier))
        dprog.load_dir(d)
        chk.units += [u for u in dprog.units if u not in chk.units]
    c05_skip.rule_d(dprog, chk, 4)
    c05_skip.positive_control(chk, "C05d", tier)
    # C05g: sample ranks come from loops over ALL the samples (not over the active count, which skips the last samples of a Db
    # with a selection)
    if tier == "thorough":
        gprog = prog
    else:
        extra = [u for u in c05_skip.units_with_active_count() if u not in units]
        gprog = Program().load_dir(extract(extra, "C05g-" + tier))
        gprog.load_dir(d)
        gprog.load_dir(dh)
        chk.units += [u for u in gprog.units if u not in chk.units]
    c05_skip.rank_loop_rule(gprog, chk, "C05g", ("src/",), 150)
    # C05r: a rank of one data base (loop bounded by its sample count) never addresses a sample of another one (data / target
    # sources only: the pair statistics of src/Stats take two data bases that must match sample by sample, by documented contract)
    # C05i: the gates combined in one condition address the same sample
    c05_skip.same_sample_gates_rule(prog, chk, "C05i", ("src/",), 1)
    # C05j: in a double loop over the samples the value gate of the inner loop looks at the inner sample
    c05_skip.inner_gate_rule(gprog, chk, "C05j", ("src/",), 25)
    # C05w: a selection switch and the activity test are combined with the polarity used everywhere else
    c05_skip.selection_switch_rule(gprog, chk, "C05w", ("src/",), 25)
    # C05u: a column handed to an aggregate (ranks, mean, extrema) is fetched with the selection
    c05_skip.aggregate_selection_rule(gprog, chk, "C05u", 10)
    # C05n: a mean over the defined / active samples is divided by the count of those samples (sum and counter behind the same guards)
    c05_skip.guard_agreement_rule(gprog, chk, "C05n", ("src/",), 25, accepted={
        ("dbStatisticsVariables", "metal", "neff"): "Q (metal quantity) and B (conventional benefit) of the selectivity statistics are by definition the quantity above the cutoff relative to ALL the defined values",
        ("dbStatisticsMono", "metal", "neff"): "same definition of Q and B (selectivity statistics relative to the total tonnage)"})
    c05_skip.rank_owner_rule(prog, chk, "C05r", tuple(u for u in UNITS if "src/Stats/" not in u), 40)
    return chk.finish()
