"""C05d - an undefined element skips ITSELF only.  `if (FFFF(e)) break;` where e is the element of the current
iteration (its value depends on the variable of the loop that the break leaves) abandons all the remaining, possibly
defined, elements: the result then depends on where an undefined value sits, not only on the defined values
("for a value undefined in one variable only, after removing just that variable at that sample").  The element test
must `continue`.  Tests on a value that does not change with the loop (an invariant operand) may leave the loop."""
import os
import re

import facts
from facts import REPO, Program, extract, show, call_args, call_obj, walk

UNDEF = ("FFFF", "IFFFF")
LOOPS = ("For", "While", "Do", "ForRange")

# confirmed by reading: loops where an undefined element invalidates the whole item built by the loop
EXEMPT = {
    ("Vario::_calculateOnLineSolution", "zz"): "generalised increment: every point of the increment is needed, the `keep` flag discards the increment",
    ("Vario::_calculateGenOnGridSolution", "zz"): "generalised increment: every point of the increment is needed, the `keep` flag discards the increment",
}


def _strip(n):
    while n is not None and n["k"] == "Cast":
        n = n["c"][0]
    return n


def undefined_atoms(cond, pol=True):
    """FFFF(..) calls whose truth makes `cond` true (through ||, and through ! of &&-free negations)"""
    c = _strip(cond)
    if c is None:
        return []
    if c["k"] == "UnOp" and c.get("op") == "!":
        return undefined_atoms(c["c"][0], not pol)
    if c["k"] == "BinOp" and c.get("op") == "||" and pol:
        return undefined_atoms(c["c"][0], pol) + undefined_atoms(c["c"][1], pol)
    if c["k"] == "BinOp" and c.get("op") == "&&" and not pol:
        return undefined_atoms(c["c"][0], pol) + undefined_atoms(c["c"][1], pol)
    if c["k"] == "Call" and (c.get("callee") or "") in UNDEF and pol:
        return [c]
    return []


def loop_vars(loop):
    out = set()
    if loop["k"] == "For":
        for part in (loop["c"][0], loop["c"][2]):
            for x in walk(part) if part is not None else []:
                if x["k"] == "VarDecl":
                    out.add(x["d"])
                if x["k"] in ("Assign", "UnOp") and x.get("c") and x["c"][0] is not None and x["c"][0]["k"] == "DeclRefExpr":
                    out.add(x["c"][0]["d"])
    elif loop["k"] == "ForRange":
        if loop["c"][0] is not None and loop["c"][0].get("d") is not None:
            out.add(loop["c"][0]["d"])
    return out


def rule_d(prog, chk, floor_n, rule="C05d", only_files=None):
    n = nd = 0
    for f in sorted(prog.funcs, key=lambda x: (x.file, x.line)):
        if f.body is None or (only_files is not None and not any(x in f.file for x in only_files)):
            continue
        for s in f.walk():
            if s["k"] != "If" or len(s["c"]) < 2 or s["c"][1] is None:
                continue
            then = s["c"][1]
            brk = then if then["k"] == "Break" else None
            if brk is None and then["k"] == "Block" and len(then.get("c") or []) == 1 and then["c"][0] is not None and then["c"][0]["k"] == "Break":
                brk = then["c"][0]
            if brk is None:
                continue
            atoms = undefined_atoms(s["c"][0])
            if not atoms:
                continue
            loop = None
            for a in f.ancestors(s):
                if a["k"] in LOOPS:
                    loop = a
                    break
                if a["k"] == "Switch":
                    break
            if loop is None:
                continue
            lv = loop_vars(loop)
            # definitions located inside the loop
            inside = {}
            for x in walk(loop):
                if x["k"] == "VarDecl" and x.get("c"):
                    inside.setdefault(x["d"], []).append(x["c"][0])
                elif x["k"] in ("Assign", "OpCall") and x.get("op") == "=" and len(x.get("c") or []) == 2 and x["c"][0] is not None:
                    l = _strip(x["c"][0])
                    while l is not None and (l["k"] == "Index" or (l["k"] == "OpCall" and l.get("op") == "[]")):
                        l = _strip(l["c"][0])
                    if l is not None and l["k"] == "DeclRefExpr":
                        inside.setdefault(l["d"], []).append(x["c"][1])

            def dependent(e, depth=0, seen=None):
                seen = seen if seen is not None else set()
                for y in walk(e) if e is not None else []:
                    if y["k"] == "DeclRefExpr" and y.get("d") is not None:
                        if y["d"] in lv:
                            return True
                        if y["d"] in inside and y["d"] not in seen and depth < 4:
                            seen.add(y["d"])
                            if any(dependent(d, depth + 1, seen) for d in inside[y["d"]]):
                                return True
                return False
            for at in atoms:
                arg = (call_args(at) or [None])[0]
                n += 1
                dep = dependent(arg)
                name = show(arg)[:30]
                why = EXEMPT.get((f.name, name))
                if dep:
                    nd += 1
                chk.analysed(f)
                ok = (not dep) or bool(why)
                chk.ob(rule, "%s: the undefined-value test on `%s` leaves the loop only when the value does not change with the loop" % (f.name, name),
                       f.loc(s), ok,
                       detail=why if (dep and why) else (None if ok else "`%s` is the element of the current iteration of the loop at line %s: `break` abandons the "
                       "remaining (possibly defined) elements, so one undefined value removes more than itself; the test must `continue`" % (name, loop.get("l", "?"))),
                       key="%s|%s|%s" % (rule, f.name, name), nontrivial=dep)
    chk.floor(rule, n, floor_n)
    chk.extra[rule + "_loop_dependent_tests"] = nd


def positive_control(chk, rule, tier):
    """the rule flags witness/skip_control.cpp::skip_control_break and nothing else there"""
    from report import Check
    d = extract([os.path.join(facts.WITNESS, "skip_control.cpp")], "skipctl-" + rule + "-" + tier)
    cprog = Program().load_dir(d)
    ctl = Check(rule + "-control", tier, "positive control")
    rule_d(cprog, ctl, 0, rule=rule)
    flagged = [o for o in ctl.obs if o["verdict"] == "violation"]
    ok = len(flagged) == 1 and "skip_control_break" in flagged[0]["instance"] and len(ctl.obs) == 1
    chk.ob(rule, "positive control: the `break` loop of witness/skip_control.cpp is reported, the `continue` loop is not", "witness/skip_control.cpp", ok,
           detail=None if ok else "the rule no longer recognises its control unit (%d obligations, %d flagged)" % (len(ctl.obs), len(flagged)),
           key=rule + "|control")


def units_with_pattern():
    pat = re.compile(r"FFFF\s*\(")
    out = []
    for u in facts.all_units():
        try:
            t = open(u, errors="replace").read()
        except OSError:
            continue
        if pat.search(t) and "break" in t:
            out.append(u)
    return out


def units_with_active_count():
    """units that spell an active-sample count (`getSampleNumber(<something>)`, `getActiveSampleNumber()`)"""
    pat = re.compile(r"getActiveSampleNumber\s*\(|getSampleNumber\s*\(\s*[A-Za-z_!]")
    out = []
    for u in facts.all_units():
        try:
            t = open(u, errors="replace").read()
        except OSError:
            continue
        if pat.search(t):
            out.append(u)
    return out


def rank_loop_rule(prog, chk, rule, file_filter, floor_n):
    """the rank argument of a per-sample Db accessor never receives a loop variable that ranges over the VARIABLES / DIMENSIONS
    (`for (iech = 0; iech < nvar; iech++) db->isActive(iech)` visits the first nvar samples only) nor over the number of ACTIVE
    samples (`iech < db->getSampleNumber(true)`: with a selection the last samples are never visited)"""
    import gates
    from e1_paths import single_def
    nk = 0
    for f in sorted(prog.funcs, key=lambda x: (x.file, x.line)):
        if f.body is None or not any(s_ in f.file for s_ in file_filter):
            continue
        lb = {}
        for loop in f.walk():
            if loop["k"] == "For" and loop["c"][1] is not None:
                for x in walk(loop["c"][1]):
                    if x["k"] == "BinOp" and x.get("op") in ("<", "<=") and x["c"][0] is not None and x["c"][0]["k"] == "DeclRefExpr":
                        lb.setdefault(x["c"][0]["d"], []).append(x["c"][1])

        def bound_kind(b, depth=0):
            while b is not None and b["k"] == "Cast":
                b = b["c"][0]
            if b is None or depth > 3:
                return None
            if b["k"] == "MCall":
                short = (b.get("callee") or "").split("::")[-1]
                a = call_args(b)
                if short in ("getNVar", "getVariableNumber", "getNVariables"):
                    return "the number of variables"
                if short in ("getLocNumber", "getLocatorNumber") and a and a[0] is not None and (a[0].get("q") or show(a[0])) == "ELoc::Z":
                    return "the number of variables"
                maybe_sel = short == "getSampleNumber" and a and a[0] is not None and a[0]["k"] not in ("Bool", "DefaultArg")
                if short == "getActiveSampleNumber" or maybe_sel or (short == "getSampleNumber" and a and a[0] is not None and a[0]["k"] == "Bool" and a[0]["v"] is True):
                    # a data base the function has just built itself carries no selection: active count = total count
                    o = call_obj(b)
                    if o is not None and o["k"] == "DeclRefExpr" and o.get("dk") == "var":
                        od = single_def(f, o["d"])
                        if od is not None and any(y["k"] in ("Call", "MCall") and (y.get("callee") or "").split("::")[-1].startswith("create") for y in walk(od)):
                            return None
                    # ... and so does a data base on which the function has just installed a fresh all-ones selection
                    recv = "this" if (o is None or o["k"] == "This") else show(o)
                    for y in f.calls():
                        if y["k"] == "MCall" and (y.get("callee") or "").endswith("::addColumnsByConstant") and (y.get("l") or 0) < (b.get("l") or 0):
                            ya = call_args(y)
                            yo = call_obj(y)
                            yrecv = "this" if (yo is None or yo["k"] == "This") else show(yo)
                            if yrecv == recv and len(ya) >= 4 and ya[1] is not None and show(ya[1]) in ("1", "1.", "1.0") and \
                                    ya[3] is not None and show(ya[3]).split("::")[-1] == "SEL":
                                return None
                    return "the number of ACTIVE samples" + (" (when `%s` is set)" % show(a[0]) if maybe_sel else "")
            if b["k"] == "MemberExpr" and b.get("n") in ("_nVar", "_nvar"):
                return "the number of variables"
            if b["k"] == "DeclRefExpr" and b.get("dk") == "var":
                d = single_def(f, b["d"])
                if d is not None and d is not b:
                    return bound_kind(d, depth + 1)
            return None
        for c in f.calls():
            if c["k"] != "MCall" or not (c.get("cls") or "").startswith("Db"):
                continue
            ri = gates.rank_arg_index(prog, c)
            a = call_args(c)
            if ri is None or ri >= len(a) or a[ri] is None:
                continue
            x = a[ri]
            while x["k"] == "Cast":
                x = x["c"][0]
            if x["k"] != "DeclRefExpr" or x.get("d") not in lb:
                continue
            nk += 1
            kinds = {bound_kind(b) for b in lb[x["d"]]}
            bad = None not in kinds and len(kinds) == 1
            if bad:
                chk.analysed(f)
            short = (c.get("callee") or "").split("::")[-1]
            chk.ob(rule, "%s: the sample rank `%s` of %s ranges over all the samples" % (f.name, x["n"], short), f.loc(c), not bad,
                   detail=None if not bad else "`%s` is the variable of a loop bounded by %s and is used as a sample rank: the loop does not visit the samples "
                   "it is meant to (the statistic computed here ignores some samples)" % (x["n"], list(kinds)[0]),
                   key="%s|%s|%s(%s)" % (rule, f.name, short, x["n"]), nontrivial=bad)
    chk.floor(rule, nk, floor_n)


def rank_owner_rule(prog, chk, rule, file_filter, floor_n, accepted=None):
    """a rank of one data base never indexes another: a loop variable bounded by `X->getSampleNumber()` is a rank of X; used as the
    rank argument of a per-sample accessor of ANOTHER data base Y (X and Y two different parameters / members of the function),
    it addresses unrelated samples (`for (ik < dbout->getSampleNumber()) dbin->getSampleCoordinatesInPlace(ik, ..)`)."""
    import gates
    from e1_paths import single_def
    accepted = accepted or {}
    n = 0
    for f in sorted(prog.funcs, key=lambda x: (x.file, x.line)):
        if f.body is None or not any(s_ in f.file for s_ in file_filter):
            continue
        owner = {}
        for loop in f.walk():
            if loop["k"] == "For" and loop["c"][1] is not None:
                for x in walk(loop["c"][1]):
                    if x["k"] == "BinOp" and x.get("op") == "<" and x["c"][0] is not None and x["c"][0]["k"] == "DeclRefExpr":
                        db = gates.nsample_db(f, x["c"][1])
                        if db is not None:
                            owner.setdefault(x["c"][0]["d"], set()).add(db)
        if not owner:
            continue
        gc = gates.GateCtx(f)
        for c in f.calls():
            if c["k"] != "MCall" or not (c.get("cls") or "").startswith("Db"):
                continue
            ri = gates.rank_arg_index(prog, c)
            a = call_args(c)
            if ri is None or ri >= len(a) or a[ri] is None:
                continue
            x = a[ri]
            while x["k"] == "Cast":
                x = x["c"][0]
            if x["k"] != "DeclRefExpr" or x.get("d") not in owner or len(owner[x["d"]]) != 1:
                continue
            o = call_obj(c)
            recv = "this" if (o is None or o["k"] == "This") else show(o)
            own = next(iter(owner[x["d"]]))
            n += 1
            bad = gc.other_db(recv, own)
            short = (c.get("callee") or "").split("::")[-1]
            why = accepted.get((f.name, recv, x["n"]))
            if bad:
                chk.analysed(f)
            chk.ob(rule, "%s: `%s` (a rank of %s) indexes %s in %s" % (f.name, x["n"], own, recv, short) + (" (accepted: %s)" % why if bad and why else ""),
                   f.loc(c), (not bad) or bool(why),
                   detail=None if not bad else "`%s` ranges over the samples of %s and is used as a sample rank of %s: the two data bases are unrelated, the "
                   "accessor reads / writes another sample than the one intended" % (x["n"], own, recv),
                   key="%s|%s|%s->%s.%s" % (rule, f.name, x["n"], recv, short), nontrivial=bad)
    chk.floor(rule, n, floor_n)


def _root_name(e):
    while e is not None and (e["k"] in ("Cast", "Index", "Paren") or (e["k"] == "OpCall" and e.get("op") == "[]")):
        e = e["c"][0]
    if e is None:
        return None
    if e["k"] == "DeclRefExpr":
        return ("L", e.get("d"), e["n"])
    if e["k"] == "MemberExpr" and e.get("mk") == "field":
        return ("F", e["n"], e["n"])
    return None


def guard_agreement_rule(prog, chk, rule, file_filter, floor_n, accepted=None):
    """a sum and the counter it is later divided by are updated behind the same `if (..) continue;` guards of their loop: a counter
    incremented before (or after) a guard that the sum obeys counts other samples than the sum holds (a mean over the defined /
    active samples divided by the number of all samples)."""
    accepted = accepted or {}
    n = 0
    for f in sorted(prog.funcs, key=lambda x: (x.file, x.line)):
        if f.body is None or not any(s_ in f.file for s_ in file_filter):
            continue
        for L in f.walk():
            if L["k"] != "For" or len(L["c"]) < 4 or L["c"][3] is None:
                continue
            body = L["c"][3]
            stmts = body["c"] if body["k"] == "Block" else [body]
            guards_before = []       # (statement index, condition text) of top-level `if (c) continue;`
            upd = {}                 # name key -> (kind, guards, node)
            seen = []
            for st in stmts:
                if st is None:
                    continue
                if st["k"] == "If":
                    cnd, then = st["c"][-3], st["c"][-2]
                    leaves = then is not None and (then["k"] == "Continue" or (then["k"] == "Block" and any(y is not None and y["k"] == "Continue" for y in then["c"])))
                    if leaves and st["c"][-1] is None:
                        seen.append(show(cnd))
                        continue
                for x in walk(st):
                    if x["k"] == "UnOp" and (x.get("op") or "").replace("post", "") == "++":
                        k_ = _root_name(x["c"][0])
                        if k_ and k_[0] == "L":
                            upd.setdefault(k_, ("count", tuple(seen), x))
                    elif x["k"] == "Assign" and x.get("op") == "+=":
                        k_ = _root_name(x["c"][0])
                        if k_:
                            upd.setdefault(k_, ("sum", tuple(seen), x))
            counters = {k_: v for k_, v in upd.items() if v[0] == "count"}
            sums = {k_: v for k_, v in upd.items() if v[0] == "sum"}
            if not counters or not sums:
                continue
            # quotients sum / counter anywhere in the function
            for x in f.walk():
                num = den = None
                if x["k"] == "BinOp" and x.get("op") == "/":
                    num, den = x["c"][0], x["c"][1]
                elif x["k"] == "Assign" and x.get("op") == "/=":
                    num, den = x["c"][0], x["c"][1]
                if num is None:
                    continue
                kn = _root_name(num)
                kd = None
                for y in walk(den):
                    if y["k"] == "DeclRefExpr" and _root_name(y) in counters:
                        kd = _root_name(y)
                if kn in sums and kd in counters:
                    n += 1
                    why = accepted.get((f.name, kn[2], kd[2]))
                    ok = sums[kn][1] == counters[kd][1] or bool(why)
                    if not ok:
                        chk.analysed(f)
                    chk.ob(rule, "%s: `%s` and the counter `%s` it is divided by are updated behind the same guards" % (f.name, kn[2], kd[2]), f.loc(x), ok,
                           detail=None if ok else "the sum is updated after the guards {%s}, the counter after {%s}: the count is not the number of samples that "
                           "entered the sum (masked / incomplete samples are counted)" % ("; ".join(sums[kn][1]) or "none", "; ".join(counters[kd][1]) or "none"),
                           key="%s|%s|%s/%s" % (rule, f.name, kn[2], kd[2]), nontrivial=True)
    chk.floor(rule, n, floor_n)


def compact_counter_rule(prog, chk, rule, file_filter, floor_n):
    """a counter that advances once per ACTIVE sample is a rank among the active samples: it never is the sample rank of a per-sample
    accessor of the data base (`for (jrow..) { if (!isActive(jrow)) continue; setArray(jj, ..); jj++; }` writes the first samples of
    the data base, masked ones included, instead of the active ones).  Counter = a local initialised to 0, only ever modified by `++`
    at the top level of the body of a sample loop, after an activity gate that `continue`s."""
    import gates
    n = 0
    for f in sorted(prog.funcs, key=lambda x: (x.file, x.line)):
        if f.body is None or not any(s_ in f.file for s_ in file_filter):
            continue
        loopvars = set()
        for L in f.walk():
            if L["k"] == "For":
                for part in (L["c"][0], L["c"][2]):
                    for y in (walk(part) if part is not None else []):
                        if y["k"] in ("DeclRefExpr", "VarDecl"):
                            loopvars.add(y.get("d"))
        counters = {}
        for L in f.walk():
            if L["k"] != "For" or len(L["c"]) < 4 or L["c"][3] is None:
                continue
            body = L["c"][3]
            gated = False
            for st in (body["c"] if body["k"] == "Block" else [body]):
                if st is None:
                    continue
                if st["k"] == "If" and any(y["k"] == "Continue" for y in walk(st)) and any(
                        y["k"] == "MCall" and (y.get("callee") or "").split("::")[-1] in ("isActive", "isActiveAndDefined", "getSelection") for y in walk(st["c"][-3])):
                    gated = True
                    continue
                if gated and st["k"] == "UnOp" and (st.get("op") or "").replace("post", "") == "++" and st["c"][0] is not None and \
                        st["c"][0]["k"] == "DeclRefExpr" and st["c"][0].get("d") not in loopvars:
                    counters[st["c"][0]["d"]] = st
        # only `= 0` and that `++`
        for d in list(counters):
            for x in f.walk():
                if x["k"] == "Assign" and x["c"][0] is not None and x["c"][0]["k"] == "DeclRefExpr" and x["c"][0].get("d") == d:
                    r = x["c"][1]
                    while r is not None and r["k"] == "Cast":
                        r = r["c"][0]
                    if x.get("op") != "=" or r is None or r["k"] != "Int" or r.get("v") != 0:
                        counters.pop(d, None)
                        break
                if x["k"] == "UnOp" and x["c"][0] is not None and x["c"][0]["k"] == "DeclRefExpr" and x["c"][0].get("d") == d and d in counters and x["i"] != counters[d]["i"]:
                    counters.pop(d, None)
                    break
        for c in f.calls():
            if c["k"] != "MCall" or not (c.get("cls") or "").startswith("Db"):
                continue
            ri = gates.rank_arg_index(prog, c)
            a = call_args(c)
            if ri is None or ri >= len(a) or a[ri] is None:
                continue
            x = a[ri]
            while x["k"] == "Cast":
                x = x["c"][0]
            if x["k"] != "DeclRefExpr":
                continue
            n += 1
            bad = x.get("d") in counters
            if bad:
                chk.analysed(f)
            short = (c.get("callee") or "").split("::")[-1]
            chk.ob(rule, "%s: the sample rank `%s` of %s is not a count of active samples" % (f.name, x["n"], short), f.loc(c), not bad,
                   detail=None if not bad else "`%s` advances once per ACTIVE sample (it is the rank among the active samples) and is used as the sample rank of the "
                   "data base: the first samples are accessed, masked ones included, instead of the active ones" % x["n"],
                   key="%s|%s|%s(%s)" % (rule, f.name, short, x["n"]), nontrivial=bad)
    chk.floor(rule, n, floor_n)


def same_sample_gates_rule(prog, chk, rule, file_filter, floor_n):
    """the gates combined in one condition address the same sample: `!db->isActive(iech) || !db->isIsotopic(iech)` decides whether sample
    `iech` takes part; a second gate on another rank (`isIsotopic(iech0)`, the sample asked for, constant in the loop) lets an active sample
    with an undefined value through and shifts the rows of every following sample."""
    G = ("isActive", "isIsotopic", "isActiveAndDefined", "isAllUndefined", "isAllIsotopic")
    n = 0
    for f in sorted(prog.funcs, key=lambda x: (x.file, x.line)):
        if f.body is None or not any(s_ in f.file for s_ in file_filter):
            continue
        for x in f.walk():
            if x["k"] != "If" or x["c"][-3] is None:
                continue
            by = {}
            for y in walk(x["c"][-3]):
                if y["k"] == "MCall" and (y.get("callee") or "").split("::")[-1] in G and (y.get("cls") or "").startswith("Db"):
                    o = call_obj(y)
                    r = "this" if (o is None or o["k"] == "This") else show(o)
                    a = call_args(y)
                    if a and a[0] is not None:
                        by.setdefault(r, []).append((show(a[0]), (y.get("callee") or "").split("::")[-1]))
            for r, args in sorted(by.items()):
                if len(args) < 2:
                    continue
                n += 1
                ok = len({a_ for a_, _ in args}) == 1
                chk.analysed(f)
                chk.ob(rule, "%s: the gates of one condition address the same sample of %s" % (f.name, r), f.loc(x), ok,
                       detail=None if ok else "%s: the condition that decides whether a sample takes part tests two different samples" % ", ".join("%s(%s)" % (g_, a_) for a_, g_ in args),
                       key="%s|%s|%s" % (rule, f.name, r))
    chk.floor(rule, n, floor_n)


def inner_gate_rule(prog, chk, rule, file_filter, floor_n):
    """in a loop over the pairs of samples, the undefined-value gate of the INNER loop looks at the inner sample.  A gate of the inner body
    whose condition (locals of the body replaced by their definitions) depends on the outer rank only and on nothing the inner loop
    changes was already decided by the outer loop: it lets every second sample through, so a sample without value is counted among the
    neighbours of all the others (declustering by the moving-window count tested the value of the target twice)."""
    def strip(e):
        while e is not None and e["k"] == "Cast" and e.get("c"):
            e = e["c"][0]
        return e

    def loopvar(L):
        c = L["c"][1]
        if c is None or c["k"] != "BinOp" or c.get("op") not in ("<", "<="):
            return None
        a = strip(c["c"][0])
        return a["d"] if a is not None and a["k"] == "DeclRefExpr" else None

    def is_continue_if(s_):
        if s_["k"] != "If" or s_["c"][-1] is not None or s_["c"][-2] is None:
            return False
        t = s_["c"][-2]
        return t["k"] == "Continue" or (t["k"] == "Block" and len([c for c in t["c"] if c]) == 1 and [c for c in t["c"] if c][0]["k"] == "Continue")

    def mentions(e, d):
        return any(z["k"] == "DeclRefExpr" and z.get("d") == d for z in walk(e))
    GATES = ("isActive", "FFFF", "isActiveAndDefined", "isIsotopic")
    n = 0
    for f in sorted(prog.funcs, key=lambda x: (x.file, x.line)):
        if f.body is None or not any(s_ in f.file for s_ in file_filter):
            continue
        for Lo in f.walk():
            if Lo["k"] != "For" or len(Lo["c"]) < 4 or Lo["c"][3] is None:
                continue
            vi = loopvar(Lo)
            if vi is None:
                continue
            for Li in walk(Lo["c"][3]):
                if Li["k"] != "For" or len(Li["c"]) < 4 or Li["c"][3] is None or Li["c"][3]["k"] != "Block":
                    continue
                vj = loopvar(Li)
                if vj is None or vj == vi:
                    continue
                body = [s_ for s_ in Li["c"][3]["c"] if s_]
                gates_ = [s_ for s_ in body if is_continue_if(s_)]
                if not any(mentions(s_["c"][-3], vj) and any(z["k"] in ("MCall", "Call") and (z.get("callee") or "").split("::")[-1] in GATES
                                                             for z in walk(s_["c"][-3])) for s_ in gates_):
                    continue            # not a loop over samples
                loc = {}
                for s_ in body:
                    if s_["k"] == "DeclStmt":
                        for v in s_["c"]:
                            if v and v["k"] == "VarDecl" and v.get("c") and v["c"][0] is not None:
                                loc[v["d"]] = v["c"][0]
                assigned = set()
                for z in walk(Li["c"][3]):
                    if z["k"] in ("Assign", "CompoundAssign") and strip(z["c"][0]) is not None and strip(z["c"][0])["k"] == "DeclRefExpr":
                        assigned.add(strip(z["c"][0])["d"])
                    if z["k"] == "UnOp" and z.get("op") in ("++", "--", "post++", "post--", "pre++", "pre--") and strip(z["c"][0]) is not None and \
                            strip(z["c"][0])["k"] == "DeclRefExpr":
                        assigned.add(strip(z["c"][0])["d"])
                for s_ in gates_:
                    c = s_["c"][-3]
                    if not any(z["k"] == "Call" and (z.get("callee") or "") == "FFFF" for z in walk(c)):
                        continue
                    deps = set()

                    def collect(e, depth=0):
                        for z in walk(e):
                            if z["k"] == "DeclRefExpr" and z.get("dk") == "var":
                                deps.add(z["d"])
                                if z["d"] in loc and depth < 3:
                                    collect(loc[z["d"]], depth + 1)
                    collect(c)
                    n += 1
                    bad = vj not in deps and not (deps & assigned) and vi in deps
                    if bad:
                        chk.analysed(f)
                    chk.ob(rule, "%s: the value gate `%s` of the inner sample loop looks at the inner sample" % (f.name, show(c)[:50]), f.loc(s_), not bad,
                           detail=None if not bad else "the condition depends on the outer rank only (%s): it was already decided before the inner loop, so the inner "
                           "sample is never tested and a sample without value counts as a neighbour" % ", ".join(sorted(show(loc[d_])[:40] for d_ in deps if d_ in loc) or [show(c)[:40]]),
                           key="%s|%s|%s" % (rule, f.name, show(c)[:40]), nontrivial=bad)
    chk.floor(rule, n, floor_n)


def selection_switch_rule(prog, chk, rule, file_filter, floor_n):
    """a selection switch (`useSel`, `flag_sel`, `hasSel`...) set means: the masked samples are left out.  Everywhere in the library the switch
    and the activity test are combined as `!S || isActive(i)` (process) or `S && !isActive(i)` (skip).  The other polarities (`S || isActive(i)`,
    `!S && !isActive(i)`) use the selection exactly when the caller asked to ignore it, and ignore it when asked to honour it."""
    from e1_paths import peel_cond
    import re
    n = 0
    for f in sorted(prog.funcs, key=lambda x: (x.file, x.line)):
        if f.body is None or not any(s_ in f.file for s_ in file_filter):
            continue
        for x in f.walk():
            if x["k"] != "BinOp" or x.get("op") not in ("||", "&&"):
                continue
            sides = [peel_cond(c) for c in x["c"]]
            if any(core is None for core, _ in sides):
                continue
            sw = [(core, pol) for core, pol in sides if core["k"] == "DeclRefExpr" and re.search(r"sel", core.get("n") or "", re.I) and
                  (core.get("t") or "") in ("bool", "int", "const bool", "const int")]
            act = [(core, pol) for core, pol in sides if core["k"] == "MCall" and (core.get("callee") or "").split("::")[-1] == "isActive"]
            if len(sw) != 1 or len(act) != 1:
                continue
            n += 1
            (s_core, s_pol), (_a, a_pol) = sw[0], act[0]
            ok = (x["op"] == "||" and s_pol is False and a_pol is True) or (x["op"] == "&&" and s_pol is True and a_pol is False)
            if not ok:
                chk.analysed(f)
            chk.ob(rule, "%s: `%s` leaves the masked samples out exactly when `%s` is set" % (f.name, show(x)[:50], s_core["n"]), f.loc(x), ok,
                   detail=None if ok else "the switch and the activity test are combined with the opposite polarity of the %d other sites of the library: the "
                   "selection is consulted when the caller asked to ignore it and ignored when asked to honour it" % max(n - 1, 0),
                   key="%s|%s|%s" % (rule, f.name, show(x)[:40]), nontrivial=not ok)
    chk.floor(rule, n, floor_n)


AGGREGATES = ("normalScore", "mean", "variance", "stdv", "minimum", "maximum", "median", "quantiles", "correlation", "cumul", "norm", "range")


def aggregate_selection_rule(prog, chk, rule, floor_n):
    """a column handed to an aggregate of VectorHelper (ranks, mean, extrema ...) is fetched WITH the selection: `useSel` is true or the
    caller's own `useSel` parameter, never left to its default (false).  The normal score transform ranked the masked samples with the
    others: the scores of the active samples depended on the masked values."""
    def strip(e):
        while e is not None and e["k"] in ("Cast", "Paren") and e.get("c"):
            e = e["c"][0]
        return e
    n = 0
    for f in sorted(prog.funcs, key=lambda x: (x.file, x.line)):
        if f.body is None:
            continue
        cols = {}
        for x in f.walk():
            if x["k"] == "VarDecl" and x.get("c") and x["c"][0] is not None:
                c = strip(x["c"][0])
                if c is not None and c["k"] == "MCall" and (c.get("cls") or "").startswith("Db") and \
                        (c.get("callee") or "").split("::")[-1] in ("getColumnByLocator", "getColumn", "getColumnByUID", "getColumnByColIdx", "getColumnsByLocator"):
                    cols[x["d"]] = (x["n"], c)
        if not cols:
            continue
        for x in f.walk():
            if x["k"] not in ("Call", "MCall") or not (x.get("callee") or "").startswith("VectorHelper::") or (x.get("callee") or "").split("::")[-1] not in AGGREGATES:
                continue
            for a in call_args(x):
                a = strip(a)
                if a is None or a["k"] != "DeclRefExpr" or a.get("d") not in cols:
                    continue
                name, c = cols[a["d"]]
                args = call_args(c)
                cal = [g for g in prog.fns(c.get("callee") or "") if len(g.params) == len(args)]
                us = None
                for k, p_ in enumerate(cal[0].params if cal else []):
                    if p_["n"] == "useSel":
                        us = args[k]
                if us is None:
                    continue
                n += 1
                u = strip(us)
                ok = not (us["k"] == "DefaultArg" or (u is not None and u["k"] == "Bool" and not u.get("v")))
                chk.analysed(f)
                chk.ob(rule, "%s: `%s`, handed to VH::%s, is fetched with the selection" % (f.name, name, (x.get("callee") or "").split("::")[-1]), f.loc(c), ok,
                       detail=None if ok else "`%s` leaves useSel to false: the masked samples take part in the %s" % (show(c)[:50], (x.get("callee") or "").split("::")[-1]),
                       key="%s|%s|%s" % (rule, f.name, name))
    chk.floor(rule, n, floor_n)
