"""C06 - moving neighbourhood returns exactly the specified samples (DESIGN.md section C06).
Decides admission-gate completeness only: the statement that records a candidate sample is reachable, since the last
definition of the candidate rank, only through the pass edges of every required test (activity, definedness,
cross-validation exclusion, every registered pair checker, the distance / bench / cell checker), in each of the sibling
searches; and too few candidates lead to the empty result.  Sector assignment, quotas, closest-first selection and
the k-nearest correctness of the ball tree are NOT decided."""
import os

import facts
import gates
from facts import REPO, Program, extract, show, call_obj, call_args, walk
from e1_paths import CFG, peel_cond, single_def
from report import Check

UNITS = ["src/Neigh/ANeigh.cpp", "src/Neigh/NeighMoving.cpp", "src/Neigh/NeighBench.cpp", "src/Neigh/NeighCell.cpp",
         "src/Neigh/NeighUnique.cpp", "src/Neigh/NeighImage.cpp", "src/Tree/neighbors_heap.cpp", "src/Tree/ball_algorithm.cpp",
         "src/Tree/KNN.cpp", "src/Geometry/BiTargetCheckDistance.cpp", "src/Db/Db.cpp"]

# function -> (candidate variable, required gates).  Gate names are resolved by GATES below.
TABLE = {
    "NeighMoving::_moving": ("iech", ["ACTIVE", "DEFINED", "XVALID", "BIPTS", "DIST:_biPtDist"]),
    "NeighBench::_bench":   ("iech", ["ACTIVE", "DEFINED", "XVALID", "DIST:_biPtBench"]),
    "NeighCell::_cell":     ("iech", ["ACTIVE", "DEFINED", "XVALID", "DIST:_biPtCell"]),
    "NeighUnique::_unique": ("iech", ["ACTIVE", "DEFINED", "XVALID"]),
}
NMINI = {"NeighMoving::_moving": "nsel", "NeighCell::_cell": "nsel"}


def admission_sites(f, d):
    """stores that record the candidate: `<array>[..] = v` or `<array>[v] = ..` into a member / parameter array"""
    out = []
    for n in f.walk():
        if n["k"] not in ("Assign", "OpCall") or n.get("op") != "=":
            continue
        l, r = n["c"][0], n["c"][1]
        if l is None or l["k"] not in ("OpCall", "Index") or len(l.get("c") or []) != 2:
            continue
        base, idx = l["c"]
        isarr = base is not None and (base["k"] == "MemberExpr" or (base["k"] == "DeclRefExpr" and base.get("dk") == "parm"))
        if not isarr:
            continue
        if (idx is not None and idx["k"] == "DeclRefExpr" and idx.get("d") == d) or \
                (r is not None and r["k"] == "DeclRefExpr" and r.get("d") == d):
            out.append(n)
    return out


def gate_edges(gc, f, name, d):
    g = gc.g
    if name == "ACTIVE":
        return gc.pass_edges(gc.active_matcher(d)), "Db::isActive(%s)"
    if name == "DEFINED":
        return gc.pass_edges(gc.call_matcher({"_discardUndefined"}, d, False)), "!_discardUndefined(%s)"
    if name == "XVALID":
        e1 = gc.pass_edges(gc.call_matcher({"_xvalid"}, d, False))
        e2 = gc.pass_edges(gc.call_matcher({"getFlagXvalid"}, None, False))      # option off: vacuous
        return e1 | e2, "!_xvalid(%s, target) (when getFlagXvalid())"
    if name.startswith("DIST:"):
        recv = name.split(":")[1]
        return gc.pass_edges(gc.call_matcher({"isOK"}, None, True, recv=recv)), recv + "->isOK(target, %s)"
    if name == "BIPTS":
        # the accumulator `reject` must be false
        rej = None
        for n in f.walk():
            if n["k"] == "VarDecl" and n["n"] == "reject":
                rej = n["d"]
        if rej is None:
            return set(), "every registered pair checker accepts %s (no `reject` accumulator found)"

        def m(core):
            if core["k"] == "DeclRefExpr" and core.get("d") == rej:
                return False
            return None
        return gc.pass_edges(m), "every registered pair checker accepts %s"
    raise KeyError(name)


def bipts_loop(f, chk):
    """the loop over the registered pair checkers covers 0 .. _getBiPtsNumber() and a failing checker sets the
    rejection flag"""
    g = CFG(f)
    ok_loop = False
    ok_set = False
    where = f.loc()
    for loop in f.walk():
        if loop["k"] != "For":
            continue
        init, cond, inc, body = loop["c"]
        calls = [n for n in walk(body) if n["k"] == "MCall" and (n.get("callee") or "").endswith("::isOK") and
                 "_bipts[" in show(call_obj(n) or {})]
        if not calls:
            continue
        where = f.loc(loop)
        # loop variable from 0, bound = _getBiPtsNumber()
        iv = None
        bound_ok = False
        if init is not None and init["k"] == "DeclStmt":
            for v in init["c"]:
                c0 = (v.get("c") or [None])[0]
                if c0 is not None and c0["k"] == "Int" and c0["v"] == 0:
                    iv = v["d"]
                if c0 is not None and "_getBiPtsNumber" in show(c0):
                    nptd = v["d"]
        for x in walk(cond) if cond is not None else []:
            if x["k"] == "BinOp" and x.get("op") == "<" and x["c"][0] is not None and x["c"][0].get("d") == iv:
                r = x["c"][1]
                if r is not None and ("_getBiPtsNumber" in show(r) or (r["k"] == "DeclRefExpr" and "_getBiPtsNumber" in show(single_def(f, r["d"]) or {}))):
                    bound_ok = True
                if r is not None and r["k"] == "DeclRefExpr":
                    for v in (init["c"] if init is not None and init["k"] == "DeclStmt" else []):
                        if v["d"] == r["d"] and v.get("c") and "_getBiPtsNumber" in show(v["c"][0]):
                            bound_ok = True
        incr_ok = inc is not None and inc["k"] == "UnOp" and inc.get("op") in ("++", "post++")
        # the index of the checker is the loop variable
        idx_ok = all(any(x["k"] == "DeclRefExpr" and x.get("d") == iv for x in walk(call_obj(c))) for c in calls)
        ok_loop = iv is not None and bound_ok and incr_ok and idx_ok
        # failing checker => reject = true before the next loop test
        for c in calls:
            pos = g.pos_of(c)
            blk = g.blocks[pos[0]]
            cnd = g.cond(pos[0])
            core, pol = peel_cond(cnd) if cnd is not None else (None, None)
            if core is None or core["i"] != c["i"]:
                continue
            fail_edge = 1 if pol else 0          # edge on which isOK(..) is false
            start = blk["s"][fail_edge]

            def is_set(n):
                return n["k"] == "Assign" and n["c"][0] is not None and n["c"][0]["k"] == "DeclRefExpr" and \
                    n["c"][0]["n"] == "reject" and n["c"][1] is not None and n["c"][1]["k"] == "Bool" and n["c"][1]["v"] is True
            # a path from the failing edge back to the checker call (next iteration) or to the exit without the assignment
            w = g.search(None, start_blocks=[start], is_barrier=is_set, is_target=lambda n, c=c: n["i"] == c["i"]) or \
                g.search(None, start_blocks=[start], is_barrier=is_set, to_exit=True)
            ok_set = w is None
    chk.ob("C06", "NeighMoving::_moving: the checker loop runs over 0 .. _getBiPtsNumber()-1", where, ok_loop,
           detail=None if ok_loop else "the loop over the registered pair checkers does not cover all of them",
           key="C06|NeighMoving::_moving|bipts-loop")
    chk.ob("C06", "NeighMoving::_moving: a failing pair checker sets the rejection flag", where, ok_set,
           detail=None if ok_set else "a checker that refuses the pair does not lead to `reject = true`",
           key="C06|NeighMoving::_moving|bipts-set")


def sort_rule(prog, chk):
    """C06s - the sort that puts the k nearest neighbours in increasing distance order (simultaneous_sort, a quicksort):
    each recursive call on a sub-range of length L must be made exactly when L > 1 (ranges of length 0 or 1 are sorted,
    every longer one must be sorted).  Guard and length are integer expressions of the same locals: their equivalence is
    decided by exhaustive exact evaluation (E6) over every (size, pivot position) up to 64."""
    from e6_abseval import Interp, Unsupported
    from fractions import Fraction
    f = prog.fn("simultaneous_sort")
    chk.analysed(f)
    rec = [c for c in f.calls() if c["k"] == "Call" and c.get("callee") == "simultaneous_sort"]
    if len(rec) < 2:
        raise facts.AnalysisBroken("simultaneous_sort: recursive calls not found")
    size_d = f.params[2]["d"]
    n = 0
    for c in rec:
        length = call_args(c)[2]
        guard = None
        child = c
        for a in f.ancestors(c):
            if a["k"] == "If" and len(a["c"]) >= 2 and a["c"][1] is child:
                guard = a["c"][0]
                break
            child = a
        n += 1
        if guard is None:
            chk.ob("C06s", "simultaneous_sort: the recursive call `%s` is guarded" % show(c)[:50], f.loc(c), False,
                   detail="unguarded recursion", key="C06s|simultaneous_sort|%s" % show(length)[:25])
            continue
        free = sorted({(y["d"], y["n"]) for e in (guard, length) for y in walk(e) if y["k"] == "DeclRefExpr" and y.get("dk") in ("var", "parm")})
        others = [v for v in free if v[0] != size_d]
        if len(others) > 1:
            raise facts.AnalysisBroken("simultaneous_sort: guard over unexpected variables %s" % free)
        bad = None
        try:
            for size in range(4, 65):
                for p in range(0, size):          # the pivot ends at a position 0 .. size-1
                    env = {size_d: Fraction(size)}
                    if others:
                        env[others[0][0]] = Fraction(p)
                    gv = Interp(env).truth(Interp(env).ev(guard))
                    lv = Interp(env).ev(length)
                    if gv != (lv > 1):
                        bad = (size, p, gv, lv)
                        break
                if bad:
                    break
        except Unsupported as e:
            raise facts.AnalysisBroken("simultaneous_sort: guard outside the integer fragment: %s" % e)
        ok = bad is None
        chk.ob("C06s", "simultaneous_sort: the sub-range of length `%s` is sorted exactly when it has more than one element (guard `%s`)" % (
                   show(length)[:30], show(guard)[:30]), f.loc(c), ok,
               detail=None if ok else "for size = %d and the pivot at position %d the sub-range has %s elements but the guard is %s: it is left unsorted, "
               "so the k nearest neighbours are not returned in increasing distance order" % (bad[0], bad[1], bad[3], bad[2]),
               key="C06s|simultaneous_sort|%s" % show(length)[:25])
    chk.floor("C06s", n, 2)


def kinds_rule(prog, chk):
    """C06k - ranks of the target data base and ranks of the data base searched are different kinds of integers (E5): a per-sample
    accessor of `_dbin` never receives a target rank and conversely.  Kinds: loop variables bounded by `_dbin->getSampleNumber()`
    (IN) / `_dbout->getSampleNumber()` (OUT); the documented parameters `iech_in` / `iech_out`; the memo of the last target."""
    n = nk = 0
    for f in sorted(prog.funcs, key=lambda x: (x.file, x.line)):
        if f.body is None or not f.cls or not (f.cls == "ANeigh" or "ANeigh" in prog.bases(f.cls)):
            continue
        lb = {}
        for loop in f.walk():
            if loop["k"] == "For" and loop["c"][1] is not None:
                for x in walk(loop["c"][1]):
                    if x["k"] == "BinOp" and x.get("op") == "<" and x["c"][0] is not None and x["c"][0]["k"] == "DeclRefExpr":
                        lb.setdefault(x["c"][0]["d"], []).append(x["c"][1])

        def bound_kind(b, depth=0):
            while b is not None and b["k"] == "Cast":
                b = b["c"][0]
            if b is None or depth > 3:
                return None
            if b["k"] == "MCall" and (b.get("callee") or "").split("::")[-1] == "getSampleNumber":
                o = call_obj(b)
                s_ = show(o) if o is not None else ""
                return {"_dbin": "IN", "_dbout": "OUT"}.get(s_)
            if b["k"] == "DeclRefExpr" and b.get("dk") == "var":
                d = single_def(f, b["d"])
                if d is not None and d is not b:
                    return bound_kind(d, depth + 1)
            return None

        def kind(e, depth=0):
            while e is not None and e["k"] == "Cast":
                e = e["c"][0]
            if e is None or depth > 3:
                return None
            if e["k"] == "DeclRefExpr" and e.get("dk") == "parm":
                return {"iech_in": "IN", "iech_out": "OUT"}.get(e["n"])
            if e["k"] == "MemberExpr" and e.get("n") == "_iechMemo":
                return "OUT"
            if e["k"] == "DeclRefExpr" and e.get("dk") == "var":
                if e["d"] in lb:
                    ks = {bound_kind(b) for b in lb[e["d"]]}
                    return ks.pop() if len(ks) == 1 else None
                d = single_def(f, e["d"])
                if d is not None and d is not e:
                    return kind(d, depth + 1)
            return None
        ordn = {}
        for c in f.calls():
            if c["k"] != "MCall" or not (c.get("cls") or "").startswith("Db"):
                continue
            o = call_obj(c)
            recv = show(o) if o is not None else ""
            if recv not in ("_dbin", "_dbout"):
                continue
            ri = gates.rank_arg_index(prog, c)
            a = call_args(c)
            if ri is None or ri >= len(a):
                continue
            kd = kind(a[ri])
            n += 1
            if kd:
                nk += 1
            want = "IN" if recv == "_dbin" else "OUT"
            ok = kd is None or kd == want
            chk.analysed(f)
            short = (c.get("callee") or "").split("::")[-1]
            name = show(a[ri])[:20]
            ordn[(short, name)] = ordn.get((short, name), 0) + 1
            chk.ob("C06k", "%s: %s->%s receives `%s` (%s)" % (f.name, recv, short, name, {None: "kind not inferred", "IN": "rank of the data base searched",
                                                                                         "OUT": "rank of the target data base"}[kd]), f.loc(c), ok,
                   detail=None if ok else "`%s` is a rank of %s but indexes %s: the test (cross-validation code, coordinates, activity) is made on another "
                   "sample than the one intended, so the neighbourhood is not the specified one" % (name, "_dbout" if kd == "OUT" else "_dbin", recv),
                   key="C06k|%s|%s.%s(%s)#%d" % (f.name, recv, short, name, ordn[(short, name)]), nontrivial=kd is not None)
    chk.floor("C06k", n, 15)
    chk.floor("C06k-kinded", nk, 10)


def distance_use_rule(prog, chk):
    """C06h2 - inside the ball tree every distance is computed with the pluggable function the tree was configured with: the concrete
    distances (euclidean_distance, manhattan_distance) are named only where that function is chosen.  A node radius or a query bound
    computed with another distance than the one used to rank the points prunes sub-trees that hold closer points."""
    n = 0
    concrete = {"euclidean_distance", "manhattan_distance"}
    for f in sorted(prog.funcs, key=lambda x: (x.file, x.line)):
        if f.body is None or not f.file.endswith("src/Tree/ball_algorithm.cpp") or f.name in concrete:
            continue
        uses = [x for x in f.walk() if (x["k"] == "Call" and (x.get("callee") or "") in concrete) or
                (x["k"] == "DeclRefExpr" and x.get("n") in concrete and x.get("dk") in ("func", "other"))]
        calls_ptr = any(x["k"] == "ICall" for x in f.walk())
        if not uses and not calls_ptr:
            continue
        n += 1
        chk.analysed(f)
        ok = not uses or f.name == "define_dist_function"
        chk.ob("C06h2", "%s: distances are computed through the function the tree was configured with" % f.name, f.loc(uses[0]) if uses else f.loc(), ok,
               detail=None if ok else "`%s` is called directly: for a tree configured with another distance, radii / bounds and rankings are computed with "
               "different distances and the k nearest points are not the ones returned" % (uses[0].get("callee") or uses[0].get("n")),
               key="C06h2|%s" % f.name)
    chk.floor("C06h2", n, 3)


def attach_rule(prog, chk):
    """C06m - ANeigh::attach() (re)binds the data bases: every successful path rebuilds the ball tree of the searched data base and
    invalidates the memorised neighbourhood, also when the same objects are attached again (their content may have changed)."""
    f = prog.fn("ANeigh::attach")
    chk.analysed(f)
    g = CFG(f)
    ok_ret = lambda x: x["k"] == "Return" and x.get("c") and x["c"][0] is not None and x["c"][0]["k"] == "Int" and x["c"][0]["v"] == 0
    n = 0
    for what, names in (("invalidates the memorised neighbourhood", ("setIsChanged", "reset")), ("rebuilds the ball tree", ("attachBall",))):
        n += 1
        bar = lambda x, names=names: x["k"] == "MCall" and (x.get("callee") or "").split("::")[-1] in names
        if not any(bar(x) for x in f.walk()):
            chk.ob("C06m", "ANeigh::attach %s on every successful path" % what, f.loc(), False, detail="the call is absent", key="C06m|attach|%s" % names[0])
            continue
        w = g.search(g.entry_pos(), is_target=ok_ret, is_barrier=bar)
        chk.ob("C06m", "ANeigh::attach %s on every successful path" % what, f.loc(), w is None,
               detail=None if w is None else "a path returns success without it: after the data bases were edited in place and attached again, the search still "
               "answers from the previous state (stale memo / stale tree)", key="C06m|attach|%s" % names[0], path=None if w is None else g.describe(w))
    chk.floor("C06m", n, 2)


def ball_population_rule(prog, chk):
    """C06t - the ball tree queried by the moving search holds exactly the samples that may be admitted: it is built from the ACTIVE
    samples (useSel = true) and its answers (ranks among the active samples) are converted to sample ranks before they are used.  Built
    from all the samples, the masked ones take places among the nmaxi points returned and the neighbourhood has fewer samples than the
    nmaxi closest active ones."""
    n = 0
    f = prog.fn("ANeigh::attachBall")
    chk.analysed(f)
    inits = [c for c in f.calls() if (c.get("callee") or "") == "Ball::init"]
    for c in inits:
        a = call_args(c)
        sel = a[4] if len(a) > 4 else None
        while sel is not None and sel["k"] == "Cast":
            sel = sel["c"][0]
        ok = sel is not None and sel["k"] == "Bool" and sel["v"] is True
        n += 1
        chk.ob("C06t", "ANeigh::attachBall builds the tree from the active samples only", f.loc(c), ok,
               detail=None if ok else "the tree is built from every sample: masked samples are returned among the nmaxi closest points and then discarded, so the "
               "neighbourhood holds fewer samples than the nmaxi closest active ones", key="C06t|attachBall|useSel")
    m = prog.fn("NeighMoving::_moving")
    chk.analysed(m)
    for c in m.calls():
        if (c.get("callee") or "") == "Ball::getIndices":
            # the variable receiving the answer: every element read from it goes through getRankRelativeToAbsolute
            par = m.parent(c)
            tgt = None
            while par is not None and par["k"] in ("Cast", "Construct", "Temp", "Bind"):
                par = m.parent(par)
            if par is not None and par["k"] in ("Assign", "OpCall") and par["c"][0] is not None and par["c"][0]["k"] == "DeclRefExpr":
                tgt = par["c"][0]["d"]
            elif par is not None and par["k"] == "VarDecl":
                tgt = par["d"]
            if tgt is None:
                continue
            for x in m.walk():
                if (x["k"] == "Index" or (x["k"] == "OpCall" and x.get("op") == "[]")) and len(x.get("c") or []) == 2 and x["c"][0] is not None and \
                        x["c"][0]["k"] == "DeclRefExpr" and x["c"][0].get("d") == tgt:
                    n += 1
                    up = m.parent(x)
                    while up is not None and up["k"] == "Cast":
                        up = m.parent(up)
                    ok = up is not None and up["k"] == "MCall" and (up.get("callee") or "").endswith("::getRankRelativeToAbsolute")
                    chk.ob("C06t", "NeighMoving::_moving converts the answers of the tree (ranks among active samples) to sample ranks", m.loc(x), ok,
                           detail=None if ok else "`%s` is used as a sample rank although the tree numbers the active samples only" % show(x)[:30],
                           key="C06t|_moving|conversion")
    chk.floor("C06t", n, 2)


def ball_count_rule(prog, chk):
    """C06b - the number of points asked from the ball tree is bounded by the number of points it holds (the tree refuses
    k > n and the search then fails for EVERY target, although 'the nmaxi closest' are simply all the samples)."""
    n = 0
    for f in sorted(prog.funcs, key=lambda x: (x.file, x.line)):
        if f.body is None or not f.cls or not (f.cls == "ANeigh" or "ANeigh" in prog.bases(f.cls)):
            continue
        for c in f.calls():
            if c["k"] != "MCall" or (c.get("callee") or "") not in ("Ball::getIndices", "Ball::queryOneAsVDFromSP", "Ball::queryOneAsVD", "Ball::queryOne"):
                continue
            a = call_args(c)
            k = a[-1] if a else None
            n += 1
            chk.analysed(f)

            def bounded(e, depth=0):
                while e is not None and e["k"] == "Cast":
                    e = e["c"][0]
                if e is None or depth > 3:
                    return False
                if e["k"] == "Cond":           # MIN(a, b) expands to a conditional on a comparison of its two operands
                    txt = show(e)
                    return "getSampleNumber" in txt or "nech" in txt or "size()" in txt
                if e["k"] in ("Call", "MCall") and (e.get("callee") or "").split("::")[-1] in ("min", "MIN"):
                    return True
                if e["k"] == "DeclRefExpr" and e.get("dk") == "var":
                    d = single_def(f, e["d"])
                    return d is not None and d is not e and bounded(d, depth + 1)
                return False
            ok = bounded(k)
            chk.ob("C06b", "%s: the count passed to the ball tree is bounded by the number of samples" % f.name, f.loc(c), ok,
                   detail=None if ok else "`%s` is passed as it is: when it exceeds the number of samples the tree refuses the query and the "
                   "neighbourhood of every target is empty" % show(k)[:30], key="C06b|%s|%s" % (f.name, c["callee"].split("::")[-1]))
    chk.floor("C06b", n, 1)


def distance_rule(prog, chk):
    """C06h - the distance used by the ball tree is a file-static function pointer set by define_dist_function() when a tree is
    built.  For every documented choice (a user function; default 1 = Euclidean, 2 = Manhattan) every path through the function
    assigns the pointer: otherwise the tree is built and queried with whatever distance the PREVIOUS tree left there."""
    f = prog.fn("define_dist_function")
    chk.analysed(f)
    g = CFG(f)
    fp, sel = f.params[0], f.params[1]

    def is_assign(x):
        if x["k"] != "Assign" or x.get("op") != "=":
            return False
        l = x["c"][0]
        return l is not None and l["k"] == "DeclRefExpr" and l.get("n") == "st_distance_function"
    if not any(is_assign(x) for x in f.walk()):
        raise facts.AnalysisBroken("define_dist_function no longer assigns st_distance_function")
    n = 0
    for label, userfn, k in (("a user distance function", True, 1), ("default 1 (Euclidean)", False, 1), ("default 2 (Manhattan)", False, 2)):
        def edge_ok(blk, e, s_, userfn=userfn, k=k):
            c = g.cond(blk["b"])
            if c is None or len(blk["s"]) != 2:
                return True
            core, pol = peel_cond(c)
            while core is not None and core["k"] == "Cast":
                core = core["c"][0]
            val = None
            if core is not None and core["k"] == "BinOp" and core.get("op") in ("==", "!="):
                l, r = core["c"]
                while l is not None and l["k"] == "Cast":
                    l = l["c"][0]
                while r is not None and r["k"] == "Cast":
                    r = r["c"][0]
                if l is not None and l.get("d") == sel["d"] and r is not None and r["k"] == "Int":
                    val = (k == r["v"]) if core["op"] == "==" else (k != r["v"])
                elif l is not None and l.get("d") == fp["d"] and r is not None and r["k"] == "Null":
                    val = (not userfn) if core["op"] == "==" else userfn
            elif core is not None and core["k"] == "DeclRefExpr" and core.get("d") == fp["d"]:
                val = userfn
            if val is None:
                return True
            return ((e == 0) == pol) == val
        w = g.search(g.entry_pos(), to_exit=True, is_barrier=is_assign, edge_ok=edge_ok)
        n += 1
        chk.ob("C06h", "define_dist_function: the distance of the tree being built is set for %s" % label, f.loc(), w is None,
               detail=None if w is None else "a path through the function leaves st_distance_function as the previous tree set it: after a tree built "
               "with another distance, this tree is built and queried with that distance (wrong k nearest neighbours)",
               key="C06h|define_dist_function|%s" % label, path=None if w is None else g.describe(w))
    chk.floor("C06h", n, 3)


def main(tier):
    chk = Check("C06", tier,
                "Static admission-gate completeness of the neighbourhood searches (moving, bench, cell, unique): the statement "
                "recording a candidate is reachable only through the pass edges of the activity, definedness, cross-validation, "
                "pair-checker and distance tests for that candidate, on every CFG path including the ball-tree path; fewer than nmini "
                "candidates give the empty result; the quicksort that orders the k nearest neighbours of the ball tree recurses on a "
                "sub-range exactly when it has more than one element. Sector assignment, quotas, closest-first ordering of the moving "
                "search and the selection of the k nearest by the ball tree are NOT decided.")
    units = [os.path.join(REPO, u) for u in UNITS]
    d = extract(units, "C06-" + tier)
    prog = Program().load_dir(d)
    chk.units = list(prog.units)
    n = 0
    for fname, (vname, gl) in sorted(TABLE.items()):
        f = prog.fn(fname)
        chk.analysed(f)
        gc = gates.GateCtx(f)
        dd = None
        for x in f.walk():
            if x["k"] == "VarDecl" and x["n"] == vname:
                dd = x["d"]
        if dd is None:
            raise facts.AnalysisBroken("candidate variable %s not found in %s" % (vname, fname))
        sites = admission_sites(f, dd)
        if not sites:
            raise facts.AnalysisBroken("no admission statement found in %s" % fname)
        for gname in gl:
            passes, text = gate_edges(gc, f, gname, dd)
            n += 1
            if not passes:
                chk.ob("C06", "%s: gate %s exists" % (fname, text % vname), f.loc(), False,
                       detail="the test is absent from the function", key="C06|%s|%s" % (fname, gname))
                continue
            bad = None
            for s in sites:
                w = gc.ungated_path(dd, s, passes)
                if w is not None:
                    bad = (s, w)
                    break
            chk.ob("C06", "%s: candidate recorded only after %s" % (fname, text % vname), f.loc(sites[0]), bad is None,
                   detail=None if bad is None else "`%s` is reachable from a definition of `%s` without passing this test: a sample the "
                   "neighbourhood parameters exclude is admitted" % (show(bad[0])[:40], vname),
                   key="C06|%s|%s" % (fname, gname), path=None if bad is None else gc.g.describe(bad[1]))
        if "BIPTS" in gl:
            bipts_loop(f, chk)
            n += 2
    # nmini
    for fname, cnt in sorted(NMINI.items()):
        f = prog.fn(fname)
        g = CFG(f)
        n += 1

        def m_enough(core):
            # `nsel < getNMini()` must be false
            if core["k"] == "BinOp" and core.get("op") == "<" and core["c"][0] is not None and core["c"][0].get("n") == cnt and \
                    "getNMini" in show(core["c"][1]):
                return False
            return None
        gc = gates.GateCtx(f)
        passes = gc.pass_edges(m_enough)

        def success_ret(x):
            if x["k"] != "Return":
                return False
            v = (x.get("c") or [None])[0]
            if v is None:
                return False
            if v["k"] == "Int":
                return v["v"] == 0
            # `return (nsel < getNMini())` reports failure exactly when too few
            return not (m_enough(peel_cond(v)[0]) is False)
        # success return reachable from the end of the candidate loop without the test
        sites = admission_sites(f, [x for x in f.walk() if x["k"] == "VarDecl" and x["n"] == TABLE[fname][0]][0]["d"])
        w = g.search(g.after(sites[-1]), is_target=success_ret, edge_ok=lambda blk, k, s_: (blk["b"], k) not in passes)
        chk.ob("C06", "%s: fewer than nmini candidates give the empty result" % fname, f.loc(), w is None,
               detail=None if w is None else "success is returned without testing the number of candidates against getNMini()",
               key="C06|%s|nmini" % fname, path=None if w is None else g.describe(w))
    chk.floor("C06", n, 19)
    sort_rule(prog, chk)
    kinds_rule(prog, chk)
    distance_rule(prog, chk)
    ball_count_rule(prog, chk)
    distance_use_rule(prog, chk)
    attach_rule(prog, chk)
    ball_population_rule(prog, chk)
    import c06_more
    c06_more.stated_bound_rule(prog, chk)
    c06_more.suffix_rule(prog, chk)
    c06_more.space_target_rule(prog, chk)
    c06_more.dimension_rule(prog, chk)
    return chk.finish()
