"""C06 - further structural rules (wave 9): stated bounds, data-base / rank agreement, what a space target is loaded with, the
dimension of the default distance checker."""
import re

from facts import show, call_obj, call_args, walk


def _strip(e):
    while e is not None and e["k"] in ("Cast", "Paren") and e.get("c"):
        e = e["c"][0]
    return e


def stated_bound_rule(prog, chk):
    """C06q - a refusal agrees with the bound its own message states.  `if (A < B) { messerr("... must be less than or equal to ...") }`
    refuses exactly the requests the message excludes when the comparison is STRICT: with `<=` the request k == n (all the points of
    the tree, what the moving search asks for when nmaxi exceeds the number of active samples) is refused and the neighbourhood comes
    back empty."""
    n = 0
    for f in sorted(prog.funcs, key=lambda x: (x.file, x.line)):
        if f.body is None:
            continue
        for x in f.walk():
            if x["k"] != "If" or x["c"][-3] is None or x["c"][-2] is None:
                continue
            c = _strip(x["c"][-3])
            if c["k"] != "BinOp" or c.get("op") not in ("<", "<=", ">", ">="):
                continue
            for m in walk(x["c"][-2]):
                if m["k"] != "Call" or (m.get("callee") or "") not in ("messerr", "message"):
                    continue
                a = call_args(m)
                t = show(a[0]) if a and a[0] is not None else ""
                if not re.search(r"than or equal to", t, re.I):
                    continue
                n += 1
                ok = c["op"] in ("<", ">")
                chk.analysed(f)
                chk.ob("C06q", "%s: the refusal `%s` excludes what its message excludes" % (f.name, show(c)[:50]), f.loc(x), ok,
                       detail=None if ok else "the message allows equality (%s) but `%s` refuses it: a request for exactly as many neighbours as "
                       "there are points is refused and the result is empty" % (t[:70], show(c)[:40]),
                       key="C06q|%s|%s" % (f.name, show(c)[:40]))
    chk.floor("C06q", n, 2)


def suffix_rule(prog, chk):
    """C06n - a rank named `*_in` addresses the input data base and a rank named `*_out` the output one.  The fold of the target of a
    K-fold cross-validation read with `_dbin->getLocVariable(ELoc::C, iech_out, 0)` is the fold of an unrelated sample as soon as the
    targets live in their own data base."""
    n = 0
    for f in sorted(prog.funcs, key=lambda x: (x.file, x.line)):
        if f.body is None:
            continue
        for x in f.walk():
            if x["k"] != "MCall":
                continue
            o = _strip(call_obj(x))
            if o is None or o["k"] != "MemberExpr" or o.get("n") not in ("_dbin", "_dbout"):
                continue
            for a in call_args(x):
                a = _strip(a)
                if a is None or a["k"] != "DeclRefExpr" or not re.search(r"_(in|out)$", a.get("n") or ""):
                    continue
                n += 1
                ok = a["n"].endswith("_in") == (o["n"] == "_dbin")
                chk.analysed(f)
                chk.ob("C06n", "%s: `%s` addresses the data base it is a rank of" % (f.name, show(x)[:50]), f.loc(x), ok,
                       detail=None if ok else "`%s` is a rank of the %s data base but is handed to `%s`: another sample is read as soon as the two "
                       "data bases differ" % (a["n"], "input" if a["n"].endswith("_in") else "output", o["n"]),
                       key="C06n|%s|%s" % (f.name, show(x)[:40]))
    chk.floor("C06n", n, 5)


ROLE_SETTER = {"C": "setCode", "DATE": "setDate"}


def space_target_rule(prog, chk):
    """C06d - the optional items of a space target are loaded from the role they are named after: under `hasLocVariable(ELoc::R)` the
    value read is the one of role R and it is stored with the setter of R (code <- C, date <- DATE).  The date stored with setCode() left
    every date undefined, so the date pair checker refused every pair (and the code checker compared dates)."""
    f = prog.fn("Db::getSampleAsSTInPlace")
    chk.analysed(f)
    n = 0
    for x in f.walk():
        if x["k"] != "If" or x["c"][-3] is None or x["c"][-2] is None:
            continue
        has = [z for z in walk(x["c"][-3]) if z["k"] == "MCall" and (z.get("callee") or "").split("::")[-1] == "hasLocVariable"]
        if len(has) != 1:
            continue
        role = show(call_args(has[0])[0]).split("::")[-1]
        sets = [z for z in walk(x["c"][-2]) if z["k"] == "MCall" and (z.get("callee") or "").split("::")[-1].startswith("set") and
                (z.get("cls") or "").startswith("SpaceTarget")]
        for s_ in sets:
            n += 1
            reads = [z for z in walk(s_) if z["k"] == "MCall" and (z.get("callee") or "").split("::")[-1] == "getLocVariable"]
            rroles = {show(call_args(z)[0]).split("::")[-1] for z in reads}
            setter = (s_.get("callee") or "").split("::")[-1]
            ok = rroles == {role} and ROLE_SETTER.get(role) == setter
            chk.ob("C06d", "Db::getSampleAsSTInPlace: role %s is read and stored as %s" % (role, ROLE_SETTER.get(role, "?")), f.loc(s_), ok,
                   detail=None if ok else "under hasLocVariable(%s) the value of role(s) %s is stored with %s(): the %s of the target stays "
                   "undefined and the pair checker that compares it refuses (or wrongly accepts) every pair" % (
                       role, ", ".join(sorted(rroles)), setter, "date" if role == "DATE" else "code"),
                   key="C06d|%s" % role)
    chk.floor("C06d", n, 2)


def dimension_rule(prog, chk):
    """C06e - the space dimension of the distance checker comes from its arguments or from the space, never from a literal: with
    `_ndim = 2` an isotropic neighbourhood in 3-D ignores the third coordinate (a sample 100 units above the target is 'within radius 5')."""
    n = 0
    for f in sorted(prog.funcs, key=lambda x: (x.file, x.line)):
        if f.body is None or f.cls != "BiTargetCheckDistance":
            continue
        for x in f.walk():
            if x["k"] == "Assign" and x.get("op") == "=" and _strip(x["c"][0]) is not None and _strip(x["c"][0])["k"] == "MemberExpr" and \
                    _strip(x["c"][0]).get("n") == "_ndim":
                n += 1
                r = _strip(x["c"][1])
                ok = not (r is not None and r["k"] == "Int")
                chk.analysed(f)
                chk.ob("C06e", "%s: `%s` takes the dimension from the arguments or the space" % (f.name, show(x)[:40]), f.loc(x), ok,
                       detail=None if ok else "the number of coordinates compared by isOK() is the literal %s whatever the space: the other "
                       "coordinates of the samples are ignored by the radius test" % show(r), key="C06e|%s|%s" % (f.name, show(x)[:30]))
    chk.floor("C06e", n, 2)
