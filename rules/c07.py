"""C07 - a Db stays a consistent table under any sequence of edits (DESIGN.md section C07).  Structural clauses only:
 R7.0 the internal maps are private (compile-fail witness)
 R7.1 co-update: a method that changes the shape of one of the maps (column count, value array, identifier table, name list)
      changes the others too; same for sibling containers that grow together (generic co-update rule, also used for the
      parallel containers of other classes under C10)
 R7.2 every write of a column name is followed, on every path, by the uniqueness repair
 R7.3 a column keeps one role: assigning a role erases the identifier from every role list first; deleting a column erases
      it from every role list
 R7.4 every designator container parameter of a public method is used through its elements, not only its size
 R7.7 the next free rank of a role is computed after the role was cleaned
 R7.9 identifiers vs column indices of a Db (E5 kinds, rule K)
 R7.8 every column of a reduced data base (Db::resetReduce) depends on the list of selected samples
 R7.6 a role rank received as a parameter is compared with the length of the role list before it indexes it
 R7.5 the file-static scratch buffers of the Db sources are refilled before every read (no value carried over from the
      previous call / another Db); file-static hidden arguments are assigned before the calls that read them
"""
import os
import re
import subprocess

import facts
from facts import REPO, Program, extract, show, call_obj, call_args, walk, CALL_KINDS
from e1_paths import CFG, peel_cond
from report import Check

UNITS = ["src/Basic/String.cpp", "src/Db/Db.cpp", "src/Db/DbGrid.cpp", "src/Db/DbLine.cpp", "src/Db/DbHelper.cpp", "src/Db/PtrGeos.cpp",
         "src/Db/DbGraphO.cpp", "src/Db/DbMeshTurbo.cpp", "src/Db/DbMeshStandard.cpp"]
SHAPE_OPS = {"resize", "erase", "push_back", "insert", "clear", "assign", "emplace_back", "pop_back", "remove", "reserve_and_fill"}


def this_field(n):
    if n is None or n["k"] != "MemberExpr" or n.get("mk") != "field":
        return None
    b = (n.get("c") or [None])[0]
    if b is None or b["k"] == "This":
        return n["n"]
    return None


ELEM_WRITE_COUNTS = {"_uidcol"}      # the identifier table only grows; re-pointing its entries is its way of following a deletion


def shape_mods(f, fields):
    """{field: [nodes]} structural modifications of the given fields of `this` in function f"""
    out = {}
    for n in f.walk():
        k = n["k"]
        c = n.get("c") or []
        if k in ("Assign", "OpCall", "UnOp") and c and c[0] is not None and c[0]["k"] in ("OpCall", "Index") and \
                (n.get("op") in ("=", "--", "++", "post--", "post++", "-=", "+=")):
            base = (c[0].get("c") or [None])[0]
            fl = this_field(base)
            if fl in fields and fl in ELEM_WRITE_COUNTS:
                out.setdefault(fl, []).append(n)
        if k == "Assign" and c:
            fl = this_field(c[0])
            if fl in fields:
                out.setdefault(fl, []).append(n)
        elif k == "OpCall" and n.get("op") == "=" and c:
            fl = this_field(c[0])
            if fl in fields:
                out.setdefault(fl, []).append(n)
        elif k == "UnOp" and n.get("op") in ("++", "--", "post++", "post--") and c:
            fl = this_field(c[0])
            if fl in fields:
                out.setdefault(fl, []).append(n)
        elif k == "MCall" and c:
            fl = this_field(c[0])
            short = (n.get("callee") or "").split("::")[-1]
            if fl in fields and short in SHAPE_OPS:
                out.setdefault(fl, []).append(n)
    for i in f.d.get("inits", []):
        if i.get("field") in fields and i.get("init") is not None:
            out.setdefault(i["field"], []).append(i["init"])
    return out


def co_update(prog, chk, cls, groups, rule, exempt=None, triggers=None):
    """groups: list of field sets that must change shape together.  For every method of cls that structurally modifies one
    field of a group, the method (or the methods of cls it calls on this, transitively) modifies every other field."""
    exempt = exempt or {}
    methods = [f for f in prog.funcs if f.cls == cls and f.body is not None]
    mods = {}
    calls = {}
    allf = set().union(*groups)
    for f in methods:
        mods[f.usr] = shape_mods(f, allf)
        cs = set()
        for n in f.walk():
            if n["k"] == "MCall" and n.get("cls") == cls:
                o = call_obj(n)
                if o is None or o["k"] == "This":
                    for t in prog.by_name.get(n["callee"], []):
                        cs.add(t.usr)
        calls[f.usr] = cs

    def closure(u, seen=None):
        seen = seen or set()
        if u in seen or u not in mods:
            return set()
        seen.add(u)
        out = set(mods[u])
        for c in calls.get(u, ()):
            out |= closure(c, seen)
        return out
    n = 0
    for f in sorted(methods, key=lambda x: (x.file, x.line)):
        direct = mods[f.usr]
        if not direct:
            continue
        for grp in groups:
            trig = triggers.get(tuple(sorted(grp)), grp) if triggers else grp
            touched = [fl for fl in grp if fl in direct and fl in trig]
            if not touched:
                continue
            n += 1
            chk.analysed(f)
            got = closure(f.usr)
            missing = sorted(set(grp) - got)
            key = "%s|%s|%s" % (rule, f.name + "/%d" % len(f.params), "+".join(sorted(grp)))
            if (f.name, tuple(sorted(grp))) in exempt:
                chk.ob(rule, "%s: changes %s (exempt: %s)" % (f.sig(), ", ".join(touched), exempt[(f.name, tuple(sorted(grp)))]),
                       f.loc(), True, key=key, nontrivial=False)
                continue
            chk.ob(rule, "%s: changes the shape of %s and of the rest of {%s}" % (f.sig(), ", ".join(touched), ", ".join(sorted(grp))),
                   f.loc(direct[touched[0]][0]) if "l" in direct[touched[0]][0] else f.loc(), not missing,
                   detail=None if not missing else "the method changes the shape of %s but never %s: the parallel containers of %s get out "
                   "of step (a designation of a column / element then refers to different data in each of them)" % (
                       ", ".join(touched), ", ".join(missing), cls),
                   key=key)
    return n


def r7_0(chk):
    """compile-fail witness: the maps cannot be written from outside the class"""
    src = os.path.join(facts.WITNESS, "db_private.cpp")
    cmd = ["clang++", "-fsyntax-only", "-ferror-limit=0"] + facts.flags() + [src]
    facts.ensure_gen()
    p = subprocess.run(cmd, stdout=subprocess.PIPE, stderr=subprocess.PIPE, text=True)
    errs = [l for l in p.stderr.splitlines() if "error:" in l]
    want = ["_ncol", "_nech", "_array", "_uidcol", "_colNames", "_p"]
    for w in want:
        ok = any(("'%s' is a private member" % w) in l for l in errs)
        chk.ob("R7.0", "Db::%s cannot be written from outside the class (compile-fail witness)" % w, "witness/db_private.cpp", ok,
               detail=None if ok else "the witness unit that writes Db::%s compiled: the map is no longer private, any code can break "
               "the table invariants" % w, key="R7.0|Db|" + w)
    # positive control: the witness must contain nothing else that fails
    other = [l for l in errs if "is a private member" not in l]
    chk.ob("R7.0", "witness unit fails only on the private members", "witness/db_private.cpp", not other,
           detail=None if not other else "unexpected error in the witness: " + (other[0] if other else ""), key="R7.0|Db|control")


def r7_2(prog, chk):
    repair = {"correctNamesForDuplicates", "correctNewNameForDuplicates"}
    n = 0
    for f in sorted(prog.funcs, key=lambda x: (x.file, x.line)):
        if f.cls != "Db" or f.cfg is None:
            continue
        writes = []
        for x in f.walk():
            if x["k"] in ("Assign", "OpCall") and x.get("op") == "=":
                l = x["c"][0]
                if l is not None and l["k"] in ("OpCall", "Index") and len(l.get("c") or []) == 2 and this_field(l["c"][0]) == "_colNames":
                    writes.append(x)
        if not writes:
            continue
        g = CFG(f)
        chk.analysed(f)
        for w in writes:
            n += 1
            is_rep = lambda x: x["k"] == "Call" and (x.get("callee") or "").split("::")[-1] in repair
            wit = g.exit_without(w, is_rep)
            sig = f.name + "/%d" % len(f.params)
            chk.ob("R7.2", "%s: name write `%s` is followed by the uniqueness repair on every path" % (f.sig(), show(w)[:50]), f.loc(w),
                   wit is None,
                   detail=None if wit is None else "a column name is written and the function returns without correctNamesForDuplicates / "
                   "correctNewNameForDuplicates: two columns can end up with the same name",
                   key="R7.2|%s" % sig, path=None if wit is None else g.describe(wit))
    chk.floor("R7.2", n, 10)


def r7_3(prog, chk):
    # (a) setLocatorByUID: the insertion is dominated by the erasing loop over all role lists
    f = prog.fn("Db::setLocatorByUID")
    chk.analysed(f)
    g = CFG(f)
    ins = [x for x in f.walk() if x["k"] == "MCall" and (x.get("callee") or "").endswith("PtrGeos::setLocatorByIndex")]
    ers = [x for x in f.walk() if x["k"] == "MCall" and (x.get("callee") or "").endswith("PtrGeos::erase")]
    ok = bool(ins) and bool(ers)
    loop_all = False
    from e1_paths import single_def
    top = f.body["c"] if f.body is not None else []
    for loop in f.walk():
        if loop["k"] == "For" and any(any(x is e for x in walk(loop)) for e in ers):
            cond = loop["c"][1]
            b = cond["c"][1] if cond is not None and cond["k"] == "BinOp" else None
            bs = show(b)
            if b is not None and b["k"] == "DeclRefExpr":
                bs = show(single_def(f, b["d"]))
            loop_all = "getNEloc" in bs
            # the loop is a top-level statement that precedes the statement holding the insertion, with no return between
            def top_index(node):
                for i, st in enumerate(top):
                    if st is not None and any(x is node for x in walk(st)):
                        return i
                return None
            il, ii = top_index(loop), top_index(ins[0]) if ins else None
            ok = ok and il is not None and ii is not None and il < ii and \
                not any(x["k"] == "Return" for st in top[il:ii] if st is not None for x in walk(st))
    chk.ob("R7.3", "Db::setLocatorByUID: the identifier is looked up (and erased) in every role list before it is inserted", f.loc(),
           ok and loop_all,
           detail=None if (ok and loop_all) else "a role is assigned without first removing the column from all the role lists: the column can "
           "carry two roles", key="R7.3|Db::setLocatorByUID|erase-before-insert")
    # (b) deleteColumnByUID erases the identifier from every role list
    f = prog.fn("Db::deleteColumnByUID")
    chk.analysed(f)
    ers = [x for x in f.walk() if x["k"] == "MCall" and (x.get("callee") or "").endswith("PtrGeos::erase")]
    ok = False
    for loop in f.walk():
        if loop["k"] == "For" and any(e in list(walk(loop)) for e in ers):
            cond = loop["c"][1]
            b = cond["c"][1] if cond is not None and cond["k"] == "BinOp" else None
            bs = show(b)
            if b is not None and b["k"] == "DeclRefExpr":
                from e1_paths import single_def
                bs = show(single_def(f, b["d"]))
            ok = "getNEloc" in bs
    chk.ob("R7.3", "Db::deleteColumnByUID: the identifier is erased from every role list", f.loc(), ok,
           detail=None if ok else "a deleted column keeps a role entry", key="R7.3|Db::deleteColumnByUID|erase-all")


def r7_4(prog, chk):
    n = 0
    for f in sorted(prog.funcs, key=lambda x: (x.file, x.line)):
        if f.cls not in ("Db", "DbGrid", "DbLine", "DbGraphO") or f.d.get("access") != "public" or f.body is None:
            continue
        for p in f.params:
            t = p["t"].replace("const ", "").replace("&", "").strip()
            if t not in ("VectorInt", "VectorString") or p["n"] not in ("icols", "iuids", "names", "cols", "uids", "ranks"):
                continue
            n += 1
            chk.analysed(f)
            uses = [x for x in f.walk() if x["k"] == "DeclRefExpr" and x.get("d") == p["d"]]
            elem_use = False
            for u in uses:
                par = f.parent(u)
                if par is not None and par["k"] == "MCall" and call_obj(par) is u and \
                        (par.get("callee") or "").split("::")[-1] in ("size", "empty", "length"):
                    continue
                elem_use = True
            ok = elem_use or not uses
            if not uses:
                # unused parameter altogether (DECLARE_UNUSED...) : not a designator in effect
                ok = True
            chk.ob("R7.4", "%s: designator `%s` is used through its elements" % (f.sig(), p["n"]), f.loc(), ok,
                   detail=None if ok else "the method only looks at the size of `%s`: the columns it acts on are not the ones the caller "
                   "designated" % p["n"], key="R7.4|%s|%s" % (f.name + "/%d" % len(f.params), p["n"]))
    chk.floor("R7.4", n, 40)


def r7_6(prog, chk):
    """a role rank received as a PARAMETER indexes a role list only after it was compared with the length of that list
    (or the list was resized for it): the lookup by (role, rank) answers -1 / does nothing for a rank that does not exist"""
    from e1_paths import CFG, single_def
    n = 0
    for f in sorted(prog.funcs, key=lambda x: (x.file, x.line)):
        if f.cls != "Db" or f.cfg is None:
            continue
        params = {p["d"]: p["n"] for p in f.params}
        g = None
        for c in f.calls():
            short = (c.get("callee") or "").split("::")[-1]
            if short not in ("getLocatorByIndex", "setLocatorByIndex") or not (c.get("callee") or "").startswith("PtrGeos::"):
                continue
            a = call_args(c)
            idx = a[0] if a else None
            while idx is not None and idx["k"] == "Cast":
                idx = idx["c"][0]
            if idx is None or idx["k"] != "DeclRefExpr" or idx.get("d") not in params:
                continue
            n += 1
            chk.analysed(f)
            if g is None:
                g = CFG(f)
            pd = idx["d"]

            def is_size(e, depth=0):
                if e is None or depth > 3:
                    return False
                for y in walk(e):
                    if y["k"] == "MCall" and (y.get("callee") or "").split("::")[-1] in ("getLocatorNumber", "isLocatorIndexValid", "getFromLocatorNumber"):
                        return True
                    if y["k"] == "DeclRefExpr" and y.get("dk") == "var":
                        d = single_def(f, y["d"])
                        if d is not None and d is not y and is_size(d, depth + 1):
                            return True
                return False
            guards = set()
            for b, blk in g.blocks.items():
                if len(blk["s"]) != 2:
                    continue
                cnd = g.nodes.get(blk.get("tc")) if blk.get("tc") is not None and blk.get("tc") >= 0 else None
                if cnd is None:
                    continue
                if any(y["k"] == "DeclRefExpr" and y.get("d") == pd for y in walk(cnd)) and is_size(cnd):
                    guards.add(b)
            wit = g.search(g.entry_pos(), is_target=lambda y, c=c: y["i"] == c["i"], edge_ok=lambda blk, k, s_: blk["b"] not in guards) if g.pos_of(c) else None
            ok = wit is None
            chk.ob("R7.6", "%s: the role rank `%s` is compared with the length of the role list before it indexes it" % (f.sig(), params[pd]),
                   f.loc(c), ok,
                   detail=None if ok else "the rank comes from the caller and indexes the role list unchecked: for a role the Db does not hold (or a rank "
                   "beyond the last one) the lookup reads outside the list instead of answering -1",
                   key="R7.6|%s/%d|%s" % (f.name, len(f.params), short), path=None if ok else g.describe(wit))
    chk.floor("R7.6", n, 3)


def r7_7(prog, chk):
    """R7.7 - the next free rank of a role is asked AFTER the role has been cleaned: a function that both empties a role
    (clearLocators) and appends at `_getNextLocator()` computes the rank on the state it will append to; computed before the
    cleaning, the new columns are numbered after holders that no longer exist (gaps, and the rank-1 slots are taken by stale entries)."""
    from e1_paths import CFG
    n = 0
    for f in sorted(prog.funcs, key=lambda x: (x.file, x.line)):
        if f.cls != "Db" or f.cfg is None:
            continue
        nexts = [c for c in f.calls() if (c.get("callee") or "").endswith("Db::_getNextLocator")]
        clears = [c for c in f.calls() if (c.get("callee") or "").endswith("Db::clearLocators")]
        if not nexts or not clears:
            continue
        g = CFG(f)
        for nx in nexts:
            n += 1
            chk.analysed(f)
            cids = {c["i"] for c in clears}
            w = g.search(g.after(nx), is_target=lambda y: y["i"] in cids) if g.pos_of(nx) else None
            chk.ob("R7.7", "%s: the next free rank of the role is computed after the role was cleaned" % f.sig(), f.loc(nx), w is None,
                   detail=None if w is None else "clearLocators() runs after _getNextLocator(): the rank was computed with the holders that are then removed, so the "
                   "roles are not numbered consecutively from one", key="R7.7|%s/%d" % (f.name, len(f.params)),
                   path=None if w is None else g.describe(w))
    chk.floor("R7.7", n, 3)


def r7_8(prog, chk):
    """R7.8 - every column of a reduced data base follows the list of selected samples.  In Db::resetReduce the values are loaded
    through the rank list; any other column the function adds (the coordinates re-created for a grid) must depend on the same
    list (flow-sensitive dependences): a column added in the original order next to values that follow the list puts the data
    of two different samples on one row."""
    from e2_deps import Deps
    n = 0
    for f in prog.fns("Db::resetReduce"):
        if f.cfg is None:
            continue
        rp = [p["n"] for p in f.params if "VectorInt" in p["t"] or "vector<int" in p["t"]]
        if not rp:
            raise facts.AnalysisBroken("Db::resetReduce: rank list parameter not found")
        dp = Deps(f).solve()
        for c in f.calls():
            short = (c.get("callee") or "").split("::")[-1]
            if short not in ("addColumns", "_loadValues", "addColumnsByVVD"):
                continue
            a = [x for x in call_args(c) if x is not None]
            if not a:
                continue
            st = dp.state_before(c)
            deps = set()
            for x in a:
                deps |= dp.deps(x, st)
            n += 1
            ok = ("P:" + rp[0]) in deps
            chk.analysed(f)
            chk.ob("R7.8", "%s: the column(s) handed to %s follow the rank list `%s`" % (f.name, short, rp[0]), f.loc(c), ok,
                   detail=None if ok else "on some path the column does not depend on `%s` (it depends on {%s}): it is stored in the order of the input "
                   "data base while the other columns follow the list - with a list that permutes or repeats samples the rows mix two samples" % (
                       rp[0], ", ".join(sorted(x for x in deps if x.startswith(("C:", "P:"))))[:100]),
                   key="R7.8|%s|%s#%d" % (f.name, short, n))
    chk.floor("R7.8", n, 2)


def r7_15(prog, chk):
    """R7.15 - positions are removed from the highest one.  A loop that removes the samples / columns designated by the POSITIONS of a list
    (`deleteSample(v[i])`, `deleteColumnByColIdx(v[i])`) removes them in decreasing order (`v = VH::sort(list, false)`): in increasing order
    each removal shifts the following positions and the next one removes a neighbour (deleteSamples({1, 3}) removed samples 1 and 4)."""
    from e1_paths import single_def

    def strip(e):
        while e is not None and e["k"] in ("Cast", "Paren") and e.get("c"):
            e = e["c"][0]
        return e
    n = 0
    for f in sorted(prog.funcs, key=lambda x: (x.file, x.line)):
        if f.body is None or not (f.cls or "").startswith("Db"):
            continue
        for L in f.walk():
            if L["k"] != "For" or len(L["c"]) < 4 or L["c"][3] is None:
                continue
            for c in walk(L["c"][3]):
                if c["k"] != "MCall" or (c.get("callee") or "").split("::")[-1] not in ("deleteSample", "deleteColumnByColIdx"):
                    continue
                a = strip(call_args(c)[0]) if call_args(c) else None
                if a is None or a["k"] not in ("Index", "OpCall") or strip(a["c"][0]) is None or strip(a["c"][0])["k"] != "DeclRefExpr":
                    continue
                v = strip(a["c"][0])
                n += 1
                dd = single_def(f, v["d"])
                dd = strip(dd) if dd is not None else None
                while dd is not None and dd["k"] == "Construct" and dd.get("c"):
                    dd = strip(dd["c"][0])
                ok = False
                if dd is not None and dd["k"] in ("Call", "MCall") and (dd.get("callee") or "").split("::")[-1] == "sort":
                    args = call_args(dd)
                    ok = len(args) >= 2 and args[1] is not None and strip(args[1]) is not None and strip(args[1])["k"] == "Bool" and not strip(args[1]).get("v")
                chk.analysed(f)
                chk.ob("R7.15", "%s: `%s` removes the positions of `%s` from the highest one" % (f.name, show(c)[:40], v["n"]), f.loc(c), ok,
                       detail=None if ok else "`%s` is not the list sorted in decreasing order (VH::sort(.., false)): each removal shifts the positions that follow, "
                       "so other samples / columns than the designated ones are removed" % v["n"], key="R7.15|%s|%s" % (f.name, v["n"]))
    chk.floor("R7.15", n, 2)


def main(tier):
    chk = Check("C07", tier,
                "Static structural clauses of Db consistency: the internal maps are private; every method that changes the shape of "
                "one map changes the others; every name write is followed by the uniqueness repair on all paths; a role is assigned "
                "only after erasing the column from every role list; designator containers are used through their elements. "
                "Values of untouched cells, consecutive numbering of roles and reported counts vs content are NOT decided.")
    units = [os.path.join(REPO, u) for u in UNITS]
    d = extract(units, "C07-" + tier)
    prog = Program().load_dir(d)
    chk.units = list(prog.units)
    r7_0(chk)
    # a change of the column count / names / identifiers must reshape all four; a change of the sample count must reshape
    # the value array.  (_array alone is the follower of either group.)
    n = co_update(prog, chk, "Db", [{"_ncol", "_array", "_uidcol", "_colNames"}, {"_nech", "_array"}], "R7.1",
                  triggers={("_array", "_colNames", "_ncol", "_uidcol"): {"_ncol", "_colNames"},
                            ("_array", "_nech"): {"_nech"}},
                  exempt={("Db::addColumnsByConstant", ("_array", "_nech")): "sets the sample count of an EMPTY Db from nechInit before sizing the array (same statement block)"})
    chk.floor("R7.1", n, 8)
    r7_2(prog, chk)
    r7_3(prog, chk)
    r7_4(prog, chk)
    r7_6(prog, chk)
    r7_7(prog, chk)
    r7_8(prog, chk)
    # R7.9 (rule K): a column index never stands for a persistent identifier in a call of the Db API, nor the converse (uidkinds.py);
    # every unit that asks a Db for a column index or a column count is analysed
    import re as _re
    import uidkinds
    pat = _re.compile(r"getColIdx|getColumnNumber\s*\(\s*\)")
    extra = []
    for u in facts.all_units():
        try:
            if u not in units and pat.search(open(u, errors="replace").read()):
                extra.append(u)
        except OSError:
            pass
    if tier == "thorough":
        extra = [u for u in facts.all_units() if u not in units]
    kprog = Program().load_dir(extract(extra, "C07k-" + tier))
    kprog.load_dir(d)
    dh, _excl = facts.extract_headers("C07h-" + tier)
    kprog.load_dir(dh)
    chk.units += [u for u in kprog.units if u not in chk.units]
    uidkinds.rule(kprog, chk, "R7.9", ("src/",), 60)
    uidkinds.table_rule(prog, chk, "R7.10", 10)
    # R7.14: a refused call modifies nothing.  In the methods of the Db family an early `return` taken because an ARGUMENT is invalid
    # (`if (!isUIDValid(iuid)) return;`, isColIdxValid, isSampleIndexValid ...) is not preceded, on any path, by a modification of the
    # object (a non-const member call on `this` or an assignment to a member): the validation comes first
    n14 = 0
    for f in sorted(prog.funcs, key=lambda x: (x.file, x.line)):
        if f.cfg is None or not (f.cls or "").startswith("Db") or f.kind != "method":
            continue
        pd = {p_["d"] for p_ in f.params}
        checks = []
        for x in f.walk():
            if x["k"] != "If" or x["c"][-3] is None or x["c"][-2] is None:
                continue
            core, pol = peel_cond(x["c"][-3])
            if core is None or core["k"] != "MCall" or not re.match(r"is\w*Valid$", (core.get("callee") or "").split("::")[-1]):
                continue
            a_ = [y for y in call_args(core) if y is not None]
            if not a_ or not any(y["k"] == "DeclRefExpr" and y.get("d") in pd for y in walk(a_[0])):
                continue
            if pol is not False or not any(y["k"] == "Return" for y in walk(x["c"][-2])):
                continue
            checks.append((x, core))
        if not checks:
            continue
        g_ = CFG(f)

        def mutates(y):
            if y["k"] == "Assign" and y["c"][0] is not None:
                l = y["c"][0]
                while l is not None and (l["k"] in ("Index", "Cast") or (l["k"] == "OpCall" and l.get("op") == "[]")):
                    l = l["c"][0]
                return l is not None and l["k"] == "MemberExpr" and l.get("mk") == "field"
            if y["k"] == "MCall" and not y.get("cconst"):
                o = call_obj(y)
                if o is None or o["k"] == "This":
                    return not (y.get("callee") or "").split("::")[-1].startswith(("is", "get", "_get", "_is", "has"))
                return o["k"] == "MemberExpr" and o.get("mk") == "field"
            return False
        for x, core in checks:
            if g_.pos_of(core) is None:
                continue
            n14 += 1
            w = g_.search(g_.entry_pos(), is_target=lambda y, core=core: y["i"] == core["i"], is_barrier=None)
            # is there a mutation on some path from the entry to the test?
            hit = None
            for y in f.walk():
                if mutates(y) and g_.pos_of(y) is not None:
                    w1 = g_.search(g_.entry_pos(), is_target=lambda z, y=y: z["i"] == y["i"], is_barrier=lambda z, core=core: z["i"] == core["i"])
                    if w1 is not None and g_.search(g_.after(y), is_target=lambda z, core=core: z["i"] == core["i"]) is not None:
                        hit = y
                        break
            ok = hit is None
            if not ok:
                chk.analysed(f)
            chk.ob("R7.14", "%s: `%s` is checked before the object is modified" % (f.sig(), show(core)[:40]), f.loc(x), ok,
                   detail=None if ok else "`%s` (line %s) runs before the validity test: a call refused for its argument has already changed the data base" % (
                       show(hit)[:50], f.loc(hit).split(":")[-1]), key="R7.14|%s/%d|%s" % (f.name, len(f.params), show(core)[:40]), nontrivial=not ok)
    chk.floor("R7.14", n14, 30)
    r7_15(prog, chk)
    # R7.13: what a reader decodes is used.  In the `_deserialize` functions of the Db family every local that only RECEIVES values
    # (push_back / assignment / output argument) and is never read afterwards is a decoded field that the rebuilt object ignores
    # (the rank of a role decoded from "z2" and then replaced by "next free rank": the roles are renumbered at reload)
    n13 = 0
    for f in sorted(prog.funcs, key=lambda x: (x.file, x.line)):
        if f.body is None or f.short != "_deserialize":
            continue
        locs = {x["d"]: x for x in f.walk() if x["k"] == "VarDecl"}
        reads = {d_: 0 for d_ in locs}
        writes = {d_: 0 for d_ in locs}
        for x in f.walk():
            if x["k"] != "DeclRefExpr" or x.get("d") not in locs:
                continue
            par = f.parent(x)
            gp = f.parent(par) if par is not None else None
            wr = False
            if par is not None:
                if par["k"] == "MCall" and call_obj(par) is x and (par.get("callee") or "").split("::")[-1] in ("push_back", "resize", "clear", "reserve", "emplace_back", "fill"):
                    wr = True
                elif par["k"] in ("Assign",) and par["c"][0] is x and par.get("op") == "=":
                    wr = True
                elif par["k"] == "UnOp" and par.get("op") == "&":
                    # output argument of a record reader = a field of the file; other callees may have outputs nobody needs
                    callp = gp
                    while callp is not None and callp["k"] == "Cast":
                        callp = f.parent(callp)
                    if callp is not None and callp["k"] in CALL_KINDS and (callp.get("callee") or "").split("::")[-1].startswith(("_recordRead", "_tableRead")):
                        wr = True
                    else:
                        continue
                elif (par["k"] == "Index" or (par["k"] == "OpCall" and par.get("op") == "[]")) and par["c"][0] is x and gp is not None and \
                        ((gp["k"] == "Assign" and gp["c"][0] is par and gp.get("op") == "=") or (gp["k"] == "UnOp" and gp.get("op") == "&")):
                    wr = True
            if wr:
                writes[x["d"]] += 1
            else:
                reads[x["d"]] += 1
        for d_, v in sorted(locs.items(), key=lambda kv: kv[1]["n"]):
            if not writes[d_]:
                continue
            n13 += 1
            ok = reads[d_] > 0
            if not ok:
                chk.analysed(f)
            chk.ob("R7.13", "%s: the decoded local `%s` is used to rebuild the object" % (f.name, v["n"]), f.loc(v), ok,
                   detail=None if ok else "`%s` receives values read from the file and is never read: the rebuilt object ignores that field" % v["n"],
                   key="R7.13|%s|%s" % (f.name, v["n"]), nontrivial=not ok)
    chk.floor("R7.13", n13, 10)
    # R7.12: names are compared as the caller asked.  In the name-matching helpers (String.cpp) a parameter `caseSensitive` guards the
    # folding of the case: every toUpper / toLower is executed only when the flag is FALSE (the siblings matchRegexp, matchKeyword,
    # decodeInString agree); folding under the flag itself makes "Temp" and "TEMP" designate the first column whose name matches
    n12 = 0
    for f in sorted(prog.funcs, key=lambda x: (x.file, x.line)):
        if f.body is None:
            continue
        flags = {p_["d"]: p_["n"] for p_ in f.params if "bool" in p_["t"] and "casesensitive" in p_["n"].lower()}
        if not flags:
            continue
        for c in f.calls():
            if (c.get("callee") or "").split("::")[-1] not in ("toUpper", "toLower", "toupper", "tolower"):
                continue
            pol = None
            child = c
            for a in f.ancestors(c):
                if a["k"] == "If" and a["c"][-3] is not None:
                    core, positive = peel_cond(a["c"][-3])
                    if core is not None and core["k"] == "DeclRefExpr" and core.get("d") in flags:
                        in_then = any(y is child or y["i"] == child["i"] for y in walk(a["c"][-2])) if a["c"][-2] is not None else False
                        pol = positive if in_then else (not positive)
                        break
                child = a
            n12 += 1
            ok = pol is False
            chk.analysed(f)
            chk.ob("R7.12", "%s: the case is folded only when `%s` is false" % (f.name, list(flags.values())[0]), f.loc(c), ok,
                   detail=None if ok else ("the folding is executed when the flag is TRUE" if pol else "the folding is not guarded by the flag") +
                   ": with the default (case sensitive) every access by name reaches the first column whose name matches regardless of case",
                   key="R7.12|%s|%s" % (f.name, (c.get("callee") or "").split("::")[-1]))
    chk.floor("R7.12", n12, 4)
    # R7.11: a rank among the active samples never is the sample rank of a Db accessor (c05_skip.compact_counter_rule)
    import c05_skip
    c05_skip.compact_counter_rule(prog, chk, "R7.11", ("src/Db/",), 60)
    # R7.5 no state carried from one call to the next through file-statics of the Db sources
    import c10
    c10.scratch_static_rule(prog, chk, ["src/Db/Db.cpp"], "R7.5", 1)
    c10.hidden_static_rule(prog, chk, "src/Db/DbHelper.cpp", "R7.5h", 1)
    return chk.finish()
