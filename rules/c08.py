"""C08 - saving and reloading an object gives back an equivalent object (DESIGN.md section C08).
 L1  for each class with a _serialize / _deserialize pair the reader consumes exactly the stream the writer produces, for
     every combination of their conditions and loop counts (E4 stream grammar: order, type, line structure, nesting,
     base-class chaining)
 P   the write primitives use 15 significant digits and the NA token, the read primitives map the token back
 N   every concrete class returns a distinct literal from _getNFName()
 S   a reader starts from a clean state: every container member it appends to is emptied / re-assigned first
Values to 15 digits, 'answers queries identically', byte-identical rewrite and the numeric content of the grid exchange
formats are NOT decided."""
import os
import re

import facts
from facts import REPO, Program, extract, show, call_obj, call_args, walk
from e1_paths import CFG
from e4_stream import Builder, Matcher, normalize, shape, describe_list
from report import Check
import c09

APPEND_OPS = {"push_back", "emplace_back", "insert", "addPolyElem", "addFault", "addFamily", "addDir", "addCov", "addDrift", "append"}


def pairs(prog):
    out = []
    for c in sorted(prog.classes):
        w = [f for f in prog.fns(c + "::_serialize") if f.body is not None]
        r = [f for f in prog.fns(c + "::_deserialize") if f.body is not None]
        if w and r:
            out.append((c, w[0], r[0]))
    return out


def rule_L1(prog, chk):
    n = 0
    unresolved = []
    for cls, fw, fr in pairs(prog):
        chk.analysed(fw)
        chk.analysed(fr)
        n += 1
        bw, br = Builder(prog, "W"), Builder(prog, "R")
        W = normalize(bw.build(fw), bw.const_statics(fw), "W")
        R = normalize(br.build(fr), br.const_statics(fr), "R")
        m = Matcher(fw, fr)
        m.wconsts = bw.const_statics(fw)
        ok, bol, msg = m.match(W, R)
        nrec = len([1 for _ in _leaves(W)])
        chk.ob("L1", "%s: _deserialize consumes the stream _serialize produces (%d record items)" % (cls, nrec), fr.loc(), ok,
               detail=None if ok else "writer %s and reader %s disagree: %s" % (fw.loc(), fr.loc(), msg),
               key="L1|%s" % cls)
    chk.floor("L1", n, 36)


def _leaves(items):
    for i in items:
        if i[0] == "IF":
            yield from _leaves(i[2])
            yield from _leaves(i[3])
        elif i[0] == "LOOP":
            yield from _leaves(i[2])
        elif i[0] != "NLW":
            yield i


def rule_P(wprog, chk):
    """precision and NA token in the primitives (instantiated templates of the witness unit)"""
    n = 0
    for f in sorted(wprog.funcs, key=lambda x: x.name):
        if f.cls != "ASerializable" or f.cfg is None:
            continue
        base = re.sub(r"<.*>", "", f.short)
        if base in ("_recordWrite", "_recordWriteVec"):
            n += 1
            chk.analysed(f)
            g = CFG(f)
            outs = [x for x in f.walk() if x["k"] == "OpCall" and x.get("op") == "<<" and
                    any(y["k"] == "DeclRefExpr" and y.get("n") in ("val",) for y in walk(x["c"][1]) if x["c"][1] is not None)]
            prec = lambda x: x["k"] == "MCall" and (x.get("callee") or "").endswith("::precision") and call_args(x) and \
                call_args(x)[0] is not None and call_args(x)[0]["k"] == "Int" and call_args(x)[0]["v"] >= 15
            ok = bool(outs) and all(g.dominated_by(o, prec) for o in outs)
            chk.ob("P", "%s: every value is written with >= 15 significant digits" % f.name, f.loc(), ok,
                   detail=None if ok else "a value is streamed without os.precision(15) before it: the reloaded number differs from the saved one",
                   key="P|%s|precision" % re.sub(r"<.*>", "", f.name) + "|" + f.name.split("<")[-1][:12])
            na = any(x["k"] == "Str" and x.get("v") == "NA" for x in f.walk()) and \
                any(x["k"] == "Call" and (x.get("callee") or "").split("::")[-1].startswith("isNA") for x in f.walk())
            chk.ob("P", "%s: an undefined value is written as the NA token" % f.name, f.loc(), na,
                   key="P|%s|na" % re.sub(r"<.*>", "", f.name) + "|" + f.name.split("<")[-1][:12])
        if base in ("_recordRead", "_recordReadVec", "_recordReadVecInPlace"):
            n += 1
            chk.analysed(f)
            na = any(x["k"] == "Str" and x.get("v") == "NA" for x in f.walk()) and \
                any(x["k"] == "Call" and (x.get("callee") or "").split("::")[-1].startswith("getNA") for x in f.walk())
            chk.ob("P", "%s: the NA token is read back as the undefined value" % f.name, f.loc(), na,
                   key="P|%s|na" % re.sub(r"<.*>", "", f.name) + "|" + f.name.split("<")[-1][:12])
    chk.floor("P", n, 10)


def rule_N(prog, chk):
    names = {}
    for f in prog.funcs:
        if f.short == "_getNFName" and f.body is not None:
            lits = [x.get("v") for x in f.walk() if x["k"] == "Str"]
            if len(lits) == 1:
                names.setdefault(lits[0], []).append(f)
    n = 0
    for lit, fs in sorted(names.items()):
        n += 1
        ok = len({f.cls for f in fs}) == 1
        chk.ob("N", "file type tag \"%s\" designates one class (%s)" % (lit, ", ".join(sorted({f.cls for f in fs}))), fs[0].loc(), ok,
               detail=None if ok else "two classes write the same type tag: a file of one loads as the other", key="N|%s" % lit)
    chk.floor("N", n, 20)


def rule_S(prog, chk):
    """clean start: containers appended by a reader are emptied / re-assigned before the first append"""
    n = 0
    for cls, fw, fr in pairs(prog):
        if fr.cfg is None:
            continue
        g = CFG(fr)
        # appends to this-fields, directly or through an adder method of this
        fields = {}
        for x in fr.walk():
            if x["k"] != "MCall":
                continue
            short = (x.get("callee") or "").split("::")[-1]
            o = call_obj(x)
            if short in APPEND_OPS and o is not None and o["k"] == "MemberExpr" and (not o.get("c") or o["c"][0] is None or o["c"][0]["k"] == "This"):
                fields.setdefault(o["n"], []).append(x)
            elif (o is None or o["k"] == "This") and short.startswith("add") and x.get("cls") in [cls] + prog.bases(cls):
                # which field does the adder push to?
                tg = prog.method_impl(cls, short, len(call_args(x)))
                if tg is not None and tg.body is not None:
                    for y in tg.walk():
                        if y["k"] == "MCall" and (y.get("callee") or "").split("::")[-1] in ("push_back", "emplace_back"):
                            oo = call_obj(y)
                            if oo is not None and oo["k"] == "MemberExpr" and (not oo.get("c") or oo["c"][0] is None or oo["c"][0]["k"] == "This"):
                                fields.setdefault(oo["n"], []).append(x)
        for fld, sites in sorted(fields.items()):
            n += 1
            chk.analysed(fr)

            def resets(x, fld=fld):
                if x["k"] == "MCall":
                    o = call_obj(x)
                    short = (x.get("callee") or "").split("::")[-1]
                    if o is not None and o["k"] == "MemberExpr" and o["n"] == fld and short in ("clear", "resize", "assign"):
                        return True
                    if (o is None or o["k"] == "This") and short in ("_clear", "clear", "_reset", "reset", "_init", "init", "delAllCovas",
                                                                       "delAllDrifts", "_create"):
                        return True
                    # Vario::internalDirectionResize re-dimensions the result arrays only (read in Vario.cpp): it empties nothing else
                    if (o is None or o["k"] == "This") and short == "internalDirectionResize" and fld in ("_sw", "_gg", "_hh", "_utilize"):
                        return True
                    # a member object emptied through its own method (`_varioparam.delAllDirs()`)
                    if o is not None and o["k"] == "MemberExpr" and o["n"] == fld and short.startswith("delAll"):
                        return True
                if x["k"] in ("Assign", "OpCall") and x.get("op") == "=" and x["c"][0] is not None and x["c"][0]["k"] == "MemberExpr" and x["c"][0]["n"] == fld:
                    return True
                return False
            w = None
            for s in sites:
                w = g.reach_without(g.entry_pos(), s, is_barrier=resets)
                if w is not None:
                    break
            chk.ob("S", "%s::_deserialize empties %s before appending what it reads" % (cls, fld), fr.loc(sites[0]), w is None,
                   detail=None if w is None else "the reader appends to %s without clearing it: loading into an object that already holds data "
                   "keeps the old elements in front of the loaded ones" % fld,
                   key="S|%s|%s" % (cls, fld), path=None if w is None else g.describe(w))
    chk.floor("S", n, 3)


def rule_L2(prog, chk):
    """dead reads: a value read from the file into a local must flow somewhere (a member, a setter / constructor argument,
    a returned object); a local that is read and then never used means the saved information is dropped on reload"""
    import e4_stream
    n = 0
    for cls, fw, fr in pairs(prog):
        reads = []
        for c in fr.calls():
            cal = c.get("callee") or ""
            if cal in e4_stream.R_PRIMS:
                a = call_args(c)
                tgt = a[2] if not cal.endswith("_tableRead") else a[3]
                reads.append((c, tgt))
        for c, tgt in reads:
            # only whole lines of values: a vector read and never used is lost data; scalar counts / flags are often
            # redundant with the content (derived by the getters) and are inventoried, not judged
            if (c.get("callee") or "").endswith("::_recordRead"):
                continue
            root = tgt
            while root is not None and root["k"] in ("Index", "OpCall", "Cast", "MCall") and root.get("c"):
                root = root["c"][0]
            if root is None or root["k"] != "DeclRefExpr" or root.get("dk") != "var":
                continue          # read straight into a member (or through an accessor): restored by construction
            d = root["d"]
            # an iterator / pointer into another local buffer: the data lands in that buffer
            for v in fr.walk():
                if v["k"] == "VarDecl" and v.get("d") == d and v.get("c") and v["c"][0] is not None:
                    for y in walk(v["c"][0]):
                        if y["k"] == "MCall" and (y.get("callee") or "").split("::")[-1] in ("begin", "data") and call_obj(y) is not None and \
                                call_obj(y)["k"] == "DeclRefExpr" and call_obj(y).get("dk") == "var":
                            root = call_obj(y)
                            d = root["d"]
            n += 1
            chk.analysed(fr)
            # uses of the local other than as the destination of reads, its own resize/clear, and loop bounds of further reads
            used = False
            for x in fr.walk():
                if x["k"] != "DeclRefExpr" or x.get("d") != d:
                    continue
                p = fr.parent(x)
                # climb through subscripts / casts / arithmetic
                cur = x
                while p is not None and (p["k"] in ("Index", "Cast", "UnOp") or (p["k"] == "OpCall" and p.get("op") in ("[]", "*"))):
                    cur, p = p, fr.parent(p)
                if p is None:
                    continue
                k = p["k"]
                if k in ("BinOp", "Cond", "If", "For", "While", "Do", "Switch", "ForRange") or (k == "OpCall" and p.get("op") in ("+", "-", "/", "<", ">", "==", "!=")):
                    used = True          # enters a computation / a condition / a loop bound
                elif k in ("MCall", "Call", "Construct"):
                    cal = p.get("callee") or ""
                    short = cal.split("::")[-1]
                    if cal in e4_stream.R_PRIMS:
                        a = call_args(p)
                        dest = a[2] if not cal.endswith("_tableRead") else a[3]
                        if any(y is cur for y in walk(dest)):
                            continue                   # destination of a read
                        used = True                    # count of a read: structurally needed
                        continue
                    if k == "MCall" and call_obj(p) is cur and short in ("resize", "clear", "size", "empty", "data", "begin", "end", "reserve", "fill"):
                        pp = fr.parent(p)
                        while pp is not None and pp["k"] in ("Cast",):
                            pp = fr.parent(pp)
                        if short in ("data", "begin") and pp is not None and pp["k"] in ("Call", "MCall", "VarDecl", "Construct"):
                            cal2 = pp.get("callee") or ""
                            if cal2 in e4_stream.R_PRIMS:
                                continue
                            if pp["k"] == "VarDecl":
                                # an iterator / pointer into the buffer, itself only handed to reads
                                continue
                            used = True
                        elif short in ("size", "empty"):
                            used = True
                        continue
                    if short in ("messerr", "message"):
                        continue
                    used = True
                elif k in ("Assign",) or (k == "OpCall" and p.get("op") in ("=", "*=", "+=", "-=")):
                    lhs = p["c"][0]
                    if lhs is not None and any(y is cur for y in walk(lhs)) and not (p["c"][1] is not None and any(y is cur for y in walk(p["c"][1]))):
                        continue                       # being written
                    used = True
                elif k in ("VarDecl", "Return"):
                    used = True
            fkey = "%s|%s" % (cls, root["n"])
            chk.ob("L2", "%s::_deserialize uses the value it reads into `%s`" % (cls, root["n"]), fr.loc(c), used,
                   detail=None if used else "`%s` is read from the file and never used: the information the writer saved there is dropped on "
                   "reload" % root["n"], key="L2|" + fkey)
    chk.floor("L2", n, 15)


def rule_K(prog, chk):
    """K - the reader of the role names inverts the writer.  The writer emits `<keyword><rank+1>` with the keyword of the role's row in
    DEF_LOCATOR; the reader (locatorIdentify) must recognise the COMPLETE keyword.  A reader that accepts the first keyword that is a
    PREFIX of the name (`name.compare(0, strlen(kw), kw) == 0`) inverts the writer only if no keyword of the table is a prefix of
    another one: "facies1" was read back as role "f" (external drift), "gausfac1" as "g" (gradient)."""
    import re
    fs = [f for f in prog.fns("locatorIdentify") if f.body is not None]
    if not fs:
        ptr = os.path.join(REPO, "src/Db/PtrGeos.cpp")
        extra = Program().load_dir(extract([ptr], "C08k-" + chk.tier))
        fs = [f for f in extra.fns("locatorIdentify") if f.body is not None]
        chk.units += [u for u in extra.units if u not in chk.units]
    if not fs:
        raise facts.AnalysisBroken("locatorIdentify not found")
    f = fs[0]
    prefix_cmp = [c for c in f.calls() if (c.get("callee") or "").split("::")[-1] == "compare" and len(call_args(c)) >= 3 and
                  any(y["k"] == "Call" and (y.get("callee") or "") == "strlen" for a_ in call_args(c)[:2] if a_ is not None for y in walk(a_)) or
                  ((c.get("callee") or "").split("::")[-1] in ("compare", "strncmp") and len(call_args(c)) >= 3 and
                   any(show(a_) in ("lng",) for a_ in call_args(c) if a_ is not None))]
    # the table of keywords (data of the same unit)
    src = open(f.file, errors="replace").read()
    m = re.search(r"DEF_LOCATOR\[\]\s*=\s*\{(.*?)\};", src, re.S)
    kws = re.findall(r"\{\s*\"([a-z]+)\"\s*,", m.group(1)) if m else []
    if len(kws) < 20:
        raise facts.AnalysisBroken("table DEF_LOCATOR not found (%d keywords)" % len(kws))
    clashes = sorted((a, b) for a in kws for b in kws if a != b and b.startswith(a))
    chk.analysed(f)
    # accepted idiom: among the keywords that start the name the LONGEST is retained (`if (lng > lngmax && name.compare(0, lng, kw) == 0)
    # { found = i; lngmax = lng; }`)
    longest = False
    for x in f.walk():
        if x["k"] != "If" or x["c"][-3] is None or x["c"][-2] is None:
            continue
        cnd = x["c"][-3]
        if not any(c_["i"] == y["i"] for c_ in prefix_cmp for y in walk(cnd)):
            continue
        for y in walk(cnd):
            if y["k"] == "BinOp" and y.get("op") in (">", ">=") and y["c"][0] is not None and y["c"][1] is not None and \
                    y["c"][0]["k"] == "DeclRefExpr" and y["c"][1]["k"] == "DeclRefExpr":
                big, cur = y["c"][1], y["c"][0]
                if any(z["k"] == "Assign" and z.get("op") == "=" and z["c"][0] is not None and z["c"][0]["k"] == "DeclRefExpr" and z["c"][0].get("d") == big.get("d") and
                       z["c"][1] is not None and any(w_["k"] == "DeclRefExpr" and w_.get("d") == cur.get("d") for w_ in walk(z["c"][1])) for z in walk(x["c"][-2])):
                    longest = True
    ok = not prefix_cmp or not clashes or longest
    chk.extra["role_name_matching"] = "complete keyword" if not prefix_cmp else ("longest keyword that starts the name" if longest else "first keyword that starts the name")
    chk.ob("K", "locatorIdentify recognises the complete keyword of a role name (%d keywords)" % len(kws), f.loc(prefix_cmp[0]) if prefix_cmp else f.loc(), ok,
           detail=None if ok else "the reader accepts the first keyword that is a prefix of the name, and %s: after a save / reload the role %s becomes %s" % (
               ", ".join("`%s` is a prefix of `%s`" % c_ for c_ in clashes), clashes[0][1].upper(), clashes[0][0].upper()),
           key="K|locatorIdentify")
    chk.extra["role_keywords"] = kws
    chk.extra["keyword_prefix_clashes"] = ["%s<%s" % c_ for c_ in clashes]


def rule_M(prog, chk):
    """M - a record is read into the member it was written from.  Writer and reader name their records (`_recordWrite(os, "Z-Maximum",
    _zmax)` / `_recordRead(is, "Z-Maximum", _zmax)`): when the same title designates a plain member on both sides it is the SAME member
    (the lower limit written under the title of the upper one comes back as [zmin, zmin])."""
    def strip(e):
        while e is not None and e["k"] in ("Cast", "Paren") and e.get("c"):
            e = e["c"][0]
        return e

    def member(e):
        e = strip(e)
        if e is not None and e["k"] == "MemberExpr" and e.get("mk") == "field" and (not e.get("c") or e["c"][0] is None or e["c"][0]["k"] == "This"):
            return e["n"]
        return None

    def records(f, prim):
        out = {}
        for x in f.walk():
            if x["k"] in ("Call", "MCall") and (x.get("callee") or "").split("::")[-1].split("<")[0] == prim:
                a = call_args(x)
                if len(a) >= 3 and a[1] is not None and a[2] is not None:
                    lits = [z for z in walk(a[1]) if z["k"] in ("Str", "String", "StringLiteral")]
                    title = show(lits[0]) if len(lits) == 1 else ""
                    if title.startswith('"'):
                        out.setdefault(title, []).append((member(a[2]), x))
        return out
    n = 0
    for c, w, r in pairs(prog):
        ws, rs = records(w, "_recordWrite"), records(r, "_recordRead")
        for title in sorted(set(ws) & set(rs)):
            if len(ws[title]) != 1 or len(rs[title]) != 1:
                continue
            (mw, xw), (mr, _xr) = ws[title][0], rs[title][0]
            if mw is None or mr is None:
                continue
            n += 1
            ok = mw == mr
            chk.analysed(w)
            chk.ob("M", "%s: record %s is written from and read into the same member" % (c, title), w.loc(xw), ok,
                   detail=None if ok else "the writer stores `%s` under the title %s that the reader loads into `%s`: after a save / reload `%s` "
                   "holds the value of `%s`" % (mw, title, mr, mr, mw), key="M|%s|%s" % (c, title))
    chk.floor("M", n, 15)


RESCALED_BY_CONTRACT = {
    ("Model::_deserialize", "aniso_ranges"): "the writer stores CovAniso::getAnisoCoeffs() = ranges / largest range; the reader multiplies back by the range read just "
                                             "before and hands RANGES to setRanges()",
}


def rule_T(prog, chk):
    """T - a reader hands over what it read.  A local filled by `_recordRead` and then rescaled (`v *= other`) before it reaches the object
    is no longer what the writer took from the object, unless the writer stores the quotient (one confirmed case, listed above): the
    anisotropy coefficients of a moving neighbourhood, multiplied by the radius at reload, gave semi-axes radius^2 * coefficient."""
    def strip(e):
        while e is not None and e["k"] in ("Cast", "Paren") and e.get("c"):
            e = e["c"][0]
        return e
    n = 0
    for c, w, r in pairs(prog):
        read = {}
        for x in r.walk():
            if x["k"] in ("Call", "MCall") and (x.get("callee") or "").split("::")[-1].split("<")[0] in ("_recordRead", "_recordReadVec", "_recordReadVecInPlace"):
                for a in call_args(x)[2:]:
                    for z in walk(a) if a is not None else []:
                        if z["k"] == "DeclRefExpr" and z.get("dk") == "var":
                            read[z["d"]] = z["n"]
        for d, name in sorted(read.items(), key=lambda kv: kv[1]):
            n += 1
            resc = [x for x in r.walk() if x["k"] in ("CompoundAssign", "Assign") and x.get("op") in ("*=", "/=", "+=", "-=") and
                    any(z["k"] == "DeclRefExpr" and z.get("d") == d for z in walk(x["c"][0]))]
            reason = RESCALED_BY_CONTRACT.get((r.name, name))
            ok = not resc or reason is not None
            if resc:
                chk.analysed(r)
            chk.ob("T", "%s: `%s` reaches the object as it was read" % (r.name, name), r.loc(resc[0]) if resc else r.loc(), ok,
                   detail=None if ok else "`%s` rescales the value read while %s writes the value of the object as it is: the reloaded object differs from "
                   "the one saved" % (show(resc[0]), w.name), key="T|%s|%s" % (r.name, name), nontrivial=bool(resc))
    chk.floor("T", n, 100)


def rule_X(prog, chk):
    """X - a matrix comes back in the orientation it was written in.  Inside two nested loops (outer o, inner i) the records of a matrix are
    addressed either in running order (a counter incremented once per record, or `o * n + i`) or transposed (`i * n + o`).  Writer and reader
    of a class must use the same orientation for the records of a doubly nested loop: the rotation matrix of a moving neighbourhood read
    with `[jdim * ndim + idim]` comes back as the inverse rotation."""
    def strip(e):
        while e is not None and e["k"] in ("Cast", "Paren") and e.get("c"):
            e = e["c"][0]
        return e

    def loopvar(L):
        for z in walk(L["c"][0]) if L["c"][0] is not None else []:
            if z["k"] == "VarDecl":
                return z["d"]
        c = strip(L["c"][1]) if L["c"][1] is not None else None
        for z in walk(c) if c is not None else []:
            if z["k"] == "BinOp" and z.get("op") in ("<", "<=") and strip(z["c"][0]) is not None and strip(z["c"][0])["k"] == "DeclRefExpr":
                return strip(z["c"][0])["d"]
        return None

    def orient(idx, do, di):
        idx = strip(idx)
        if idx is None:
            return None
        if idx["k"] == "UnOp" and idx.get("op") in ("post++", "++"):
            return "running"
        if idx["k"] == "DeclRefExpr":
            return "running" if idx.get("d") not in (do, di) else None
        if idx["k"] == "BinOp" and idx.get("op") == "+":
            a, b = strip(idx["c"][0]), strip(idx["c"][1])
            mul, add = (a, b) if a is not None and a["k"] == "BinOp" and a.get("op") == "*" else (b, a)
            if mul is None or mul["k"] != "BinOp" or mul.get("op") != "*" or add is None or add["k"] != "DeclRefExpr":
                return None
            mv = [strip(z) for z in mul["c"]]
            mvd = [z.get("d") for z in mv if z is not None and z["k"] == "DeclRefExpr"]
            if do in mvd and add.get("d") == di:
                return "running"
            if di in mvd and add.get("d") == do:
                return "transposed"
        return None

    def sites(f, prim):
        out = []
        for Lo in f.walk():
            if Lo["k"] != "For" or len(Lo["c"]) < 4 or Lo["c"][3] is None:
                continue
            do = loopvar(Lo)
            for Li in walk(Lo["c"][3]):
                if Li["k"] != "For" or len(Li["c"]) < 4 or Li["c"][3] is None:
                    continue
                di = loopvar(Li)
                if do is None or di is None or do == di:
                    continue
                for x in walk(Li["c"][3]):
                    if x["k"] in ("Call", "MCall") and (x.get("callee") or "").split("::")[-1].split("<")[0] == prim:
                        a = call_args(x)
                        if len(a) < 3 or a[2] is None:
                            continue
                        v = strip(a[2])
                        idx = None
                        if v["k"] in ("Index", "OpCall") and len(v.get("c") or []) >= 2:
                            idx = v["c"][-1]
                        elif v["k"] in ("MCall", "Call") and len(call_args(v)) == 1:
                            idx = call_args(v)[0]
                        elif v["k"] in ("MCall", "Call") and len(call_args(v)) == 2:
                            # getValue(o, i) / getValue(i, o)
                            p0, p1 = [strip(z) for z in call_args(v)]
                            # (row, column) addressing: comparable with another (row, column) addressing only - how a FLAT vector maps to rows and
                            # columns is a convention of the class that receives it (Model stores its rotation by column on purpose)
                            if p0 is not None and p1 is not None and p0["k"] == p1["k"] == "DeclRefExpr":
                                o_ = "rc-running" if (p0.get("d"), p1.get("d")) == (do, di) else "rc-transposed" if (p0.get("d"), p1.get("d")) == (di, do) else None
                                if o_:
                                    out.append((o_, x))
                            continue
                        o_ = orient(idx, do, di)
                        if o_:
                            out.append((o_, x))
        return out
    n = 0
    for c, w, r in pairs(prog):
        ws, rs = sites(w, "_recordWrite"), sites(r, "_recordRead")
        if not ws or not rs:
            continue
        for k, (orr, xr) in enumerate(rs):
            if k >= len(ws):
                break
            oww = ws[k][0]
            if oww.startswith("rc-") != orr.startswith("rc-"):
                continue
            n += 1
            ok = oww == orr
            chk.analysed(r)
            chk.ob("X", "%s: the records of the doubly nested loop #%d are read in the orientation they were written in" % (c, k + 1), r.loc(xr), ok,
                   detail=None if ok else "the writer addresses the matrix in %s order, the reader in %s order: the reloaded matrix is the transpose of "
                   "the one saved" % (oww, orr), key="X|%s|%d" % (c, k + 1))
    chk.floor("X", n, 1)



def rule_Y(prog, chk):
    """Y - a value the reader took from the file is not replaced by a default.  When a reader has filled a local `angles` and calls a function
    one of whose parameters is named `angles`, that parameter receives an argument: left to its default (`gridDefine(nx, dx, x0)`), the rotation
    read from the file is dropped and the grid comes back unrotated."""
    n = 0
    for c, w, r in pairs(prog):
        names = {}
        for x in r.walk():
            if x["k"] in ("Call", "MCall") and (x.get("callee") or "").split("::")[-1].split("<")[0] in ("_recordRead", "_recordReadVec", "_recordReadVecInPlace", "_tableRead"):
                for a in call_args(x)[2:]:
                    for z in walk(a) if a is not None else []:
                        if z["k"] == "DeclRefExpr" and z.get("dk") == "var":
                            names.setdefault(z["n"], (z["d"], x.get("l", 0)))
        if not names:
            continue
        for cl in r.calls():
            cal = [g for g in prog.fns(cl.get("callee") or "") if len(g.params) == len(call_args(cl))]
            if not cal:
                continue
            for k, a in enumerate(call_args(cl)):
                pn = cal[0].params[k]["n"]
                # only a call that FOLLOWS the read can hand the value over (a context built before the records are read takes
                # its defaults legitimately: Model::_deserialize sets the means later, one by one)
                if pn not in names or cl.get("l", 0) <= names[pn][1]:
                    continue
                n += 1
                ok = not (a is not None and a["k"] == "DefaultArg")
                chk.analysed(r)
                chk.ob("Y", "%s::_deserialize: `%s` receives the `%s` read from the file" % (c, (cl.get("callee") or "?"), pn), r.loc(cl), ok,
                       detail=None if ok else "the reader filled `%s` from the file but calls `%s` without it: the parameter keeps its default and the value of "
                       "the file is lost" % (pn, show(cl)[:50]), key="Y|%s|%s|%s" % (c, cl.get("callee"), pn))
    chk.floor("Y", n, 25)


def rule_B(prog, chk):
    """B - sibling builders establish the same state.  The methods `buildFromX` / `resetFromX` / `initFromX` of one class are alternative
    ways of putting the object in its built state (a reader picks the one that matches what the file holds): a state member that all
    the siblings but one set (a `_defined` flag, a count) is forgotten by that one - the object rebuilt through it answers as if it had
    not been built (a reloaded masked meshing reports the counts of the complete grid)."""
    import c08_order
    eff = c08_order.Effects(prog)
    n = 0
    for K in sorted(prog.classes):
        meths = [f for f in prog.funcs if f.cls == K and f.body is not None and f.kind == "method"]
        by = {}
        for f in meths:
            m = re.match(r"(buildFrom|resetFrom|initFrom)", f.short)
            if m:
                by.setdefault(m.group(1), []).append(f)
        for pre, fs in sorted(by.items()):
            if len({f.short for f in fs}) < 3:
                continue
            whole = {f.usr for f in fs if any(x["k"] in ("Assign", "OpCall") and x.get("op") == "=" and x["c"][0] is not None and
                                              x["c"][0]["k"] == "UnOp" and x["c"][0].get("op") == "*" and x["c"][0]["c"][0] is not None and x["c"][0]["c"][0]["k"] == "This"
                                              for x in f.walk())}
            W = {f.usr: {a for a in eff.rw(f)[1] if a.startswith(K + "::")} for f in fs}
            allw = set().union(*W.values())
            for a in sorted(allw):
                writers = [f for f in fs if a in W[f.usr] or f.usr in whole]
                missing = [f for f in fs if f not in writers]
                if len(writers) < 2:
                    continue
                n += 1
                bad = len(missing) == 1
                if bad:
                    chk.analysed(missing[0])
                chk.ob("B", "%s: every `%s*` builder sets %s" % (K, pre, a.split("::")[-1]), (missing[0] if bad else fs[0]).loc(), not bad,
                       detail=None if not bad else "%s set it, %s does not: an object built through %s keeps the value of its previous / default state" % (
                           ", ".join(sorted({f.short for f in writers})), missing[0].short, missing[0].short),
                       key="B|%s|%s|%s" % (K, pre, a.split("::")[-1]), nontrivial=bad)
    chk.floor("B", n, 6)


def rule_D(prog, chk):
    """D - no status of the stream is dropped.  In the `_serialize` / `_deserialize` functions the idiom is `ret = ret && step(..)`; a
    statement `ret && step(..);` evaluates the step and throws its status away: a failure while writing / reading that part is reported
    as a success.
    V - a reader sizes a member vector before it writes its elements (`_imageRadius[idim] = ..` into the empty vector of a freshly
    constructed object crashed every reload of a NeighImage).
    W - a writer that could not open its file does not report success: in the functions that call `_fileOpenWrite`, the status they
    return is not `true` on the path where the open failed."""
    n = nv = nw = 0
    for f in sorted(prog.funcs, key=lambda x: (x.file, x.line)):
        if f.body is None:
            continue
        if f.short in ("_serialize", "_deserialize"):
            for x in f.walk():
                if x["k"] == "BinOp" and x.get("op") in ("&&", "||"):
                    par = f.parent(x)
                    is_stmt = par is not None and (par["k"] == "Block" or (par["k"] in ("For", "While", "ForRange", "Do", "If") and par["c"][-1] is x and par["k"] != "If") or
                                                   (par["k"] == "If" and (par["c"][-2] is x or par["c"][-1] is x)))
                    if is_stmt:
                        n += 1
                        chk.analysed(f)
                        chk.ob("D", "%s: the status of `%s` is kept" % (f.name, show(x)[:50]), f.loc(x), False,
                               detail="the expression is evaluated as a statement: the status of its right-hand step is thrown away (the idiom is `ret = ret && ..`)",
                               key="D|%s|%s" % (f.name, show(x)[:50]))
                if x["k"] == "Assign" and x.get("op") == "=" and x["c"][1] is not None and x["c"][1]["k"] == "BinOp" and x["c"][1].get("op") == "&&":
                    n += 1
                    chk.ob("D", "%s: the status of `%s` is kept" % (f.name, show(x["c"][1])[:50]), f.loc(x), True, key="D|%s|%s|ok%d" % (f.name, show(x["c"][1])[:30], n))
        if f.short == "_deserialize" and f.cfg is not None:
            sized = {}
            writes = []
            for x in f.walk():
                if x["k"] == "MCall" and (x.get("callee") or "").split("::")[-1] in ("resize", "assign", "push_back"):
                    o = call_obj(x)
                    if o is not None and o["k"] == "MemberExpr" and o.get("mk") == "field":
                        sized.setdefault(o["n"], x)
                if x["k"] in ("Assign", "OpCall") and x.get("op") == "=" and x["c"][0] is not None:
                    l = x["c"][0]
                    if l["k"] == "MemberExpr" and l.get("mk") == "field":
                        sized.setdefault(l["n"], x)
                    if (l["k"] == "Index" or (l["k"] == "OpCall" and l.get("op") == "[]")) and l["c"][0] is not None and l["c"][0]["k"] == "MemberExpr" and \
                            l["c"][0].get("mk") == "field" and "Vector" in (l["c"][0].get("t") or ""):
                        writes.append((l["c"][0]["n"], x))
            for m_, x in writes:
                nv += 1
                ok = m_ in sized and (sized[m_].get("l") or 0) <= (x.get("l") or 0)
                chk.analysed(f)
                chk.ob("V", "%s: `%s` is sized before its elements are written" % (f.name, m_), f.loc(x), ok,
                       detail=None if ok else "the reader writes `%s[..]` and never sizes the vector: on a freshly constructed object (what createFromNF uses) the write is "
                       "outside the vector" % m_, key="V|%s|%s" % (f.name, m_))
        opens = [c for c in f.calls() if (c.get("callee") or "").split("::")[-1] == "_fileOpenWrite"]
        if opens and f.ret.startswith("bool"):
            rets = [r for r in f.walk() if r["k"] == "Return" and r.get("c") and r["c"][0] is not None]
            for r in rets:
                v = r["c"][0]
                while v is not None and v["k"] == "Cast":
                    v = v["c"][0]
                if v is None or v["k"] != "DeclRefExpr":
                    continue
                init = None
                for x in f.walk():
                    if x["k"] == "VarDecl" and x.get("d") == v.get("d") and x.get("c") and x["c"][0] is not None:
                        init = x["c"][0]
                nw += 1
                # guarded by `if (open)` without else: the initial value is what a failed open returns
                starts_true = init is not None and init["k"] == "Bool" and init["v"] is True
                guarded = any(x["k"] == "If" and x["c"][-1] is None and any(y["i"] == opens[0]["i"] for y in walk(x["c"][-3])) for x in f.walk())
                bad = starts_true and guarded
                chk.analysed(f)
                chk.ob("W", "%s: a failed open is not reported as a success" % f.name, f.loc(r), not bad,
                       detail=None if not bad else "`%s` starts as true and is only assigned when the file could be opened: when _fileOpenWrite fails the function returns true" % v["n"],
                       key="W|%s" % f.name)
    chk.floor("D", n, 100)
    chk.floor("V", nv, 1)
    chk.floor("W", nw, 1)


def main(tier):
    chk = Check("C08", tier,
                "Static writer/reader agreement of the neutral-file stream of each serialisable class (structural simulation of the "
                "two record grammars: order, type, line structure, conditions, repetitions, base-class and nested streams), 15-digit "
                "precision and NA token in the primitives, distinct type tags, clean start of the readers. Necessary conditions of "
                "'reload gives back an equivalent object'; equality of values, identical query answers and byte-identical rewrite are NOT decided.")
    units = [os.path.join(REPO, u) for u in c09.DESER_UNITS + ["src/Basic/ASerializable.cpp"]]
    if tier == "thorough":
        units = facts.all_units()
    d = extract(units, "C08-" + tier)
    prog = Program().load_dir(d)
    dw = extract([os.path.join(facts.WITNESS, "templates_inst.cpp")], "C08w-" + tier, headers=True)
    wprog = Program().load_dir(dw)
    dh, excluded = facts.extract_headers("C08h-" + tier)
    prog.load_dir(dh)
    chk.units = list(prog.units) + list(wprog.units)
    rule_L1(prog, chk)
    rule_P(wprog, chk)
    rule_N(prog, chk)
    rule_S(prog, chk)
    rule_L2(prog, chk)
    # O: order of the setters applied to the member objects a reader rebuilds (needs the classes of those objects)
    import c08_order
    if tier == "thorough":
        oprog = prog
    else:
        cov = os.path.join(REPO, "src/Covariances")
        extra = [os.path.join(cov, x) for x in sorted(os.listdir(cov)) if x.endswith(".cpp") and (x.startswith("Cov") or x in ("ACovFunc.cpp", "ACov.cpp", "ACovAnisoList.cpp"))]
        extra += [os.path.join(REPO, u) for u in ("src/Basic/Tensor.cpp", "src/Basic/Rotation.cpp", "src/Space/SpaceTarget.cpp", "src/Geometry/BiTargetCheckDistance.cpp", "src/Basic/Indirection.cpp")
                  if os.path.exists(os.path.join(REPO, u))]
        extra = [u for u in extra if u not in units]
        oprog = Program().load_dir(extract(extra, "C08o-" + tier))
        oprog.load_dir(d)
        oprog.load_dir(dh)
        chk.units += [u for u in oprog.units if u not in chk.units]
    c08_order.rule_O(oprog, chk, 2)
    rule_K(prog, chk)
    rule_M(prog, chk)
    rule_T(prog, chk)
    rule_X(prog, chk)
    rule_Y(prog, chk)
    rule_B(oprog, chk)
    rule_D(prog, chk)
    return chk.finish()


