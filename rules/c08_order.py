"""C08 / O - order of the setters applied by a reader to an object it builds.  A reader that rebuilds a member object
through its public setters gives back the saved object only if no setter computes something from a piece of state
that a LATER setter replaces: `cova.setRanges(r)` converts the practical range with the scale factor of the structure,
which depends on its third parameter; `cova.setParam(p)` afterwards changes the parameter and leaves the converted
range behind (the reloaded range is rescaled).

For every local object X of a reader on which several mutating member functions are called, and every pair
(A before B on some path): R(A) = members read by A, W(A) / W(B) = members written, all transitively through calls on
`this`, on member objects and through member pointers (virtual calls: every overrider).  A pair is reported when
B writes a member that A read AND A stored something (W(A) not empty) AND B touches none of A's outputs (so B cannot
have redone A's computation; setters that share a derived output - radius and rotation of a tensor - recompute it)."""
from e1_paths import CFG
from facts import call_args, call_obj, show, walk, CALL_KINDS


def _field_ref(n):
    """(declaring-class-agnostic) name of a member of `this` referenced by n, with the object path stripped"""
    while n is not None and n["k"] == "Cast":
        n = n["c"][0]
    if n is not None and n["k"] == "MemberExpr" and n.get("mk") == "field":
        b = (n.get("c") or [None])[0]
        if b is None or b["k"] == "This":
            return n["n"]
    return None


class Effects:
    def __init__(self, prog):
        self.prog = prog
        self.memo = {}

    def impls(self, callee, virt):
        out = [g for g in self.prog.fns(callee) if g.body is not None]
        if virt and "::" in callee:
            cls, short = callee.rsplit("::", 1)
            for d in self.prog.derived(cls):
                out += [g for g in self.prog.fns(d + "::" + short) if g.body is not None]
        return out

    def rw(self, f, depth=0, stack=()):
        """(reads, writes): sets of 'Class::member' atoms of the object f runs on and of what it reaches through members"""
        if f.usr in self.memo:
            return self.memo[f.usr]
        if depth > 6 or f.usr in stack:
            return set(), set()
        R, W = set(), set()
        cls = f.cls or "?"
        written_nodes = set()
        for x in f.walk():
            k = x["k"]
            if k in ("Assign",) or (k == "OpCall" and (x.get("op") or "").endswith("=") and x.get("op") not in ("==", "!=", "<=", ">=")):
                l = (x.get("c") or [None])[0]
                base = l
                while base is not None and (base["k"] in ("Index", "Cast") or (base["k"] == "OpCall" and base.get("op") in ("[]", "*"))):
                    base = base["c"][0]
                fl = _field_ref(base)
                if fl:
                    W.add(cls + "::" + fl)
                    written_nodes.add(base["i"])
        for x in f.walk():
            k = x["k"]
            if k == "MemberExpr" and x.get("mk") == "field" and x["i"] not in written_nodes:
                fl = _field_ref(x)
                if fl:
                    R.add(cls + "::" + fl)
            if k == "MCall" and x.get("callee"):
                o = call_obj(x)
                fl = _field_ref(o)
                on_this = o is None or o["k"] == "This"
                via_ptr = fl is not None
                if not on_this and not via_ptr:
                    continue
                targets = self.impls(x["callee"], bool(x.get("virt")))
                if targets:
                    for g in targets:
                        r, w = self.rw(g, depth + 1, stack + (f.usr,))
                        R |= r
                        W |= w
                elif via_ptr:
                    # method of a member object whose body is not analysed: const -> read of the member, else write
                    (R if x.get("cconst") else W).add(cls + "::" + fl)
                if via_ptr and targets and not x.get("cconst"):
                    pass
        self.memo[f.usr] = (R, W)
        return R, W


def rule_O(prog, chk, floor_n, select=None, rule="O"):
    eff = Effects(prog)
    n = 0
    for f in sorted(prog.funcs, key=lambda x: (x.file, x.line)):
        if f.cfg is None or not (select(f) if select else f.short == "_deserialize"):
            continue
        # local objects and the mutating calls made on them, in source order
        calls = {}
        for c in f.calls():
            if c["k"] != "MCall" or c.get("cconst") or not c.get("callee"):
                continue
            o = call_obj(c)
            if o is None or o["k"] != "DeclRefExpr" or o.get("dk") != "var":
                continue
            t = (o.get("t") or "")
            if "Vector" in t or "std::" in t or "String" in t or "stream" in t:
                continue
            calls.setdefault((o["d"], o["n"]), []).append(c)
        g = None
        for (d, name), cs in sorted(calls.items(), key=lambda kv: kv[0][1]):
            if len(cs) < 2:
                continue
            infos = []
            for c in cs:
                impls = eff.impls(c["callee"], bool(c.get("virt")))
                if not impls:
                    infos.append(None)
                    continue
                R, W = set(), set()
                for im in impls:
                    r, w = eff.rw(im)
                    R |= r
                    W |= w
                infos.append((R, W))
            if g is None:
                g = CFG(f)
            for i, a in enumerate(cs):
                for j, b in enumerate(cs):
                    if i == j or infos[i] is None or infos[j] is None or a["callee"] == b["callee"]:
                        continue
                    # b reachable after a ?
                    if g.pos_of(a) is None or g.pos_of(b) is None:
                        continue
                    # ... on the SAME object: the path must not pass the declaration of X again (a fresh object per iteration)
                    redecl = lambda y, d=d: (y["k"] == "VarDecl" and y.get("d") == d) or (y["k"] == "DeclStmt" and any(v is not None and v.get("d") == d for v in (y.get("c") or [])))
                    if g.search(g.after(a), is_target=lambda y, b=b: y["i"] == b["i"], is_barrier=redecl) is None:
                        continue
                    Ra, Wa = infos[i]
                    Rb, Wb = infos[j]
                    n += 1
                    chk.analysed(f)
                    stale = sorted((Ra & Wb) - Wa)
                    # B touching none of A's outputs certainly does not redo A's computation; when the outputs overlap (two
                    # setters feeding one derived member, e.g. radius and rotation of a tensor) B is taken to recompute it
                    bad = bool(stale) and bool(Wa) and not (Wa & Wb)
                    sa, sb = a["callee"].split("::")[-1], b["callee"].split("::")[-1]
                    chk.ob(rule, "%s: `%s.%s` does not compute from a member that the later `%s.%s` replaces" % (f.name, name, sa, name, sb),
                           f.loc(b), not bad,
                           detail=None if not bad else "%s reads %s and stores a value derived from it (%s); %s, applied afterwards, changes %s without redoing "
                           "that computation: the rebuilt object differs from the one that was saved (the writer stored the final values)" % (
                               sa, ", ".join(stale), ", ".join(sorted(Wa - Wb))[:80], sb, ", ".join(stale)),
                           key="%s|%s|%s.%s<%s" % (rule, f.name, name, sa, sb), nontrivial=bool(Ra & Wb) or bool(Rb & Wa))
    chk.floor(rule, n, floor_n)
