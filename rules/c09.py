"""C09 - loaders fail cleanly on malformed files (DESIGN.md section C09).  Necessary conditions only:
 R9.1  buffered stores of the reading primitives are dominated by a *strict* index guard; `x[strlen(x)-1]` stores by a
       non-emptiness test
 R9.2  a count read from the file reaches an allocation size / container subscript / loop bound only after a sanitising
       comparison
 R9.3  `%s` conversions of the token readers never target a fixed buffer shorter than the tokenizer's line buffer
 R9.4  error branches of bool readers report failure
 R9.5  no status of a reading primitive / nested reader is dropped
 R9.10 process-wide state of the token reader: pending line erased at open, default delimiters restored on every exit
 R9.9  a table reader compares the size of the data with rows x columns before it reports success (c09_arrays.py)
 R9.8  counted appends leave the loop with `>=` on the announced count (c09_arrays.py)
 R9.7  fixed-size local arrays indexed under a file-derived bound are guarded on every path (c09_arrays.py)
"""
import os
import re

import facts
from facts import REPO, Program, extract, show, call_obj, call_args, walk, is_call, CALL_KINDS
from e1_paths import CFG, peel_cond, single_def
from report import Check
import retconv

DESER_UNITS = """src/Db/DbMeshStandard.cpp src/Db/DbGraphO.cpp src/Db/DbGrid.cpp src/Db/DbMeshTurbo.cpp src/Db/DbLine.cpp src/Db/Db.cpp
src/Fractures/FracFamily.cpp src/Fractures/FracEnviron.cpp src/Fractures/FracFault.cpp src/Mesh/MeshETurbo.cpp
src/Mesh/MeshEStandard.cpp src/Mesh/MeshSpherical.cpp src/Mesh/AMesh.cpp src/Basic/PolyLine2D.cpp src/LithoRule/Rule.cpp
src/LithoRule/RuleShift.cpp src/LithoRule/RuleShadow.cpp src/Anamorphosis/AnamDiscrete.cpp src/Anamorphosis/AnamDiscreteIR.cpp
src/Anamorphosis/AnamHermite.cpp src/Anamorphosis/AnamDiscreteDD.cpp src/Anamorphosis/AnamContinuous.cpp
src/Anamorphosis/AnamUser.cpp src/Anamorphosis/AnamEmpirical.cpp src/Model/Model.cpp src/Faults/Faults.cpp
src/Neigh/NeighBench.cpp src/Neigh/NeighUnique.cpp src/Neigh/NeighMoving.cpp src/Neigh/NeighCell.cpp src/Neigh/ANeigh.cpp
src/Neigh/NeighImage.cpp src/Polygon/Polygons.cpp src/Polygon/PolyElem.cpp src/Variogram/Vario.cpp src/Matrix/Table.cpp""".split()
OTHER_UNITS = """src/Basic/ASerializable.cpp src/Basic/File.cpp src/Core/io.cpp src/Core/ascii.cpp src/Core/convert.cpp src/Core/db.cpp
src/Db/PtrGeos.cpp src/OutputFormat/AOF.cpp src/OutputFormat/FileLAS.cpp src/OutputFormat/FileVTK.cpp src/OutputFormat/GridArcGis.cpp
src/OutputFormat/GridBmp.cpp src/OutputFormat/GridEclipse.cpp src/OutputFormat/GridF2G.cpp src/OutputFormat/GridIfpEn.cpp
src/OutputFormat/GridIrap.cpp src/OutputFormat/GridXYZ.cpp src/OutputFormat/GridZycor.cpp src/Core/variopgs.cpp""".split()

READ_PRIMS = ("ASerializable::_recordRead", "ASerializable::_recordReadVec", "ASerializable::_recordReadVecInPlace",
              "ASerializable::_tableRead")


def is_reader_call(n):
    cal = n.get("callee") or ""
    if cal.startswith(READ_PRIMS):
        return True
    return cal.endswith("::_deserialize")


# ------------------------------------------------------------------------------------------
def strict_less_edges(g, cvar, bound_ok):
    """edges that imply  counter < bound  (strictly): (`c >= n` false), (`c < n` true), (`n <= c` false), (`n > c` true)"""
    out = set()
    for b in g.blocks.values():
        if len(b["s"]) != 2:
            continue
        c = g.cond(b["b"])
        if c is None:
            continue
        core, pol = peel_cond(c)
        if core is None or core["k"] != "BinOp" or core.get("op") not in ("<", "<=", ">", ">="):
            continue
        l, r = core["c"]
        op = core["op"]

        def isc(x):
            return x is not None and x["k"] == "DeclRefExpr" and x.get("d") == cvar
        if isc(l) and bound_ok(r):
            strict_when = {"<": True, ">=": False}.get(op)
        elif isc(r) and bound_ok(l):
            strict_when = {">": True, "<=": False}.get(op)
        else:
            continue
        if strict_when is None:
            continue
        # edge index on which `core` has truth value strict_when
        k = 0 if (strict_when == pol) else 1
        out.add((b["b"], k))
    return out


def r9_1(wprog, prog, chk):
    n_sites = 0
    for f in sorted(wprog.funcs + prog.funcs, key=lambda x: x.name):
        if f.cfg is None or not (f.cls == "ASerializable" or f.name in ("_file_read", "_file_get_ncol", "_buffer_read")):
            continue
        g = None
        # counters incremented in the function
        incs = {}
        for n in f.walk():
            if n["k"] == "UnOp" and n.get("op") in ("++", "post++"):
                x = n["c"][0]
                if x is not None and x["k"] == "DeclRefExpr" and x.get("dk") == "var" and "int" in (x.get("t") or ""):
                    incs.setdefault(x["d"], []).append(n)
        for n in f.walk():
            store = None
            cvar = None
            if n["k"] in ("Assign", "OpCall") and (n.get("op") == "="):
                lhs = n["c"][0]
                if lhs is None:
                    continue
                idx = None
                if lhs["k"] in ("OpCall", "Index") and (lhs.get("op") in ("[]", None)) and len(lhs.get("c") or []) == 2:
                    idx = lhs["c"][1]
                    for x in walk(idx):
                        if x["k"] == "DeclRefExpr" and x.get("d") in incs:
                            cvar = x["d"]
                    if cvar is not None:
                        store = n
                    # x[strlen(x) - 1] = ...
                    if idx is not None and idx["k"] == "BinOp" and idx.get("op") == "-" and idx["c"][0] is not None and \
                            idx["c"][0]["k"] == "Call" and idx["c"][0].get("callee") == "strlen":
                        n_sites += 1
                        chk.analysed(f)
                        gg = CFG(f)
                        buf = show(idx["c"][0]["c"][0])

                        def nonempty_edge(blk, k, s_, gg=gg, buf=buf):
                            c = gg.cond(blk["b"])
                            if c is None or len(blk["s"]) != 2:
                                return True
                            core, pol = peel_cond(c)
                            txt = show(core)
                            if ("strlen(%s)" % buf) in txt or ("%s[0]" % buf) in txt:
                                return False     # any test of the length / first character is accepted as the guard
                            return True
                        wit = gg.search(gg.entry_pos(), is_target=lambda x, n=n: x["i"] == n["i"], edge_ok=nonempty_edge)
                        chk.ob("R9.1", "%s: store at %s[strlen(%s)-1] is guarded by a non-emptiness test" % (f.name, buf, buf),
                               f.loc(n), wit is None,
                               detail=None if wit is None else "a line that starts with a NUL byte has length 0: the store writes at "
                               "index (size_t)-1, far outside the buffer",
                               key="R9.1|%s|%s[strlen-1]" % (f.name, buf), path=None if wit is None else gg.describe(wit))
                elif (lhs["k"] == "UnOp" and lhs.get("op") == "*") or (lhs["k"] == "OpCall" and lhs.get("op") == "*" and len(lhs.get("c") or []) == 1):
                    # *it = val ; with a counter incremented in the same block
                    pos = None
                    g = g or CFG(f)
                    p = g.pos_of(n)
                    if p is not None:
                        for e in g.blocks[p[0]]["e"]:
                            m = g.nodes.get(e)
                            if m is not None and m["k"] == "UnOp" and m.get("op") in ("++", "post++"):
                                x = m["c"][0]
                                if x is not None and x["k"] == "DeclRefExpr" and x.get("d") in incs:
                                    cvar = x["d"]
                        it = lhs["c"][0]
                        if cvar is not None and it is not None and it["k"] == "DeclRefExpr" and it.get("dk") == "parm":
                            store = n
            if store is None:
                continue
            n_sites += 1
            chk.analysed(f)
            g = g or CFG(f)
            params = {p["d"] for p in f.params}

            def bound_ok(x):
                # any bound expression: the rule decides strictness of the test that dominates the store, not which bound
                return x is not None
            passes = strict_less_edges(g, cvar, bound_ok)
            eo = lambda blk, k, s_: (blk["b"], k) not in passes
            wit = g.search(g.entry_pos(), is_target=lambda x, s=store: x["i"] == s["i"], edge_ok=eo)
            if wit is None:
                for inc in incs[cvar]:
                    # an increment embedded in the store itself (buf[c++] = v) takes effect after the store
                    inside = any(x is inc for x in walk(store))
                    wit = g.search(g.after(store if inside else inc), is_target=lambda x, s=store: x["i"] == s["i"], edge_ok=eo)
                    if wit is not None:
                        break
            cname = [x["n"] for x in walk(f.body) if x["k"] == "DeclRefExpr" and x.get("d") == cvar][0]
            chk.ob("R9.1", "%s: store `%s` is dominated by a strict guard %s < <announced count>" % (f.name, show(store)[:40], cname),
                   f.loc(store), wit is None,
                   detail=None if wit is None else "the store is reachable with %s equal to the announced count (the guard is missing or "
                   "not strict): one value too many is written past the buffer sized from that count" % cname,
                   key="R9.1|%s|%s" % (re.sub(r"<.*>", "", f.name), cname), path=None if wit is None else g.describe(wit))
    chk.floor("R9.1", n_sites, 8)


# ------------------------------------------------------------------------------------------
def r9_3(prog, chk):
    # the tokenizer's line buffer
    fr = prog.fn("_file_read")
    line_size = None
    for c in fr.calls("fgets"):
        a = call_args(c)
        if len(a) > 1 and a[1] is not None and a[1]["k"] == "Int":
            line_size = a[1]["v"]
    if line_size is None:
        raise facts.AnalysisBroken("line buffer size of _file_read (fgets) not found")
    chk.extra["R9.3_tokenizer_line_buffer"] = line_size
    n = 0
    n6 = [0]
    for f in sorted(prog.funcs, key=lambda x: x.name):
        for c in f.calls():
            if not c.get("variadic"):
                continue
            # input conversions only: the scanf family and the repository's token readers built on _file_read
            if not re.search(r"scanf|_record_read|_file_read", (c.get("callee") or ""), re.I):
                continue
            args = call_args(c)
            fi = None
            for i, a in enumerate(args):
                if a is not None and a["k"] == "Str" and "%" in (a.get("v") or ""):
                    fi = i
                    break
            if fi is None:
                continue
            convs = re.findall(r"%(\d*)(l?[dfgsiuxc]|lf|lg)", args[fi]["v"])
            for j, (width, conv) in enumerate(convs):
                if fi + 1 + j >= len(args):
                    continue
                if conv != "s":
                    # R9.6: a numeric input conversion needs the ADDRESS of the destination
                    tgt = args[fi + 1 + j]
                    if tgt is None:
                        continue
                    tt = (tgt.get("t") or tgt.get("rt") or "")
                    is_ptr = (tgt["k"] == "UnOp" and tgt.get("op") == "&") or tt.rstrip().endswith("*") or "[" in tt or \
                        (tgt["k"] == "MCall" and (tgt.get("rt") or "").rstrip().endswith("*"))
                    n6[0] += 1
                    chk.analysed(f)
                    chk.ob("R9.6", "%s: %%%s of %s receives an address (%s)" % (f.name, conv, c.get("callee"), show(tgt)[:30]), f.loc(c), is_ptr,
                           detail=None if is_ptr else "the value `%s` is passed where the conversion stores through a pointer: the reader writes "
                           "through a garbage address on every file" % show(tgt)[:30],
                           key="R9.6|%s|%s" % (f.name, show(tgt)[:30]))
                    continue
                tgt = args[fi + 1 + j]
                if tgt is None or tgt["k"] != "DeclRefExpr":
                    continue
                m = re.match(r"char\s*\[(\d+)\]", tgt.get("t") or "")
                if not m:
                    continue
                size = int(m.group(1))
                n += 1
                chk.analysed(f)
                ok = (width != "" and int(width) < size) or size >= line_size
                chk.ob("R9.3", "%s: %%s of %s into %s[%d] is bounded" % (f.name, (c.get("callee") or "?"), tgt["n"], size),
                       f.loc(c), ok,
                       detail=None if ok else "an unbounded %%s copies a file token (up to %d characters, the tokenizer's line buffer) "
                       "into a %d-byte buffer" % (line_size - 1, size),
                       key="R9.3|%s|%s" % (f.name, tgt["n"]))
    chk.floor("R9.3", n, 20)
    chk.floor("R9.6", n6[0], 35)


# ------------------------------------------------------------------------------------------
def reader_functions(prog, wprog):
    out = []
    for f in prog.funcs + wprog.funcs:
        if f.cfg is None or not f.ret.startswith("bool"):
            continue
        if f.short == "_deserialize" or (f.cls == "ASerializable" and f.short.startswith(("_recordRead", "_tableRead", "_fileOpenRead"))):
            out.append(f)
    return out


def r9_4(prog, wprog, chk):
    n = 0
    for f in sorted(reader_functions(prog, wprog), key=lambda x: x.name):
        chk.analysed(f)
        bad = retconv.success_literal_on_failure(f)
        n += 1
        fkey = re.sub(r"<.*>", "", f.name)
        if not bad:
            chk.ob("R9.4", "%s: no success literal on a failure branch" % f.name, f.loc(), True, key="R9.4|%s|clean" % fkey)
        for r, why in bad:
            chk.ob("R9.4", "%s: failure branch reports failure" % f.name, f.loc(r), False,
                   detail="`%s` in a bool reader means success, but this return %s: the caller goes on with a half-read object" % (show(r), why),
                   key="R9.4|%s|%s" % (fkey, why))
    chk.floor("R9.4", n, 40)


def r9_5(prog, wprog, chk):
    n = 0
    for f in sorted(reader_functions(prog, wprog), key=lambda x: x.name):
        for c in f.calls():
            if not is_reader_call(c):
                continue
            n += 1
            # climb while the value is consumed by an operator
            cur = c
            used = None
            while True:
                p = f.parent(cur)
                if p is None:
                    used = False
                    break
                k = p["k"]
                if k in ("BinOp", "UnOp", "Cond", "Cast") and not (k == "Cast" and (p.get("t") or "") == "void"):
                    cur = p
                    continue
                if k == "Cast":
                    used = False          # (void) call
                    break
                if k in ("Assign", "VarDecl", "Return", "Call", "MCall", "Construct", "OpCall"):
                    used = True
                    break
                if k in ("If", "While", "Do", "For", "Switch"):
                    # used when it is the condition, dropped when it is a body statement
                    conds = {"If": p["c"][:-2], "While": p["c"][:1], "Do": p["c"][1:], "For": p["c"][1:2], "Switch": p["c"][:1]}[k]
                    used = any(x is cur for x in conds)
                    break
                used = False               # Block / Label / ...: expression statement
                break
            chk.analysed(f)
            chk.ob("R9.5", "%s: status of %s is used" % (f.name, show(c)[:60]), f.loc(c), bool(used),
                   detail=None if used else "the value of the read is discarded (expression statement): a failure of this part of the file "
                   "does not reach the status the function returns",
                   key="R9.5|%s|%s" % (f.name, (c.get("callee") or "").split("::")[-1] + ":" + show(call_args(c)[1] if len(call_args(c)) > 1 else None)[:30]))
    chk.floor("R9.5", n, 180)


def main(tier):
    chk = Check("C09", tier,
                "Static necessary conditions of memory safety and clean failure in the loaders: strict index guards before "
                "buffered stores, file-derived counts sanitised before they size or index memory, unbounded %s tokens never aimed "
                "at short fixed buffers, error branches reporting failure, no read status dropped. Does NOT prove absence of all "
                "memory errors, hangs or memory exhaustion, nor the consistency of the returned object.")
    units = [os.path.join(REPO, u) for u in DESER_UNITS + OTHER_UNITS]
    if tier == "thorough":
        units = facts.all_units()
    d = extract(units, "C09-" + tier)
    prog = Program().load_dir(d)
    dw = extract([os.path.join(facts.WITNESS, "templates_inst.cpp")], "C09w-" + tier, headers=True)
    wprog = Program().load_dir(dw)
    chk.units = list(prog.units) + list(wprog.units)
    r9_1(wprog, prog, chk)
    r9_3(prog, chk)
    r9_4(prog, wprog, chk)
    r9_5(prog, wprog, chk)
    import c09_taint
    c09_taint.r9_2(prog, wprog, chk)
    import c09_arrays
    c09_arrays.r9_7(prog, chk)
    c09_arrays.r9_8(prog, chk)
    c09_arrays.r9_9(prog, chk)
    c09_arrays.r9_10(prog, chk)
    import c09_more
    c09_more.r9_11(prog, chk)
    c09_more.r9_12(prog, chk)
    c09_more.r9_13(prog, chk)
    c09_more.r9_14(prog, chk)
    c09_more.r9_15(prog, chk)
    c09_more.r9_16(prog, chk)
    return chk.finish()
