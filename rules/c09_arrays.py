"""R9.7 - fixed-size local arrays of the file readers.  A subscript a[i] of a local `T a[N]` whose index ranges up to a
value that comes from the file (directly, or as the bound of the enclosing counted loop) must be preceded, on EVERY path
from the point the value is read, by a test that bounds the value by N (the branch where it exceeds N leaves the
function).  An index of type `unsigned char` is bounded by its type when N >= 256.  Indexes whose provenance is not a
file value are not judged (reported as 'not inferred')."""
import re

from e1_paths import CFG, peel_cond, single_def
from facts import CALL_KINDS, call_args, show, walk

FILE_PRIMS = {"fgetc", "getc", "fread", "fscanf", "fgets", "sscanf", "_file_read", "_record_read", "_file_get_ncol", "gslFScanf", "gslSScanf"}


def file_readers(prog):
    """functions that (transitively) read from a file"""
    readers = set()
    changed = True
    while changed:
        changed = False
        for f in prog.funcs:
            if f.body is None or f.usr in readers:
                continue
            for c in f.calls():
                cal = c.get("callee") or ""
                if cal.split("::")[-1] in FILE_PRIMS or any(g.usr in readers for g in prog.fns(cal)):
                    readers.add(f.usr)
                    changed = True
                    break
    return readers


def _strip(n):
    while n is not None and n["k"] == "Cast":
        n = n["c"][0]
    return n


def r9_7(prog, chk):
    readers = file_readers(prog)
    rnames = {prog.by_usr[u].name for u in readers}
    n = nk = 0
    for f in sorted(prog.funcs, key=lambda x: (x.file, x.line)):
        if f.cfg is None:
            continue
        arrs = {}
        for x in f.walk():
            if x["k"] == "VarDecl":
                m = re.search(r"\[(\d+)\]$", x.get("t") or "")
                if m:
                    arrs[x["d"]] = (x["n"], int(m.group(1)))
        if not arrs:
            continue
        loopbound = {}
        for loop in f.walk():
            if loop["k"] == "For" and loop["c"][1] is not None:
                c = _strip(loop["c"][1])
                if c["k"] == "BinOp" and c.get("op") in ("<", "<=") and _strip(c["c"][0]) is not None and _strip(c["c"][0])["k"] == "DeclRefExpr":
                    loopbound.setdefault(_strip(c["c"][0])["d"], []).append((c["op"], c["c"][1]))
        g = None

        def file_value(e, depth=0):
            """the call that reads the value of e from the file, or None"""
            e = _strip(e)
            if e is None or depth > 3:
                return None
            if e["k"] in CALL_KINDS and (e.get("callee") or "") in rnames and e["k"] != "OpCall":
                return e
            if e["k"] == "DeclRefExpr" and e.get("dk") == "var":
                d = single_def(f, e["d"])
                if d is not None and d is not e:
                    return file_value(d, depth + 1)
            return None
        ordn = {}
        for x in f.walk():
            if x["k"] != "Index":
                continue
            b, i = _strip(x["c"][0]), _strip(x["c"][1])
            if b is None or b["k"] != "DeclRefExpr" or b.get("d") not in arrs or i is None or i["k"] == "Int":
                continue
            name, N = arrs[b["d"]]
            n += 1
            chk.analysed(f)
            key = "R9.7|%s|%s[%s]" % (f.name, name, show(i)[:20])
            ordn[key] = ordn.get(key, 0) + 1
            key += "#%d" % ordn[key]
            inst = "%s: subscript %s[%s] of the %d-element local array stays inside it" % (f.name, name, show(i)[:25], N)
            # (a) bounded by the type
            if "unsigned char" in (i.get("t") or "") and N >= 256:
                nk += 1
                chk.ob("R9.7", inst + " (index of type unsigned char)", f.loc(x), True, key=key)
                continue
            # (b) the index itself, or the bound of its loop, is a file value
            cands = []      # (variable decl whose value must be <= limit, limit, source call)
            if i["k"] == "DeclRefExpr":
                src = file_value(i)
                if src is not None:
                    cands.append((i, N - 1, src))
                for op, B in loopbound.get(i.get("d"), []):
                    Bs = _strip(B)
                    src = file_value(Bs)
                    if src is not None and Bs["k"] == "DeclRefExpr":
                        cands.append((Bs, N if op == "<" else N - 1, src))
            if not cands:
                chk.ob("R9.7", inst + " (index not derived from a file value: not judged)", f.loc(x), True, key=key, nontrivial=False)
                continue
            nk += 1
            if g is None:
                g = CFG(f)
            bad = None
            for var, limit, src in cands:
                vd = var["d"]

                def passes(blk, k, s_, vd=vd, limit=limit):
                    """False on the edges that establish var <= limit (the search must avoid them)"""
                    c = g.cond(blk["b"])
                    if c is None or len(blk["s"]) != 2:
                        return True
                    core, pol = peel_cond(c)
                    core = _strip(core)
                    if core is None or core["k"] != "BinOp" or core.get("op") not in ("<", "<=", ">", ">="):
                        return True
                    l, r = _strip(core["c"][0]), _strip(core["c"][1])
                    op = core["op"]
                    if l is not None and r is not None and r["k"] == "DeclRefExpr" and r.get("d") == vd and l["k"] == "Int":
                        l, r = r, l
                        op = {"<": ">", "<=": ">=", ">": "<", ">=": "<="}[op]
                    if l is None or r is None or l["k"] != "DeclRefExpr" or l.get("d") != vd or r["k"] != "Int":
                        return True
                    v = r["v"]
                    # truth value of the comparison on this edge
                    truth = (k == 0) == pol
                    if op == ">" and not truth and v <= limit:
                        return False
                    if op == ">=" and not truth and v - 1 <= limit:
                        return False
                    if op == "<" and truth and v - 1 <= limit:
                        return False
                    if op == "<=" and truth and v <= limit:
                        return False
                    return True
                start = g.after(src) if g.pos_of(src) else g.entry_pos()
                if g.pos_of(x) is None:
                    continue
                wit = g.search(start, is_target=lambda y, x=x: y["i"] == x["i"], edge_ok=passes)
                if wit is not None:
                    bad = (var, limit, src, wit)
                    break
            ok = bad is None
            chk.ob("R9.7", inst, f.loc(x), ok,
                   detail=None if ok else "`%s` is read from the file (%s) and reaches this subscript on a path with no test bounding it by %d: "
                   "a crafted file writes / reads beyond the %d-element array" % (bad[0]["n"], show(bad[2])[:30], bad[1], N),
                   key=key, path=None if ok else g.describe(bad[3]))
    chk.extra["R9.7_file_reading_functions"] = len(readers)
    chk.floor("R9.7", n, 30)
    chk.floor("R9.7-judged", nk, 5)


def r9_8(prog, chk):
    """R9.8 - counted appends.  In the readers, a counter incremented right after a value was stored and then compared with
    an announced count to leave the loop (`n++; if (n >= count) break;`) bounds the number of stored values by `count` only
    if the comparison is `>=` (or `==`): with `>` one value more than announced is stored (the table no longer has
    rows x columns values).  `n > count - 1` is the same test and is accepted."""
    n = 0
    for f in sorted(prog.funcs, key=lambda x: (x.file, x.line)):
        if f.body is None:
            continue
        for blk in f.walk():
            if blk["k"] != "Block":
                continue
            ch = blk.get("c") or []
            for i, s in enumerate(ch):
                if s is None or s["k"] != "If" or len(s["c"]) < 2 or s["c"][1] is None:
                    continue
                then = s["c"][1]
                leaves = then["k"] in ("Break", "Return") or (then["k"] == "Block" and len(then.get("c") or []) == 1 and then["c"][0] is not None and then["c"][0]["k"] == "Break")
                if not leaves:
                    continue
                # counters incremented by the statements just before (same block, up to the previous control statement)
                incs = set()
                j = i - 1
                while j >= 0 and ch[j] is not None and ch[j]["k"] in ("UnOp", "If", "Assign"):
                    if ch[j]["k"] == "UnOp" and (ch[j].get("op") or "").replace("post", "") == "++":
                        x = _strip(ch[j]["c"][0])
                        if x is not None and x["k"] == "DeclRefExpr":
                            incs.add(x["d"])
                    j -= 1
                if not incs:
                    continue
                # is something stored before the increment in this block?
                stores = any(y is not None and any(z["k"] == "MCall" and (z.get("callee") or "").split("::")[-1] == "push_back" for z in walk(y))
                             for y in ch[:i])
                if not stores:
                    continue
                # conjuncts of the condition
                conj, work = [], [s["c"][0]]
                while work:
                    c = _strip(work.pop())
                    if c is not None and c["k"] == "BinOp" and c.get("op") == "&&":
                        work += c["c"]
                    elif c is not None:
                        conj.append(c)
                # `count > 0 && n >= count`: the positivity guard and the comparison speak of the same announced count
                positives = {_strip(c["c"][0]).get("d"): _strip(c["c"][0]).get("n") for c in conj
                             if c["k"] == "BinOp" and c.get("op") == ">" and _strip(c["c"][1]) is not None and _strip(c["c"][1])["k"] == "Int" and
                             _strip(c["c"][1])["v"] == 0 and _strip(c["c"][0]) is not None and _strip(c["c"][0])["k"] == "DeclRefExpr"}
                for c in conj:
                    if c["k"] != "BinOp" or c.get("op") not in (">", ">=", "==", "<", "<="):
                        continue
                    l0, r0 = _strip(c["c"][0]), _strip(c["c"][1])
                    if l0 is not None and l0["k"] == "DeclRefExpr" and l0.get("d") in incs and r0 is not None and r0["k"] == "DeclRefExpr" and positives and \
                            r0.get("d") not in positives and l0.get("d") not in positives:
                        n += 1
                        chk.analysed(f)
                        chk.ob("R9.8", "%s: the limit `%s` of the count `%s` is the count whose positivity guards the test" % (f.name, r0["n"], l0["n"]), f.loc(c), False,
                               detail="the test `%s` is made only when `%s > 0`, another count: when `%s` is set and `%s` is not, the stored values are no longer "
                               "limited by the announced count" % (show(c)[:30], list(positives.values())[0], r0["n"], list(positives.values())[0]),
                               key="R9.8|%s|guard of %s vs %s" % (f.name, l0["n"], r0["n"]))
                    l, r = _strip(c["c"][0]), _strip(c["c"][1])
                    if l is None or l["k"] != "DeclRefExpr" or l.get("d") not in incs or r is None or r["k"] == "Int":
                        continue
                    n += 1
                    chk.analysed(f)
                    minus1 = r["k"] == "BinOp" and r.get("op") == "-" and _strip(r["c"][1]) is not None and _strip(r["c"][1])["k"] == "Int" and _strip(r["c"][1])["v"] == 1
                    ok = c["op"] in (">=", "==") or (c["op"] == ">" and minus1)
                    chk.ob("R9.8", "%s: the count `%s` of stored values leaves the loop as soon as it reaches `%s`" % (f.name, l["n"], show(r)[:25]),
                           f.loc(c), ok,
                           detail=None if ok else "`%s` lets one value more than the announced count be stored: the table read from the file no longer "
                           "has rows x columns values (inconsistent object / out-of-range access when it is used)" % show(c)[:40],
                           key="R9.8|%s|%s vs %s" % (f.name, l["n"], show(r)[:20]))
    chk.floor("R9.8", n, 2)


# readers that hand a table back through (data vector, counts) out-parameters: name -> (vector parameter, count variables)
TABLE_READERS = {"csv_table_read": ("tab", ("ncol", "nrow"))}


def r9_9(prog, chk):
    """R9.9 - a reader that returns a table as a vector plus its numbers of rows and columns reports success only after it has
    compared the size of the vector with rows x columns: its callers build objects from the three values without looking again
    (a file cut inside a row otherwise yields an inconsistent table: exception in the Db construction, out-of-range reads)."""
    from e1_paths import CFG
    n = 0
    for name, (vec, counts) in sorted(TABLE_READERS.items()):
        f = prog.fn(name)
        chk.analysed(f)
        g = CFG(f)
        guards = set()
        for b, blk in g.blocks.items():
            if len(blk["s"]) != 2 or blk.get("tc") is None or blk["tc"] < 0:
                continue
            cnd = g.nodes.get(blk["tc"])
            if cnd is None:
                continue
            # the whole condition of the statement this block belongs to
            top = cnd
            for a in f.ancestors(cnd):
                if a["k"] in ("BinOp", "UnOp", "Cast"):
                    top = a
                else:
                    break
            txt_nodes = list(walk(top))
            has_size = any(y["k"] == "MCall" and (y.get("callee") or "").split("::")[-1] == "size" and call_obj_name(y) == vec for y in txt_nodes)
            has_counts = all(any(y["k"] == "DeclRefExpr" and y.get("n") == c for y in txt_nodes) for c in counts)
            if has_size and has_counts:
                guards.add(b)
        n += 1
        ok_ret = lambda x: x["k"] == "Return" and x.get("c") and x["c"][0] is not None and x["c"][0]["k"] == "Int" and x["c"][0]["v"] == 0
        w = g.search(g.entry_pos(), is_target=ok_ret, edge_ok=lambda blk, k, s_: blk["b"] not in guards)
        ok = bool(guards) and w is None
        chk.ob("R9.9", "%s: success is returned only after `%s.size()` was compared with %s" % (name, vec, " x ".join(counts)), f.loc(), ok,
               detail=None if ok else "a path returns success without relating the number of values read to the announced rows and columns: the callers "
               "build their object from an inconsistent table", key="R9.9|%s" % name, path=None if ok or w is None else g.describe(w))
    chk.floor("R9.9", n, 1)


def call_obj_name(y):
    from facts import call_obj
    o = call_obj(y)
    while o is not None and o["k"] == "Cast":
        o = o["c"][0]
    return o.get("n") if o is not None and o["k"] == "DeclRefExpr" else None


def r9_10(prog, chk):
    """R9.10 - process-wide state of the shared token reader (_record_read: pending line, delimiters).
      a) a function that opens a file for reading in a class that parses it with the token reader erases the line left pending by
         the previous read (after a failed read the next valid file would otherwise be parsed from the old line);
      b) a function that installs custom delimiters puts the default ones back on every exit (directly, or through a local guard
         object whose destructor does it)."""
    from e1_paths import CFG
    n = 0
    uses_tokens = {f.cls for f in prog.funcs if f.body is not None and f.cls and any((c.get("callee") or "") in ("_record_read", "_file_read") for c in f.calls())}
    for f in sorted(prog.funcs, key=lambda x: (x.file, x.line)):
        if f.body is None:
            continue
        opens = [c for c in f.calls() if (c.get("callee") or "") == "gslFopen" and len(call_args(c)) >= 2 and
                 call_args(c)[1] is not None and call_args(c)[1].get("k") == "Str" and "r" in str(call_args(c)[1].get("v"))]
        if opens and (f.name == "_file_open" or (f.cls and (f.cls in uses_tokens or any(d in uses_tokens for d in prog.derived(f.cls))))):
            n += 1
            chk.analysed(f)
            ok = any((c.get("callee") or "") == "_erase_current_string" for c in f.calls())
            chk.ob("R9.10", "%s: opening a file for the token reader erases the line left pending by the previous read" % f.name, f.loc(opens[0]), ok,
                   detail=None if ok else "the token reader keeps its current line in process-wide statics: after a read that failed in the middle of a line the "
                   "next (valid) file is parsed starting with the rest of that line and refused", key="R9.10|%s|erase" % f.name)
    DEFAULT = ("#", " ", " ")

    def delim_args(c):
        out = []
        for a in call_args(c):
            while a is not None and a["k"] == "Cast":
                a = a["c"][0]
            out.append(None if a is None else (chr(a["v"]) if a["k"] in ("Char", "Int") and isinstance(a.get("v"), int) else a.get("v")))
        return tuple(out)
    for f in sorted(prog.funcs, key=lambda x: (x.file, x.line)):
        if f.body is None:
            continue
        customs = [c for c in f.calls() if (c.get("callee") or "") == "_file_delimitors" and delim_args(c) != DEFAULT]
        if not customs:
            continue
        n += 1
        chk.analysed(f)
        if f.kind == "ctor":
            dt = [g for g in prog.funcs if g.cls == f.cls and g.kind == "dtor" and g.body is not None]
            ok = any((c.get("callee") or "") == "_file_delimitors" and delim_args(c) == DEFAULT for g in dt for c in g.calls())
            wit = None
        else:
            g = CFG(f)
            wit = g.exit_without(customs[0], lambda y: (y.get("callee") or "") == "_file_delimitors" and y["k"] == "Call" and delim_args(y) == DEFAULT)
            ok = wit is None
        chk.ob("R9.10", "%s: the default delimiters of the token reader are put back on every exit" % f.name, f.loc(customs[0]), ok,
               detail=None if ok else "an exit (a failed read) leaves the custom delimiters installed: the files read afterwards by the other readers are split "
               "with the wrong separators", key="R9.10|%s|delimiters" % f.name, path=None if ok or wit is None else g.describe(wit))
    chk.floor("R9.10", n, 2)
