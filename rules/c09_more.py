"""C09 - further structural rules of clean failure.
 R9.11  a pointer that has been deleted is not handed back or used: no path from `delete p` reaches a read of `p` (return, call argument,
        dereference) before `p` is assigned again.
 R9.12  a container that the class fills through a CHECKED entry point (`addX` appends only when the element is valid) is not appended to
        directly by the readers: a `_deserialize` that pushes into the container bypasses the consistency rule of the API.
 R9.13  a grid data base is dimensioned by its grid: DbGrid::resetDims hands Db::resetDims a sample count that depends on the grid and not
        on the count announced by the caller (the file).
 R9.14  in a reader that returns bool, the branch taken on the FAILURE of a decoding helper does not return true.
 R9.15  the stream opened by a reader is closed on every exit (_fileClose after _fileReadOpen), early failure returns included."""
from e1_paths import CFG, peel_cond
from e2_deps import Deps
from facts import call_args, call_obj, show, walk, CALL_KINDS


def _deleted_non_null(f, g, dl, d):
    """can `delete X` (X = declaration d) release a live object?  Only decided for the idiom `if (flag) delete X;` (flag a plain
    variable): it does when a path leads from a definition of X by something else than the null pointer to the deletion without
    crossing `flag = 0`, a redefinition of X, or the true side of a test `X == nullptr`.  Everything else: yes."""
    from e1_paths import peel_cond
    cur, guard = dl, None
    for _ in range(3):
        cur = f.parent(cur)
        if cur is None:
            break
        if cur["k"] == "If" and cur["c"][-1] is None:
            core, pol = peel_cond(cur["c"][-3])
            if core is not None and core["k"] == "DeclRefExpr" and core.get("dk") == "var" and pol is True:
                guard = core["d"]
            break
        if cur["k"] != "Block":
            break
    if guard is None:
        return True

    def strip(e):
        while e is not None and e["k"] == "Cast" and e.get("c"):
            e = e["c"][0]
        return e

    def is_null(e):
        e = strip(e)
        if e is None:
            return False
        if e["k"] == "Null":
            return True
        if e["k"] == "Assign" and e.get("op") == "=":
            return is_null(e["c"][1])
        return e["k"] in ("Int", "IntLit") and str(e.get("v")) == "0"
    defs_x = lambda y: (y["k"] == "Assign" and y.get("op") == "=" and strip(y["c"][0]) is not None and strip(y["c"][0])["k"] == "DeclRefExpr" and
                        strip(y["c"][0]).get("d") == d) or \
        (y["k"] == "DeclStmt" and any(z is not None and z["k"] == "VarDecl" and z.get("d") == d for z in y.get("c") or []))
    clears = lambda y: y["k"] == "Assign" and y.get("op") == "=" and strip(y["c"][0]) is not None and strip(y["c"][0])["k"] == "DeclRefExpr" and \
        strip(y["c"][0]).get("d") == guard and is_null(y["c"][1])

    def edge_ok(blk, k, s_):
        if len(blk["s"]) != 2:
            return True
        c = g.cond(blk["b"])
        if c is None:
            return True
        core, pol = peel_cond(c)
        if core is not None and core["k"] == "DeclRefExpr" and core.get("d") == d:
            return ((k == 0) == pol) is True        # X is not null on this path
        return True
    if any(p_["d"] == d for p_ in f.params):
        return True
    for y in f.walk():
        if not defs_x(y) or g.pos_of(y) is None:
            continue
        if y["k"] == "Assign" and is_null(y["c"][1]):
            continue
        if y["k"] == "DeclStmt":
            vd = [z for z in y["c"] if z is not None and z["k"] == "VarDecl" and z.get("d") == d][0]
            if not vd.get("c") or vd["c"][0] is None or is_null(vd["c"][0]):
                continue
        w = g.search(g.after(y), is_target=lambda z: z["i"] == dl["i"], is_barrier=lambda z: clears(z) or defs_x(z), edge_ok=edge_ok)
        if w is not None:
            return True
    return False


def r9_11(prog, chk):
    n = 0
    for f in sorted(prog.funcs, key=lambda x: (x.file, x.line)):
        if f.cfg is None:
            continue
        dels = [x for x in f.walk() if x["k"] == "Delete" and x.get("c") and x["c"][0] is not None]
        if not dels:
            continue
        g = None
        for dl in dels:
            p = dl["c"][0]
            while p is not None and p["k"] == "Cast":
                p = p["c"][0]
            if p is None or p["k"] != "DeclRefExpr" or p.get("dk") != "var":
                continue
            d = p["d"]
            if g is None:
                g = CFG(f)
            if g.pos_of(dl) is None:
                continue
            n += 1
            reassigned = lambda y, d=d: (y["k"] == "Assign" and y["c"][0] is not None and y["c"][0]["k"] == "DeclRefExpr" and y["c"][0].get("d") == d) or \
                (y["k"] == "VarDecl" and y.get("d") == d) or \
                (y["k"] == "DeclStmt" and any(z is not None and z["k"] == "VarDecl" and z.get("d") == d for z in y.get("c") or []))
            uses = lambda y, d=d, dl=dl: y["i"] != dl["i"] and y["k"] in ("Return",) + tuple(CALL_KINDS) and y["k"] != "Delete" and any(
                z["k"] == "DeclRefExpr" and z.get("d") == d for z in walk(y)) and not reassigned(y)
            w = g.search(g.after(dl), is_target=uses, is_barrier=reassigned)
            if w is not None and not _deleted_non_null(f, g, dl, d):
                w = None        # `if (error) delete X;` where X is null whenever `error` still holds: nothing is released
            ok = w is None
            if not ok:
                chk.analysed(f)
            chk.ob("R9.11", "%s: `%s` is not used after `delete %s`" % (f.name, p["n"], p["n"]), f.loc(dl), ok,
                   detail=None if ok else "a path from the deletion reaches `%s` (line %s): the caller receives / the code uses released memory" % (
                       show(w["hit"])[:40], f.loc(w["hit"]).split(":")[-1]),
                   key="R9.11|%s|%s" % (f.name, p["n"]), nontrivial=not ok, path=None if ok else g.describe(w))
    chk.floor("R9.11", n, 20)


def r9_12(prog, chk):
    n = 0
    for K in sorted(prog.classes):
        meths = [f for f in prog.funcs if f.cls == K and f.body is not None]
        entry = {}
        for f in meths:
            if not f.short.startswith("add") or f.kind != "method":
                continue
            stmts = f.body["c"] if f.body["k"] == "Block" else [f.body]
            stmts = [s_ for s_ in stmts if s_ is not None]
            if len(stmts) != 1 or stmts[0]["k"] != "If" or stmts[0]["c"][-1] is not None:
                continue
            for y in walk(stmts[0]["c"][-2]):
                if y["k"] == "MCall" and (y.get("callee") or "").split("::")[-1] in ("push_back", "emplace_back"):
                    o = call_obj(y)
                    if o is not None and o["k"] == "MemberExpr" and o.get("mk") == "field":
                        entry[o["n"]] = f
        for member, ep in sorted(entry.items()):
            for f in sorted(meths, key=lambda x: x.line):
                if f is ep or f.kind == "ctor" or f.short.startswith("operator"):
                    continue
                for y in f.walk():
                    if y["k"] == "MCall" and (y.get("callee") or "").split("::")[-1] in ("push_back", "emplace_back", "insert"):
                        o = call_obj(y)
                        if o is not None and o["k"] == "MemberExpr" and o.get("n") == member:
                            n += 1
                            chk.analysed(f)
                            chk.ob("R9.12", "%s: `%s` is filled through %s" % (f.name, member, ep.short), f.loc(y), False,
                                   detail="%s appends to `%s` only when `%s`; this function appends directly: an element the API would refuse (a truncated or degenerate "
                                   "record of a file) enters the object" % (ep.name, member, show(ep.body["c"][0]["c"][-3])[:50]),
                                   key="R9.12|%s|%s" % (f.name, member))
            # positive instances: the callers of the entry point inside the class
            for f in meths:
                for c in f.calls():
                    if c["k"] == "MCall" and c.get("callee") == ep.name:
                        n += 1
                        chk.ob("R9.12", "%s: `%s` is filled through %s" % (f.name, member, ep.short), f.loc(c), True, key="R9.12|%s|%s|ok" % (f.name, member))
    chk.floor("R9.12", n, 1)


def r9_13(prog, chk):
    n = 0
    for f in prog.fns("DbGrid::resetDims"):
        if f.cfg is None:
            continue
        dp = Deps(f).solve()
        for c in f.calls():
            if not (c.get("callee") or "").endswith("Db::resetDims"):
                continue
            a = call_args(c)
            if len(a) < 2 or a[1] is None:
                continue
            deps = dp.deps(a[1], dp.state_before(c))
            n += 1
            ok = any(x.startswith("C:getNTotal") or x == "F:_grid" for x in deps) and not any(x.startswith("P:") for x in deps)
            chk.analysed(f)
            chk.ob("R9.13", "DbGrid::resetDims: the sample count handed to Db::resetDims comes from the grid alone", f.loc(c), ok,
                   detail=None if ok else "the count depends on {%s}: a count announced by the caller (the 'Number of samples' field of a neutral file) can override "
                   "the product of the numbers of nodes, the loaded grid is inconsistent" % ", ".join(sorted(deps)), key="R9.13|DbGrid::resetDims")
    chk.floor("R9.13", n, 1)


def r9_14(prog, chk, helpers=("locatorIdentify",)):
    n = 0
    for f in sorted(prog.funcs, key=lambda x: (x.file, x.line)):
        if f.body is None or not f.ret.startswith("bool") or f.short not in ("_deserialize",):
            continue
        for x in f.walk():
            if x["k"] != "If" or x["c"][-3] is None:
                continue
            cnd = x["c"][-3]
            core = cnd
            while core is not None and core["k"] in ("Cast", "Paren"):
                core = core["c"][0]
            # `helper(..) != 0`  (these helpers return 0 on success)
            if core is None or core["k"] != "BinOp" or core.get("op") != "!=":
                continue
            l = core["c"][0]
            while l is not None and l["k"] == "Cast":
                l = l["c"][0]
            if l is None or l["k"] not in CALL_KINDS or (l.get("callee") or "").split("::")[-1] not in helpers:
                continue
            rets = [y for y in walk(x["c"][-2]) if y["k"] == "Return"] if x["c"][-2] is not None else []
            for r in rets:
                v = r["c"][0] if r.get("c") else None
                while v is not None and v["k"] == "Cast":
                    v = v["c"][0]
                n += 1
                bad = v is not None and v["k"] == "Bool" and v["v"] is True
                chk.analysed(f)
                chk.ob("R9.14", "%s: the failure of %s is not reported as a success" % (f.name, l["callee"].split("::")[-1]), f.loc(r), not bad,
                       detail=None if not bad else "the branch taken when the helper fails returns true: the file is reported as read while the object is left "
                       "incomplete (every column and sample after the refused field is missing)", key="R9.14|%s|%s" % (f.name, l["callee"].split("::")[-1]))
    chk.floor("R9.14", n, 1)


def r9_15(prog, chk):
    n = 0
    # RAII idiom: the class that owns the stream closes it in its destructor (then every exit of every reader is covered)
    raii = set()
    for f in prog.funcs:
        if f.body is not None and f.kind == "dtor" and any((c.get("callee") or "").split("::")[-1] == "_fileClose" for c in f.calls()):
            raii.add(f.cls)
    chk.extra["stream_closed_by_destructor_of"] = sorted(raii)
    for f in sorted(prog.funcs, key=lambda x: (x.file, x.line)):
        if f.cfg is None:
            continue
        opens = [c for c in f.calls() if (c.get("callee") or "").split("::")[-1] == "_fileReadOpen"]
        if not opens:
            continue
        g = CFG(f)
        for op in opens:
            if g.pos_of(op) is None:
                continue
            n += 1
            closes = lambda y: y["k"] in CALL_KINDS and (y.get("callee") or "").split("::")[-1] in ("_fileClose",)
            # the open itself fails on the edge where its status is non-zero: start after the test of the status
            st = g.after(op)
            assume = g.implied_at(op) if hasattr(g, "implied_at") else None

            def eo(blk, k, s_, op=op):
                c = g.cond(blk["b"])
                if c is None or len(blk["s"]) != 2:
                    return True
                core, pol = peel_cond(c)
                # `if (_fileReadOpen()) return ..` : the true edge is the failed open (nothing to close)
                if core is not None and core["i"] == op["i"]:
                    return (k == 0) != pol
                return True
            owner_closes = bool(f.cls) and any(K in raii for K in [f.cls] + prog.bases(f.cls))
            w = None if owner_closes else g.search(st, to_exit=True, is_barrier=closes, edge_ok=eo)
            ok = w is None
            if not ok:
                chk.analysed(f)
            chk.ob("R9.15", "%s: the file opened for reading is closed on every exit" % f.name, f.loc(op), ok,
                   detail=None if ok else "an exit (a refused header, a failed record) leaves without _fileClose(): each refused file leaks a descriptor, after a few "
                   "hundred of them every later open fails", key="R9.15|%s" % f.name, nontrivial=not ok, path=None if ok else g.describe(w))
    chk.floor("R9.15", n, 4)


def r9_16(prog, chk):
    """R9.16 - a reader uses the status of the construction of the object it returns.  `dbgrid->reset(nx, dx, x0, ..)` returns non-zero when
    the grid definition decoded from the file is refused (and has then cleared the object): dropped as an expression statement, the
    reader hands back a half-built grid (node counts without samples)."""
    n = 0
    for f in sorted(prog.funcs, key=lambda x: (x.file, x.line)):
        if f.body is None or "src/OutputFormat/" not in f.file:
            continue
        for c in f.calls():
            if c["k"] != "MCall" or (c.get("callee") or "") not in ("DbGrid::reset", "Db::resetFromSamples", "DbGrid::resetFromVector") or not (c.get("rt") or "int").startswith("int"):
                continue
            # a callee that can only return 0 has no failure to report
            impls = [g_ for g_ in prog.fns(c["callee"]) if g_.body is not None]
            def _zero(r):
                v = (r.get("c") or [None])[0]
                while v is not None and v["k"] == "Cast":
                    v = v["c"][0]
                return v is not None and v["k"] == "Int" and v["v"] == 0
            if impls and all(_zero(r) for g_ in impls for r in g_.walk() if r["k"] == "Return"):
                continue
            par = f.parent(c)
            dropped = par is not None and (par["k"] in ("Block", "For", "While", "ForRange", "Do") or (par["k"] == "If" and par["c"][-3] is not c))
            n += 1
            chk.analysed(f)
            chk.ob("R9.16", "%s: the status of %s is used" % (f.name, c["callee"]), f.loc(c), not dropped,
                   detail=None if not dropped else "the status is dropped: when the definition read from the file is refused the reader still returns the object, "
                   "which holds node counts and no sample (isConsistent() false)", key="R9.16|%s|%s" % (f.name, c["callee"]))
    chk.floor("R9.16", n, 4)
