"""R9.2 - counts read from the file (E3, intraprocedural with field sources).

Sources : the out-argument of every reading primitive called inside a `_deserialize` (scalars), locals/fields assigned
          from expressions over them.
Sinks   : (a) allocation sizes: resize/reserve/assign sizes, size arguments of Vector*/Matrix*/Table constructors, new[]
          (b) subscripts `x[t]` / setters indexed by t that are not bounded by the loop they sit in.
Sanitiser for (a): every path source -> sink crosses an edge implying t >= 0 / t > 0, OR the allocation is *contained*:
          every entry into the `_deserialize` family goes through a try/catch(std::exception) that reports failure
          (std::length_error / std::bad_alloc raised by an absurd count then become a clean read failure).
Sanitiser for (b): an edge implying 0 <= t and t < bound on every path.
"""
import re

from e1_paths import CFG, peel_cond
from facts import CALL_KINDS, call_args, call_obj, show, walk

READ_SCALAR = "ASerializable::_recordRead"


def _var_key(n):
    """identity of an lvalue usable as taint carrier: local/param decl id, or this-field name"""
    if n is None:
        return None
    if n["k"] == "DeclRefExpr" and n.get("dk") in ("var", "parm"):
        return ("L", n["d"], n["n"])
    if n["k"] == "MemberExpr" and n.get("mk") == "field":
        b = (n.get("c") or [None])[0]
        if b is None or b["k"] == "This":
            return ("F", n["n"], n["n"])
    return None


def containment(prog, wprog, chk):
    """is every call of a `_deserialize` made from another `_deserialize` or from a function that wraps it in
    try { } catch (std::exception) returning failure?"""
    funnel_ok = True
    details = []
    n = 0
    for f in prog.funcs + wprog.funcs:
        for c in f.calls():
            if not (c.get("callee") or "").endswith("::_deserialize"):
                continue
            if f.short == "_deserialize":
                continue
            n += 1
            # enclosing Try with a handler catching std::exception (or ...)
            ok = False
            for a in f.ancestors(c):
                if a["k"] == "Try":
                    for h in a["c"][1:]:
                        t = h.get("t")
                        if t is None or "std::exception" in t:
                            ok = True
            details.append((f, c, ok))
            funnel_ok = funnel_ok and ok
    return funnel_ok and n > 0, details


def r9_2(prog, wprog, chk):
    contained, det = containment(prog, wprog, chk)
    for f, c, ok in det:
        chk.analysed(f)
        chk.ob("R9.2c", "%s: the call of %s is wrapped in try/catch(std::exception) reporting failure" % (f.name, c["callee"]),
               f.loc(c), ok,
               detail=None if ok else "an exception raised while reading a malformed file (std::length_error / std::bad_alloc from a "
               "negative or absurd count) propagates out of the loader and terminates the process",
               key="R9.2c|%s|%s" % (f.name, c["callee"]))
    chk.floor("R9.2c", len(det), 1)

    nsink = 0
    for f in sorted(prog.funcs, key=lambda x: x.name):
        if f.short != "_deserialize" or f.cfg is None:
            continue
        chk.analysed(f)
        g = CFG(f)
        # --- sources
        tainted = {}      # key -> source node
        for c in f.calls():
            cal = c.get("callee") or ""
            if cal.startswith(READ_SCALAR) and not cal.startswith("ASerializable::_recordReadVec"):
                a = call_args(c)
                if len(a) >= 3:
                    k = _var_key(a[2])
                    if k and "int" in (a[2].get("t") or ""):
                        tainted.setdefault(k, c)
        # propagate through assignments (flow-insensitive)
        changed = True
        while changed:
            changed = False
            for n in f.walk():
                tgt = rhs = None
                if n["k"] == "VarDecl" and n.get("c"):
                    tgt, rhs = ("L", n["d"], n["n"]), n["c"][0]
                elif n["k"] == "Assign" and n.get("op") == "=":
                    tgt, rhs = _var_key(n["c"][0]), n["c"][1]
                if tgt is None or tgt in tainted or rhs is None:
                    continue
                if rhs["k"] in CALL_KINDS and rhs["k"] != "OpCall":
                    continue      # results of calls are not followed
                srcs = [tainted[k] for k in (_var_key(x) for x in walk(rhs)) if k in tainted]
                if srcs:
                    tainted[tgt] = srcs[0]
                    changed = True
        if not tainted:
            continue

        def tainted_vars(e):
            out = []
            for x in walk(e) if e is not None else []:
                k = _var_key(x)
                if k in tainted and k not in out:
                    out.append(k)
            return out

        def nonneg_edges(key):
            out = set()
            for b in g.blocks.values():
                if len(b["s"]) != 2:
                    continue
                c = g.cond(b["b"])
                if c is None:
                    continue
                core, pol = peel_cond(c)
                if core is None or core["k"] != "BinOp" or core.get("op") not in ("<", "<=", ">", ">=", "=="):
                    continue
                l, r = core["c"]
                op = core["op"]
                if _var_key(l) == key and r is not None and r["k"] == "Int":
                    v = r["v"]
                    good = {"<": (False, v <= 0), "<=": (False, v < 0 or v <= 0), ">": (True, v >= -1), ">=": (True, v >= 0)}.get(op)
                    if good and good[1]:
                        k = 0 if (good[0] == pol) else 1
                        out.add((b["b"], k))
            return out

        def upper_edges(key):
            """edges implying key < something / key <= something (any bound expression)"""
            out = set()
            for b in g.blocks.values():
                if len(b["s"]) != 2:
                    continue
                c = g.cond(b["b"])
                if c is None:
                    continue
                core, pol = peel_cond(c)
                if core is None or core["k"] != "BinOp" or core.get("op") not in ("<", "<=", ">", ">="):
                    continue
                l, r = core["c"]
                op = core["op"]
                if _var_key(l) == key and not (r is not None and r["k"] == "Int" and r["v"] <= 0):
                    good = {"<": True, "<=": True, ">": False, ">=": False}[op]
                elif _var_key(r) == key and not (l is not None and l["k"] == "Int" and l["v"] <= 0):
                    good = {">": True, ">=": True, "<": False, "<=": False}[op]
                else:
                    continue
                k = 0 if (good == pol) else 1
                out.add((b["b"], k))
            return out

        # --- sinks
        for n in f.walk():
            kind = None
            exprs = []
            if n["k"] == "MCall":
                short = (n.get("callee") or "").split("::")[-1]
                if short in ("resize", "reserve") and call_args(n):
                    kind, exprs = "allocation", call_args(n)[:2]
            elif n["k"] == "Construct":
                t = (n.get("t") or "")
                if re.match(r"(const )?(Vector|Matrix|Table|std::vector)", t) and not n.get("copy"):
                    ints = [a for a in (n.get("c") or []) if a is not None and tainted_vars(a)]
                    if ints:
                        kind, exprs = "allocation", ints
            elif n["k"] == "New" and n.get("array"):
                kind, exprs = "allocation", (n.get("c") or [])[:1]
            elif n["k"] in ("Index",) or (n["k"] == "OpCall" and n.get("op") == "[]"):
                idx = (n.get("c") or [None, None])[1]
                if idx is not None and tainted_vars(idx):
                    kind, exprs = "subscript", [idx]
            if kind is None:
                continue
            for e in exprs:
                for key in tainted_vars(e):
                    nsink += 1
                    src = tainted[key]
                    if kind == "allocation":
                        passes = nonneg_edges(key)
                        eo = lambda blk, k, s_, passes=passes: (blk["b"], k) not in passes
                        wit = g.search(g.after(src), is_target=lambda x, n=n: x["i"] == n["i"], edge_ok=eo) if g.pos_of(n) else None
                        ok = wit is None or contained
                        chk.ob("R9.2", "%s: count `%s` read from the file is validated (or the allocation is contained) before %s" % (
                                   f.name, key[2], show(n)[:50]), f.loc(n), ok,
                               detail=None if ok else "the count comes straight from the file and sizes an allocation: a negative or absurd "
                               "value raises std::length_error / std::bad_alloc, which nothing catches (process terminated)",
                               key="R9.2|%s|%s->%s" % (f.name, key[2], (n.get("callee") or n.get("t") or "new[]").split("::")[-1]),
                               path=None if ok else g.describe(wit))
                    else:
                        p1 = nonneg_edges(key)
                        p2 = upper_edges(key)
                        # both a lower and an upper test must lie on every path
                        w1 = g.search(g.after(src), is_target=lambda x, n=n: x["i"] == n["i"],
                                      edge_ok=lambda blk, k, s_: (blk["b"], k) not in p1) if g.pos_of(n) else None
                        w2 = g.search(g.after(src), is_target=lambda x, n=n: x["i"] == n["i"],
                                      edge_ok=lambda blk, k, s_: (blk["b"], k) not in p2) if g.pos_of(n) else None
                        ok = w1 is None and w2 is None
                        wit = w1 or w2
                        chk.ob("R9.2", "%s: index `%s` read from the file is range-checked before %s" % (f.name, key[2], show(n)[:50]),
                               f.loc(n), ok,
                               detail=None if ok else "a value read from the file is used as a subscript without a %s test on some path: "
                               "out-of-bounds access on a malformed file" % ("lower-bound" if w1 else "upper-bound"),
                               key="R9.2|%s|%s[]%s" % (f.name, key[2], show((n.get("c") or [None])[0])[:20]),
                               path=None if ok else g.describe(wit))
    chk.floor("R9.2", nsink, 25)
    chk.extra["R9.2_allocations_contained_by_exception_handler"] = contained
