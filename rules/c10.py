"""C10 - results depend only on the arguments.
Decides the cache / hidden-state disciplines (DESIGN.md section C10):
 R10.1 pre/post-process pairing of the projected-point cache on all paths
 R10.2 copy-on-write detach before every mutable access of VectorT / VectorNumT
 R10.3 KrigingCalcul cache graph: dependencies are invalidated, setters reset, failed fill leaves no cache
 R10.4 hidden file-static arguments of Vario.cpp are defined on every path before use
"""
import os
import re
import sys

import facts
from facts import REPO, Program, extract, show, call_obj, call_args, walk, is_call, CALL_KINDS
from e1_paths import CFG, peel_cond
from report import Check

ACQ = "ACov::optimizationPreProcess"
REL = "ACov::optimizationPostProcess"
ACQ_FAMILY_SHORT = {"optimizationPreProcess", "_optimizationPreProcess"}

QUICK_UNITS = [
    "src/Covariances/ACov.cpp", "src/Covariances/ACovAnisoList.cpp", "src/Covariances/CovAniso.cpp",
    "src/Covariances/CovGneiting.cpp",
    "src/Estimation/KrigingSystem.cpp", "src/Estimation/KrigingCalcul.cpp",
    "src/Estimation/CalcKriging.cpp", "src/Estimation/CalcKrigingFactors.cpp",
    "src/Estimation/CalcGlobal.cpp", "src/Estimation/CalcImage.cpp", "src/Core/krige.cpp",
    "src/Variogram/Vario.cpp", "src/Variogram/AVario.cpp",
    "src/Neigh/ANeigh.cpp", "src/Neigh/NeighBench.cpp", "src/Neigh/NeighMoving.cpp", "src/Neigh/NeighCell.cpp", "src/Basic/Rotation.cpp", "src/Basic/Tensor.cpp", "src/LinearOp/IProjMatrix.cpp", "src/Basic/Grid.cpp",
    "src/Anamorphosis/AnamEmpirical.cpp", "src/Anamorphosis/AnamHermite.cpp", "src/Simulation/CalcSimuTurningBands.cpp", "src/Basic/Indirection.cpp", "src/Skin/Skin.cpp",
    "src/Spatial/SpatialIndices.cpp", "src/Stats/PCA.cpp", "src/Drifts/DriftList.cpp", "src/Fractures/FracList.cpp", "src/Polynomials/Chebychev.cpp", "src/Db/DbGrid.cpp", "src/Polygon/Polygons.cpp",
]


def recv(n):
    o = call_obj(n)
    if o is None or o["k"] == "This":
        return "this"
    return show(o)



def _root_field(n):
    """the data member of `this` an expression is rooted at (through member calls, arrows, indexing)"""
    while n is not None:
        f = _this_field(n)
        if f:
            return f
        k = n["k"]
        c = n.get("c") or []
        if k in ("MCall", "MemberExpr", "Index", "OpCall", "Cast", "UnOp") and c:
            n = c[0]
            continue
        return None
    return None


def _owned_fields(prog, cls):
    """fields of cls holding an object the class owns: every non-null value assigned to them is a fresh
    clone()/new (or is derived from such a field), and the root is deleted in the destructor."""
    funcs = [f for f in prog.funcs if f.cls == cls and f.body is not None]
    assigns = {}
    for f in funcs:
        for n in f.walk():
            if n["k"] == "Assign" and n.get("op") == "=":
                c = n["c"]
                fld = _this_field(c[0])
                if fld and c[1] is not None and c[1]["k"] != "Null":
                    assigns.setdefault(fld, []).append(c[1])
        for i in f.d.get("inits", []):
            if i.get("field") and i.get("init") is not None and i["init"]["k"] not in ("Null", "Int", "Bool", "Float"):
                assigns.setdefault(i["field"], []).append(i["init"])
    deleted = set()
    for f in funcs:
        if f.kind == "dtor":
            for n in f.walk():
                if n["k"] == "Delete":
                    fld = _this_field((n.get("c") or [None])[0])
                    if fld:
                        deleted.add(fld)
    owned = set()
    for fld, rhs in assigns.items():
        if fld in deleted and all(r["k"] == "New" or (r["k"] == "MCall" and (r.get("callee") or "").endswith("::clone")) for r in rhs):
            owned.add(fld)
    changed = True
    while changed:
        changed = False
        for fld, rhs in assigns.items():
            if fld in owned:
                continue
            if rhs and all(_root_field(r) in owned for r in rhs):
                owned.add(fld)
                changed = True
    return owned


# ------------------------------------------------------------------------------------------
def r10_1(prog, chk):
    """pre/post pairing"""
    n_pair = 0
    # (a) local pairing: every caller of the acquire outside the acquire family and outside
    #     KrigingSystem (object-level protocol, below)
    for f in prog.funcs:
        if f.cfg is None or f.short in ACQ_FAMILY_SHORT:
            continue
        acqs = [c for c in f.calls(ACQ)]
        if not acqs:
            continue
        if f.name == "KrigingSystem::isReady":
            continue
        chk.analysed(f)
        g = CFG(f)
        for a in acqs:
            r = recv(a)
            n_pair += 1
            wit = g.exit_without(a, lambda n, r=r: is_call(n, REL) and recv(n) == r)
            chk.ob("R10.1a", "%s: %s.optimizationPreProcess -> optimizationPostProcess" % (f.name, r),
                   f.loc(a), wit is None,
                   detail=None if wit is None else
                   "a path from the pre-process to a function exit never releases the projected-point cache "
                   "(the next request on the same model reuses stale points)",
                   key="R10.1a|%s|%s" % (f.name, r), path=None if wit is None else g.describe(wit))
    chk.floor("R10.1a", n_pair, 2)

    # (b) KrigingSystem: acquire in isReady, release in conclusion
    isr = prog.fn("KrigingSystem::isReady")
    con = prog.fn("KrigingSystem::conclusion")
    dtor = prog.fn("KrigingSystem::~KrigingSystem")
    chk.analysed(isr); chk.analysed(con); chk.analysed(dtor)
    g = CFG(isr)
    acqs = list(isr.calls(ACQ))
    chk.floor("R10.1b-acquires", len(acqs), 1)
    rel_recv = {recv(c) for c in con.calls(REL)}
    dtor_releases = any(True for c in dtor.calls("KrigingSystem::conclusion")) or \
        any(True for c in dtor.calls(REL))

    def is_fail_return(n):
        if n["k"] != "Return":
            return False
        c = n.get("c") or []
        return bool(c) and c[0] is not None and c[0]["k"] == "Bool" and c[0].get("v") is False

    # Ownership discharge: a covariance that lives in an object the KrigingSystem owns (a clone made by the
    # system and deleted by its destructor) dies with the system, so its cache cannot leak into a later call.
    owned = _owned_fields(prog, "KrigingSystem")
    chk.extra["R10.1_fields_owned_by_KrigingSystem"] = sorted(owned)
    all_owned = True
    for a in acqs:
        r = recv(a)
        st = g.after(a)
        r_owned = _root_field(call_obj(a)) in owned
        all_owned = all_owned and r_owned
        wit = None
        if not r_owned:
            wit = g.search(st, is_target=is_fail_return,
                           is_barrier=lambda n, r=r: (is_call(n, REL) and recv(n) == r) or is_call(n, "KrigingSystem::conclusion"))
        chk.ob("R10.1b", "KrigingSystem::isReady: %s is owned by the system, or a failure return after its pre-process releases it" % r,
               isr.loc(a), wit is None,
               detail=None if wit is None else "isReady() reports failure while the cache filled by this call stays attached to the model "
               "(clients return without calling conclusion() when isReady() fails)",
               key="R10.1b|KrigingSystem::isReady|%s@%s" % (r, show((a.get("c") or [None, None])[1]) if len(a.get("c") or []) > 1 else ""),
               path=None if wit is None else g.describe(wit))
        # (iii) every receiver acquired is released by conclusion()
        chk.ob("R10.1c", "KrigingSystem: %s is owned by the system or released by conclusion()" % r, con.loc(),
               r_owned or r in rel_recv,
               detail=None if (r_owned or r in rel_recv) else "isReady() pre-processes %s but conclusion() never post-processes it" % r,
               key="R10.1c|KrigingSystem::conclusion|%s" % r)

    # (ii) clients.  Feasibility refinement (typestate on boolean flags of the KrigingSystem object, engine
    # e2_state): a method whose every failing return sits behind the false edge of a flag cannot fail while a
    # successful earlier call guarantees that flag; such `if (ksys.m(..)) return` exits are infeasible.
    from e2_state import ClassFlags, forward_must, lit_bool
    from e1_paths import single_def
    eff = _class_effects(prog, "KrigingSystem")
    flags = ClassFlags(prog, "KrigingSystem", eff, _closure)
    ks = {e["f"].name: e["f"] for e in eff.values() if e["f"].cfg is not None}
    chk.extra["R10.1d_failure_guards"] = {}

    n_cli = 0
    for f in prog.funcs:
        if f.cfg is None or f.cls == "KrigingSystem":
            continue
        calls = list(f.calls("KrigingSystem::isReady"))
        if not calls:
            continue
        chk.analysed(f)
        g = CFG(f)

        def cond_call(blk, r):
            """(call node on receiver r tested by this block, polarity) or (None, None)"""
            c = g.cond(blk["b"])
            if c is None or len(blk["s"]) != 2:
                return None, None
            core, pol = peel_cond(c)
            if core is None:
                return None, None
            if core["k"] == "DeclRefExpr" and core.get("dk") == "var":
                d = single_def(f, core["d"])
                if d is not None:
                    core = d
            if core["k"] == "MCall" and core.get("callee") in ks and recv(core) == r:
                return core, pol
            return None, None

        for a in calls:
            r = recv(a)
            n_cli += 1

            def transfer(facts, n, r=r):
                if n["k"] == "MCall" and n.get("callee") in eff and recv(n) == r:
                    w = _closure(eff, n["callee"], "writes")
                    if w & facts:
                        return set(facts) - w
                return facts

            def success_edge(call, pol, k):
                m = ks[call["callee"]]
                truth = (k == 0) == pol           # value of the call along this edge
                return truth if m.ret.startswith("bool") else (not truth)

            def edge_gen(blk, k, cur, r=r):
                call, pol = cond_call(blk, r)
                if call is None:
                    return cur
                if success_edge(call, pol, k):
                    m = ks[call["callee"]]
                    lits = [lit_bool(x) for x in call_args(call)]
                    lits += [None] * (len(m.params) - len(lits))
                    return set(cur) | flags.post_true(m, lits)
                return cur

            IN = forward_must(g, transfer, edge_gen=edge_gen)
            infeasible = set()
            for b, facts in IN.items():
                blk = g.blocks[b]
                call, pol = cond_call(blk, r)
                if call is None or call["i"] == a["i"]:
                    continue
                cur = facts
                for i_, n in g.elems(b):
                    cur = transfer(cur, n)
                gf = flags.guard_fields(ks[call["callee"]])
                chk.extra["R10.1d_failure_guards"][call["callee"]] = sorted(gf)
                if "*" in gf or (gf & cur):
                    for k in (0, 1):
                        if not success_edge(call, pol, k):
                            infeasible.add((b, k))

            def edge_ok(blk, k, s_, a=a, r=r):
                call, pol = cond_call(blk, r)
                if call is not None and call["i"] == a["i"]:
                    return success_edge(call, pol, k)      # start from a successful isReady()
                return (blk["b"], k) not in infeasible

            ok = True
            wit = None
            if not dtor_releases and not all_owned:
                wit = g.search(g.after(a), to_exit=True, edge_ok=edge_ok,
                               is_barrier=lambda n, r=r: is_call(n, "KrigingSystem::conclusion") and recv(n) == r)
                ok = wit is None
            chk.ob("R10.1d", "%s: %s.isReady() -> conclusion() on every feasible exit (or every pre-processed covariance is owned by the system)" % (f.name, r), f.loc(a), ok,
                   detail=None if ok else "an exit after a successful isReady() skips conclusion(); the KrigingSystem "
                   "destructor does not release either, so the model keeps the projected points of this data base",
                   key="R10.1d|%s|%s" % (f.name, r), path=None if ok else g.describe(wit))
    chk.floor("R10.1d", n_cli, 8 if chk.tier == "thorough" else 6)


# ------------------------------------------------------------------------------------------
VEC_CLASSES = ["VectorT<double>", "VectorT<int>", "VectorT<String>", "VectorNumT<double>", "VectorNumT<int>"]
# members that rebind or exchange the handle itself (no access to the shared elements)
R102_HANDLE_ONLY = {"swap": "exchanges the two handles; element storage is not touched",
                    "_detach": "the detach primitive itself"}
# std::vector mutators that change no observable content
R102_CONTENT_NEUTRAL = {"reserve": "capacity only; element values and size unchanged",
                        "shrink_to_fit": "capacity only", "capacity": "read", "size": "read"}


def _touches_v(n):
    """the expression reaches the shared storage through this->_v"""
    for x in walk(n):
        if x["k"] == "MemberExpr" and x.get("n") == "_v":
            b = (x.get("c") or [None])[0]
            if b is None or b["k"] == "This":
                return True
    return False


def _is_mutable_type(t):
    t = t.strip()
    if not (t.endswith("&") or t.endswith("*") or "iterator" in t):
        return False
    if "const_iterator" in t or "const_reverse_iterator" in t:
        return False
    if t.startswith("const "):
        return False
    return True


def r10_2(prog, chk):
    n_members = 0
    n_sites = 0
    for cls in VEC_CLASSES:
        members = [f for f in prog.funcs if f.cls == cls]
        if not members:
            raise facts.AnalysisBroken("template instantiation %s has no member bodies (witness unit)" % cls)
        for f in members:
            if f.kind in ("ctor", "dtor") or f.cfg is None:
                continue
            n_members += 1
            chk.analysed(f)
            isconst = bool(f.d.get("const"))
            if f.short in R102_HANDLE_ONLY:
                continue
            sigkey = "%s(%s)%s" % (f.name, ",".join(p["t"] for p in f.params), " const" if isconst else "")
            # one key per template member, whatever the instantiation
            tkey = re.sub(r"^(\w+)<.*?>::", r"\1::", "%s(%d)%s" % (f.name, len(f.params), " const" if isconst else ""))
            if isconst:
                # a const member must not hand out mutable access to the shared storage
                bad = _is_mutable_type(f.ret) and any(_touches_v(r) for r in f.walk() if r["k"] == "Return")
                chk.ob("R10.2c", sigkey + ": const member returns no mutable access to the shared storage",
                       f.loc(), not bad,
                       detail=None if not bad else "returns `%s` into storage shared with every copy of the vector; "
                       "writing through it changes the copies" % f.ret,
                       key="R10.2c|" + tkey)
                continue
            g = CFG(f)
            is_detach = lambda n: n["k"] == "MCall" and (n.get("callee") or "").endswith("::_detach") and \
                (call_obj(n) is None or call_obj(n)["k"] == "This")
            for n in f.walk():
                if n["k"] not in ("MCall", "OpCall"):
                    continue
                cal = n.get("callee") or ""
                if not cal.startswith("std::vector"):
                    continue
                if n.get("cconst"):
                    continue
                short = cal.split("::")[-1]
                if short in R102_CONTENT_NEUTRAL:
                    continue
                obj = call_obj(n) if n["k"] == "MCall" else ((n.get("c") or [None])[0])
                if obj is None or not _touches_v(obj):
                    continue
                n_sites += 1
                wit = g.reach_without(g.entry_pos(), n, is_barrier=is_detach)
                chk.ob("R10.2m", "%s: _detach() dominates %s" % (sigkey, show(n)[:60]), f.loc(n), wit is None,
                       detail=None if wit is None else "mutable access to the shared storage on a path without _detach(): "
                       "a copy sharing the storage is modified too",
                       key="R10.2m|%s|%s" % (tkey, short), path=None if wit is None else g.describe(wit))
    chk.floor("R10.2-members", n_members, 200)
    chk.floor("R10.2m-sites", n_sites, 70)


# ------------------------------------------------------------------------------------------
def _this_field(n):
    """n is this->field (a data member of the enclosing object)"""
    if n is None or n["k"] != "MemberExpr" or n.get("mk") != "field":
        return None
    b = (n.get("c") or [None])[0]
    if b is None or b["k"] == "This":
        return n["n"]
    return None


def _class_effects(prog, cls):
    """Per member function of cls: fields written / reset / read / assigned-non-null / assigned from a
    parameter, and the member functions of cls it calls."""
    eff = {}
    for f in prog.funcs:
        if f.cls != cls or f.body is None:
            continue
        e = {"writes": set(), "resets": set(), "reads": set(), "fills": {}, "from_param": set(), "calls": set(), "f": f}
        lhs_ids = set()
        for n in f.walk():
            k = n["k"]
            c = n.get("c") or []
            if k == "Assign" and c:
                fld = _this_field(c[0])
                if fld:
                    e["writes"].add(fld)
                    if n.get("op") == "=":
                        lhs_ids.add(c[0]["i"])
                        rhs = c[1]
                        if rhs is not None and (rhs["k"] == "Null" or (rhs["k"] in ("Int", "Bool") and not rhs.get("v"))):
                            e["resets"].add(fld)
                        else:
                            e["fills"].setdefault(fld, []).append(n)
                            if rhs is not None and any(x["k"] == "DeclRefExpr" and x.get("dk") == "parm" for x in walk(rhs)):
                                e["from_param"].add(fld)
            elif k == "MCall" and c:
                fld = _this_field(c[0])
                short = (n.get("callee") or "").split("::")[-1]
                if fld and short == "clear":
                    e["resets"].add(fld); e["writes"].add(fld)
                if n.get("cls") == cls and (c[0] is None or c[0]["k"] == "This"):
                    e["calls"].add(n.get("callee"))
                    # fields passed by address are written by the callee on behalf of this function
                    for a in c[1:]:
                        if a is not None and a["k"] == "UnOp" and a.get("op") == "&":
                            fld2 = _this_field((a.get("c") or [None])[0])
                            if fld2:
                                e["writes"].add(fld2); e["from_param"].add(fld2)
        for n in f.walk():
            if n["k"] == "MemberExpr" and n["i"] not in lhs_ids:
                fld = _this_field(n)
                if fld:
                    e["reads"].add(fld)
        eff[f.name] = e
    return eff


def _closure(eff, start, what):
    out = set()
    seen = set()
    st = [start]
    while st:
        x = st.pop()
        if x in seen or x not in eff:
            continue
        seen.add(x)
        out |= eff[x][what]
        st.extend(eff[x]["calls"])
    return out


def r10_3(prog, chk):
    cls = "KrigingCalcul"
    eff = _class_effects(prog, cls)
    if not eff:
        raise facts.AnalysisBroken("class KrigingCalcul not found")
    for e in eff.values():
        chk.analysed(e["f"])
    ctor_like = {n for n, e in eff.items() if e["f"].kind in ("ctor", "dtor")}
    # deleters: functions that directly reset a field
    deleters = {}
    for n, e in eff.items():
        if n in ctor_like:
            continue
        for fld in e["resets"]:
            deleters.setdefault(fld, set()).add(n)
    def is_data_type(t):
        return t is not None and (t.endswith("*") or t.startswith("Vector") or t.startswith("Matrix"))

    def presence_guarded(e, fld):
        """the function tests fld in a branch condition (lazy-fill idiom: `if (F != nullptr) return 0;`)"""
        f = e["f"]
        if f.cfg is None:
            return False
        g = CFG(f)
        for b in g.blocks.values():
            c = g.cond(b["b"])
            if c is None:
                continue
            for x in walk(c):
                if _this_field(x) == fld:
                    return True
        return False

    # lazy fillers: non-ctor functions that test a data field and assign it a non-null value that does not
    # come from a parameter; cache fields = fields with a lazy filler
    fillers = {}
    for n, e in eff.items():
        if n in ctor_like:
            continue
        for fld, sites in e["fills"].items():
            if fld in e["from_param"]:
                continue
            if not is_data_type(_field_type(prog, cls, fld)):
                continue
            if not presence_guarded(e, fld):
                continue
            fillers.setdefault(fld, set()).add(n)
    setters = {}
    for n, e in eff.items():
        if n in ctor_like:
            continue
        for fld in e["from_param"]:
            if is_data_type(_field_type(prog, cls, fld)) and e["f"].d.get("access") == "public":
                setters.setdefault(fld, set()).add(n)
    caches = sorted(fillers)
    chk.floor("R10.3-cache-fields", len(caches), 18)
    chk.extra["R10.3_cache_fields"] = caches
    chk.extra["R10.3_input_fields"] = sorted(setters)

    # (a) each cache field has a deleter that resets it
    for F in caches:
        ok = F in deleters
        chk.ob("R10.3a", "KrigingCalcul: cache %s has a reset function" % F, eff[sorted(fillers[F])[0]]["f"].loc(), ok,
               detail=None if ok else "%s is filled lazily by %s but no function of the class ever resets it: once computed "
               "it survives every change of the inputs" % (F, ", ".join(sorted(fillers[F]))),
               key="R10.3a|KrigingCalcul|%s" % F)

    # direct dependencies of a cache: data fields read in the body of its filler, plus the caches filled by
    # the fillers it calls (helpers are not followed: under-approximation, no spurious dependency)
    dep = {}
    for F in caches:
        d = set()
        for fn in fillers[F]:
            d |= {x for x in eff[fn]["reads"] if is_data_type(_field_type(prog, cls, x))}
            for cal in eff[fn]["calls"]:
                d |= {G for G in caches if cal in fillers[G]}
        d.discard(F)
        dep[F] = d
    chk.extra["R10.3_dependencies"] = {F: sorted(d) for F, d in dep.items()}
    depstar = {}
    for F in caches:
        seen = set()
        st = list(dep[F])
        while st:
            G = st.pop()
            if G in seen:
                continue
            seen.add(G)
            if G in dep:
                st.extend(dep[G])
        seen.discard(F)
        depstar[F] = seen
    users = {}
    for F in caches:
        for G in depstar[F]:
            users.setdefault(G, set()).add(F)
    nb = 0
    for G in sorted(users):
        if G in fillers:
            changers = sorted(deleters.get(G, []))
            kind = "reset of cache"
        elif G in setters:
            changers = sorted(setters[G])
            kind = "public setter of input"
        else:
            continue
        for ch in changers:
            nb += 1
            got = _closure(eff, ch, "resets")
            missing = sorted(users[G] - got)
            chk.ob("R10.3b", "KrigingCalcul::%s (%s %s) resets the %d caches computed from it" % (
                       ch.split("::")[-1], kind, G, len(users[G])),
                   eff[ch]["f"].loc(), not missing,
                   detail=None if not missing else "%s changes %s but leaves %s, computed from it, in place: a later request returns "
                   "the value computed from the old %s" % (ch, G, ", ".join(missing), G),
                   key="R10.3b|%s|%s" % (ch, G))
    chk.floor("R10.3b", nb, 22)

    # (d) a failed fill leaves no cache
    nd = 0
    for F in caches:
        for fn in sorted(fillers[F]):
            f = eff[fn]["f"]
            if f.cfg is None or not f.ret.startswith("int"):
                continue
            g = CFG(f)
            for site in eff[fn]["fills"][F]:
                nd += 1

                def is_fail_ret(n):
                    if n["k"] != "Return":
                        return False
                    c = n.get("c") or []
                    return bool(c) and c[0] is not None and not (c[0]["k"] == "Int" and c[0].get("v") == 0)

                def is_reset(n, F=F):
                    if n["k"] == "Assign":
                        c = n.get("c") or []
                        return _this_field(c[0]) == F and c[1] is not None and c[1]["k"] == "Null"
                    if n["k"] == "MCall":
                        cal = n.get("callee")
                        if cal in eff and F in _closure(eff, cal, "resets"):
                            return True
                        c = n.get("c") or []
                        return bool(c) and _this_field(c[0]) == F and (n.get("callee") or "").endswith("::clear")
                    return False

                wit = g.search(g.after(site), is_target=is_fail_ret, is_barrier=is_reset)
                chk.ob("R10.3d", "%s: failure after filling %s resets it" % (fn, F), f.loc(site), wit is None,
                       detail=None if wit is None else "the function reports failure but keeps the half-built %s; the next call finds "
                       "it present and reports success with that content" % F,
                       key="R10.3d|%s|%s" % (fn, F), path=None if wit is None else g.describe(wit))
    chk.floor("R10.3d", nd, 18)


def _field_type(prog, cls, fld):
    for x in prog.classes.get(cls, {}).get("fields", []):
        if x["n"] == fld:
            return x["t"]
    return None


def static_defined_ref(n, S):
    """the reference to S that statement n (re)defines: `S = ..`, S handed to a non-const reference / pointer
    parameter (filled by the callee), or S.clear() / S.resize() / S.assign()"""
    from e2_deps import _split_sig
    if n["k"] in ("Assign", "OpCall") and n.get("op") == "=":
        l = (n.get("c") or [None])[0]
        if l is not None and l["k"] == "DeclRefExpr" and l.get("q") == S:
            return l
        return None
    if n["k"] in ("Call", "MCall"):
        types = _split_sig(n.get("sig") or "")
        for i, a in enumerate(call_args(n)):
            if a is not None and a["k"] == "DeclRefExpr" and a.get("q") == S and i < len(types):
                t = types[i].strip()
                if t.endswith("&") and not t.startswith("const "):
                    return a
        if n["k"] == "MCall" and (n.get("callee") or "").split("::")[-1] in ("clear", "assign"):
            o = call_obj(n)
            if o is not None and o["k"] == "DeclRefExpr" and o.get("q") == S:
                return o
    return None



# ------------------------------------------------------------------------------------------
def hidden_static_rule(prog, chk, unit_suffix, rule, floor_sites, only=None):
    """R10.4: a non-const file-static that one function assigns and another reads is a hidden argument.
    Every chain of calls (inside the unit, member-pointer calls resolved through the functions whose
    address is stored in the pointer) from an externally callable function to a read of the static must
    pass an assignment of the static that dominates the call."""
    unit = [u for u in prog.units if u.endswith(unit_suffix)]
    if not unit:
        raise facts.AnalysisBroken("unit %s not analysed" % unit_suffix)
    unit = unit[0]
    statics = {g["q"]: g for g in prog.globals if g["unit"] == unit and g.get("fstatic") and not g.get("const")
               and g["file"] == unit}
    funcs = [f for f in prog.funcs if f.cfg is not None]
    byname = {}
    for f in funcs:
        byname.setdefault(f.name, []).append(f)
    # member-pointer targets: &Class::method stored anywhere in the analysed program
    pm_targets = set()
    for f in funcs:
        for n in f.walk():
            if n["k"] == "UnOp" and n.get("op") == "&":
                x = (n.get("c") or [None])[0]
                if x is not None and x["k"] == "DeclRefExpr" and x.get("dk") in ("func", "other") and x.get("q") in byname:
                    pm_targets.add(x["q"])
    virt_cache = {}

    def virt_targets(callee, nargs):
        key = (callee, nargs)
        if key not in virt_cache:
            cls, short = callee.rsplit("::", 1)
            out = set()
            for d in [cls] + prog.derived(cls):
                for f in byname.get(d + "::" + short, []):
                    if len(f.params) == nargs:
                        out.add(f.name)
            virt_cache[key] = sorted(out)
        return virt_cache[key]

    def callees(f):
        for n in f.walk():
            if n["k"] == "MCall" and n.get("virt") and n.get("callee"):
                for t in virt_targets(n["callee"], len(n.get("c") or []) - 1):
                    yield n, t
            elif n["k"] in ("Call", "MCall", "Construct") and n.get("callee") in byname:
                yield n, n["callee"]
            elif n["k"] == "PMCall":
                # member-pointer call: address-taken methods of the caller's own hierarchy
                hier = set([f.cls] + prog.bases(f.cls) + prog.derived(f.cls)) if f.cls else set()
                for t in sorted(pm_targets):
                    if any(g.cls in hier for g in byname.get(t, [])):
                        yield n, t
            elif n["k"] == "ICall":
                # plain function-pointer call: address-taken free functions with the same number of parameters
                nargs = len(n.get("c") or []) - 1
                for t in sorted(pm_targets):
                    if any((not g.cls) and len(g.params) == nargs for g in byname.get(t, [])):
                        yield n, t

    callers = {}
    for f in funcs:
        for n, t in callees(f):
            callers.setdefault(t, []).append((f, n))

    def is_assign_of(S):
        return lambda n: static_defined_ref(n, S) is not None

    nsites = 0
    inventory = []
    for S in sorted(statics):
        if only is not None and statics[S]["n"] not in only:
            continue
        writers = set()
        reads = []      # (func, node)
        for f in funcs:
            lhs = set()
            for n in f.walk():
                l = static_defined_ref(n, S)
                if l is not None:
                    lhs.add(l["i"]); writers.add(f.name)
            for n in f.walk():
                if n["k"] == "DeclRefExpr" and n.get("q") == S and n["i"] not in lhs:
                    reads.append((f, n))
        inventory.append({"static": S, "writers": sorted(writers), "readers": sorted({f.name for f, _ in reads})})
        if not reads or not writers:
            continue
        # functions that read S before assigning it (directly)
        direct = {}
        for f, n in reads:
            chk.analysed(f)
            g = CFG(f)
            if not g.dominated_by(n, is_assign_of(S)):
                direct.setdefault(f.name, f.loc(n))
        # functions from which a direct reader is reachable with S still unassigned at their entry
        need = dict((k, [("reads %s" % statics[S]["n"], v)]) for k, v in direct.items())
        work = list(direct)
        undominated = {}     # (K name, site id) -> (K, site, t)
        reader_cls = {}       # function name -> classes of the direct readers reachable from it
        for nm in direct:
            reader_cls[nm] = {byname[nm][0].cls} if byname.get(nm) else {None}
        while work:
            t = work.pop()
            for (k, site) in callers.get(t, []):
                # a member call on `this` dispatches inside the hierarchy of the caller's class: a chain that ends in the
                # override of an unrelated sibling class (VMap -> AVario::_evaluate.. -> Vario::_setResult) is not feasible
                if k.cls and site["k"] in ("MCall", "PMCall"):
                    hier = set([k.cls] + prog.bases(k.cls) + prog.derived(k.cls))
                    rc = {c for c in reader_cls.get(t, {None}) if c is None or c in hier}
                    if not rc:
                        continue
                else:
                    rc = set(reader_cls.get(t, {None}))
                reader_cls.setdefault(k.name, set()).update(rc)
                g = CFG(k)
                if g.dominated_by(site, is_assign_of(S)):
                    continue
                undominated[(k.name, site["i"])] = (k, site, t)
                if k.name not in need:
                    need[k.name] = [("calls %s" % t, k.loc(site))] + need[t]
                    work.append(k.name)

        def root_chain(kname, seen=None):
            """a chain of callers from kname up to an externally callable function, none of which assigns S
            before the call"""
            seen = seen or set()
            if kname in seen:
                return None
            seen.add(kname)
            ups = [(k, site) for (k, site) in callers.get(kname, [])]
            if not ups:
                return [kname]
            for (k, site) in ups:
                if (k.name, site["i"]) in undominated:
                    c = root_chain(k.name, seen)
                    if c is not None:
                        return [kname] + c
            return None

        # accumulation sites: calls whose callee reads S directly, and member-pointer calls reaching a reader
        for f in funcs:
            for n, t in callees(f):
                # a function whose address is stored in the member pointer is a callback: its own calls are
                # judged at the member-pointer call site of the kernel that invokes it
                first_level = (t in direct and f.name not in pm_targets) or (n["k"] in ("PMCall", "ICall") and t in need)
                if not first_level:
                    continue
                key = "%s|%s|%s->%s" % (rule, statics[S]["n"], f.name, "(member pointer)" if n["k"] in ("PMCall", "ICall") else t)
                if any(o["key"] == key and o["where"] == f.loc(n) for o in chk.obs):
                    continue
                nsites += 1
                chk.analysed(f)
                chain = None
                if (f.name, n["i"]) in undominated:
                    chain = root_chain(f.name)
                ok = chain is None
                chk.ob(rule, "%s: %s is assigned on every path to the call that reads it (%s)" % (
                           f.name, statics[S]["n"], show(n)[:50]), f.loc(n), ok,
                       detail=None if ok else "the file-static %s is a hidden argument of this call: neither %s nor its callers "
                       "(%s) assign it first, so the accumulation goes where an earlier call left it pointing" % (
                           statics[S]["n"], f.name, " <- ".join(chain)),
                       key=key)
    chk.extra.setdefault("hidden_static_inventory", {})[unit_suffix] = inventory
    chk.floor(rule + "-callsites", nsites, floor_sites)


def scratch_static_rule(prog, chk, unit_suffixes, rule, floor_n):
    """a non-const file-static that a function both (re)fills and reads is a scratch buffer of that function: every read is
    dominated by the refill, so nothing is carried over from the previous call (the previous call may have been made on
    another object, or before the object changed)"""
    n = 0
    for suf in unit_suffixes:
        unit = [u for u in prog.units if u.endswith(suf)]
        if not unit:
            raise facts.AnalysisBroken("unit %s not analysed" % suf)
        unit = unit[0]
        statics = {g["q"]: g for g in prog.globals if g["unit"] == unit and g.get("fstatic") and not g.get("const") and g["file"] == unit}
        for S in sorted(statics):
            for f in sorted(prog.funcs, key=lambda x: (x.file, x.line)):
                if f.cfg is None:
                    continue
                defs = set()
                for x in f.walk():
                    l = static_defined_ref(x, S)
                    if l is not None:
                        defs.add(l["i"])
                if not defs:
                    continue
                reads = [x for x in f.walk() if x["k"] == "DeclRefExpr" and x.get("q") == S and x["i"] not in defs]
                if not reads:
                    continue
                g = CFG(f)
                chk.analysed(f)
                bad = [r for r in reads if g.pos_of(r) is not None and not g.dominated_by(r, lambda y: static_defined_ref(y, S) is not None)]
                n += 1
                chk.ob(rule, "%s: every read of the file-static scratch buffer %s follows its refill" % (f.name, statics[S]["n"]),
                       f.loc(bad[0]) if bad else f.loc(reads[0]), not bad,
                       detail=None if not bad else "%s is refilled on some paths only: on the others the function works with what an earlier "
                       "call (on another object, or before this one changed) left in it" % statics[S]["n"],
                       key="%s|%s|%s" % (rule, statics[S]["n"], f.name))
    chk.floor(rule, n, floor_n)


# ------------------------------------------------------------------------------------------
def r10_2d(prog, chk):
    """who-may-write through the const accessors of the copy-on-write vector: a mutable use of X.getVector() /
    X.getVectorPtr() needs X to own a private storage at that point: X is a local built in the function, or a detaching
    member of X (any non-const accessor) was called before on every path"""
    from e2_deps import _split_sig
    DETACHING = {"data", "begin", "end", "rbegin", "rend", "front", "back", "operator[]", "at", "fill", "assign", "clear", "push_back",
                 "subdata", "insert", "remove", "erase", "swap"}
    n = 0
    for f in sorted(prog.funcs, key=lambda x: (x.file, x.line)):
        if f.cfg is None:
            continue
        for c in f.calls():
            cal = c.get("callee") or ""
            if not (cal.startswith("VectorT<") and cal.split("::")[-1] in ("getVector", "getVectorPtr")):
                continue
            cur, par = c, f.parent(c)
            while par is not None and (par["k"] in ("UnOp", "Cast", "Index") or (par["k"] == "OpCall" and par.get("op") in ("[]", "*"))):
                cur, par = par, f.parent(par)
            if par is None:
                continue
            mutable = False
            if par["k"] in ("Call", "MCall", "Construct"):
                args = call_args(par)
                types = _split_sig(par.get("sig") or "")
                readonly_view = par["k"] == "Construct" and "span<const " in (par.get("callee") or "")
                for i_, a in enumerate(args):
                    if a is not None and any(y is cur for y in walk(a)) and i_ < len(types):
                        t = types[i_].strip()
                        if t.endswith("&") and not t.startswith("const ") and not readonly_view:
                            mutable = True
                if par["k"] == "MCall" and call_obj(par) is not None and any(y is cur for y in walk(call_obj(par))) and not par.get("cconst"):
                    mutable = True
            elif par["k"] == "Assign" or (par["k"] == "OpCall" and par.get("op") in ("=", "+=", "-=", "*=", "/=")):
                mutable = any(y is cur for y in walk(par["c"][0]))
            if not mutable:
                continue
            n += 1
            chk.analysed(f)
            obj = call_obj(c)
            ok = False
            why = ""
            if obj is not None and obj["k"] == "DeclRefExpr" and obj.get("dk") == "var":
                # a local: fresh storage if built (not copied) in this function
                for v in f.walk():
                    if v["k"] == "VarDecl" and v.get("d") == obj["d"]:
                        init = (v.get("c") or [None])[0]
                        ok = init is None or not (init["k"] == "Construct" and init.get("copy"))
                        why = "local vector built in the function"
            if not ok and obj is not None:
                g = CFG(f)
                oname = show(obj)
                is_detach = lambda x, oname=oname: x["k"] == "MCall" and not x.get("cconst") and call_obj(x) is not None and \
                    show(call_obj(x)) == oname and (x.get("callee") or "").split("::")[-1] in DETACHING
                ok = g.dominated_by(c, is_detach)
                why = "a detaching accessor of %s is called first" % oname
            chk.ob("R10.2d", "%s: write through %s.%s() only on a privately owned storage" % (f.name, show(obj), cal.split("::")[-1]),
                   f.loc(c), ok,
                   detail=None if ok else "%s() does not detach the copy-on-write storage and the result is written: copies of `%s` made "
                   "before the call are modified too" % (cal.split("::")[-1], show(obj)),
                   key="R10.2d|%s|%s" % (f.name, show(obj)))
    chk.floor("R10.2d", n, 4)


# parallel containers (element i of each describes the same item), confirmed by reading; found by the co-modification
# statistics of the whole program (thorough tier lists the other co-modified pairs as an inventory)
PARALLEL = {
    "ACovAnisoList": [{"_covs", "_filtered"}],
    "DriftList": [{"_drifts", "_filtered", "_betaHat"}],
    "AnamEmpirical": [{"_ZDisc", "_YDisc"}],
    "Indirection": [{"_vecRToA", "_vecAToR"}],
    "Skin": [{"_address", "_energy"}],
}


PARALLEL_EXEMPT = {("DriftList::resetDriftList", ("_betaHat", "_drifts", "_filtered")):
                   "re-aligns the follower `_filtered` on the number of drift functions when they differ (`if (nbfl != _filtered.size()) resize`): no item is added or removed here"}


def r10_5(prog, chk):
    import c07
    n = 0
    for cls, groups in sorted(PARALLEL.items()):
        if cls not in prog.classes:
            raise facts.AnalysisBroken("class %s (parallel containers) not analysed" % cls)
        n += c07.co_update(prog, chk, cls, groups, "R10.5", exempt=PARALLEL_EXEMPT)
        # R10.5e: removing item i removes element i of EVERY container of the group, in the same method (a later `resize` of a sibling
        # that was not erased drops its LAST element: the attributes of the remaining items shift onto their neighbours)
        for f in sorted(prog.funcs, key=lambda x: x.line):
            if f.cls != cls or f.body is None:
                continue
            erased = {}
            for x in f.walk():
                if x["k"] == "MCall" and (x.get("callee") or "").split("::")[-1] == "erase":
                    o = call_obj(x)
                    if o is not None and o["k"] == "MemberExpr" and o.get("mk") == "field":
                        erased.setdefault(o["n"], x)
            for grp in groups:
                hit = sorted(m_ for m_ in grp if m_ in erased)
                if not hit:
                    continue
                n += 1
                miss = sorted(m_ for m_ in grp if m_ not in erased)
                chk.analysed(f)
                chk.ob("R10.5e", "%s: erases the same item from %s" % (f.name, ", ".join(sorted(grp))), f.loc(erased[hit[0]]), not miss,
                       detail=None if not miss else "%s erased, %s not: the element of the removed item stays, the attributes of the following items are shifted by one "
                       "(and the last one is lost if a later resize truncates the container)" % (", ".join(hit), ", ".join(miss)),
                       key="R10.5e|%s|%s" % (f.name, "+".join(sorted(grp))))
    chk.floor("R10.5", n, 8)


# derived members: (class, source members, derived member): a method that writes a source member also refreshes the derived one
DERIVED = [
    ("Tensor", {"_radius"}, "_isotropic", "cached answer of 'are all radii equal' (read by getRange(), the printout, the serialisation, the turning bands)"),
    ("Tensor", {"_radius", "_rotation"}, "_tensorDirect", "matrix of the anisotropy, built from the radii and the rotation"),
    ("Rotation", {"_rotMat"}, "_rotInv", "inverse rotation matrix"),
]


def r10_5b(prog, chk):
    """R10.5b - derived members are refreshed with their sources: an object updated incrementally answers as one built with the
    same final content only if every member function that writes a source member also rewrites what is derived from it."""
    import c08_order
    eff = c08_order.Effects(prog)
    n = 0
    for (K, srcs, derived, what) in DERIVED:
        meths = [f for f in prog.funcs if f.cls == K and f.body is not None and f.kind == "method" and not f.d.get("const") and not f.short.startswith("operator")]
        if not meths:
            raise facts.AnalysisBroken("class %s (derived members) not analysed" % K)
        for f in sorted(meths, key=lambda x: x.line):
            R, W = eff.rw(f)
            touched = {s_ for s_ in srcs if K + "::" + s_ in W}
            if not touched or f.short in ("_updateIsotropic", "_fillTensors", "_directToInverse", "_inverseToDirect"):
                continue
            n += 1
            chk.analysed(f)
            ok = (K + "::" + derived) in W
            chk.ob("R10.5b", "%s: writing %s also refreshes %s" % (f.sig(), ", ".join(sorted(touched)), derived), f.loc(), ok,
                   detail=None if ok else "%s is %s; this method changes %s and leaves it as it was: the object then answers differently from one built "
                   "directly with the same final content" % (derived, what, ", ".join(sorted(touched))),
                   key="R10.5b|%s/%d|%s" % (f.name, len(f.params), derived))
    chk.floor("R10.5b", n, 8)


# per-item reset functions: (class, reset function): every pointer member that the class re-points to one of its own members
# while it processes an item is re-pointed by the reset that starts the next item
PER_ITEM_RESET = [("KrigingSystem", "KrigingSystem::_resetMemoryFullPerNeigh")]


def r10_5c(prog, chk):
    """R10.5c - 'mode' pointers.  KrigingSystem switches _lhs / _rhs between the full and the compressed arrays while it processes a
    neighbourhood; the reset that starts the next neighbourhood must re-point EVERY such pointer, else the next target is computed
    with the array of the previous one."""
    n = 0
    for K, reset_name in PER_ITEM_RESET:
        reset = prog.fn(reset_name)

        def addr_assigns(f):
            out = {}
            for x in f.walk():
                if x["k"] == "Assign" and x.get("op") == "=" and len(x.get("c") or []) == 2:
                    l, r = x["c"]
                    while r is not None and r["k"] == "Cast":
                        r = r["c"][0]
                    if l is not None and l["k"] == "MemberExpr" and l.get("mk") == "field" and r is not None and r["k"] == "UnOp" and r.get("op") == "&" and \
                            r["c"][0] is not None and r["c"][0]["k"] == "MemberExpr" and r["c"][0].get("mk") == "field":
                        out.setdefault(l["n"], []).append((r["c"][0]["n"], x))
            return out
        switched = {}
        for f in prog.funcs:
            if f.cls == K and f.body is not None and f.kind == "method":
                for p, lst in addr_assigns(f).items():
                    for tgt, x in lst:
                        switched.setdefault(p, set()).add(tgt)
        mode_ptrs = sorted(p for p, tg in switched.items() if len(tg) >= 2)
        here = addr_assigns(reset)
        chk.analysed(reset)
        for p in mode_ptrs:
            n += 1
            ok = p in here
            chk.ob("R10.5c", "%s re-points %s (switched between %s while an item is processed)" % (reset_name, p, " / ".join(sorted(switched[p]))), reset.loc(), ok,
                   detail=None if ok else "%s keeps pointing to the array selected for the previous neighbourhood: the next target is solved with a stale array" % p,
                   key="R10.5c|%s|%s" % (reset_name, p))
    chk.floor("R10.5c", n, 2)


def r10_4b(prog, chk):
    """R10.4b - function-local static memos.  A block that refreshes function-local statics under a guard (`if (first ||
    key != key_mem) { coeff = f(inputs); key_mem = key; }`) makes the next call reuse the statics: every parameter the refreshed
    values depend on must appear in the guard, else a later call with another value of that parameter silently reuses what was
    computed for the previous one (for another object, another scale ...)."""
    n = 0
    for f in sorted(prog.funcs, key=lambda x: (x.file, x.line)):
        if f.body is None:
            continue
        statics = {x["d"]: x["n"] for x in f.walk() if x["k"] == "VarDecl" and x.get("static")}
        if not statics:
            continue
        params = {p["d"]: p["n"] for p in f.params}
        for s_ in f.walk():
            if s_["k"] != "If" or len(s_["c"]) < 2 or s_["c"][1] is None:
                continue
            cond, body = s_["c"][0], s_["c"][1]
            assigned = [x for x in walk(body) if x["k"] == "Assign" and x.get("op") == "=" and x["c"][0] is not None and
                        x["c"][0]["k"] == "DeclRefExpr" and x["c"][0].get("d") in statics]
            if len(assigned) < 2:
                continue
            # a memo: the guard compares a non-static value V with a static key K (==, != or isEqual) and the block stores K = V;
            # (code translated from Fortran declares every local static: a test on such a variable is not a memo)
            cond_refs = {y.get("d") for y in walk(cond) if y["k"] == "DeclRefExpr"}
            keys = set()
            for y in walk(cond):
                pair = None
                if y["k"] == "BinOp" and y.get("op") in ("==", "!=") and len(y.get("c") or []) == 2:
                    pair = y["c"]
                elif y["k"] == "Call" and (y.get("callee") or "") in ("isEqual", "areEqual") and len(call_args(y)) >= 2:
                    pair = call_args(y)[:2]
                if not pair:
                    continue
                ds = []
                for e_ in pair:
                    while e_ is not None and e_["k"] == "Cast":
                        e_ = e_["c"][0]
                    ds.append(e_.get("d") if e_ is not None and e_["k"] == "DeclRefExpr" else None)
                for k_, v_ in ((ds[0], ds[1]), (ds[1], ds[0])):
                    if k_ in statics and v_ is not None and v_ not in statics and any(
                            x["c"][0].get("d") == k_ and x["c"][1] is not None and any(z["k"] == "DeclRefExpr" and z.get("d") == v_ for z in walk(x["c"][1]))
                            for x in assigned):
                        keys.add(k_)
            if not keys:
                continue
            # parameters the refreshed values depend on (through locals defined in the block or before it)
            defs = {}
            for x in f.walk():
                if x["k"] == "VarDecl" and x.get("c") and not x.get("static"):
                    defs.setdefault(x["d"], []).append(x["c"][0])
            deps = set()

            def collect(e, depth=0):
                for y in walk(e) if e is not None else []:
                    if y["k"] == "DeclRefExpr":
                        d = y.get("d")
                        if d in params:
                            deps.add(d)
                        elif d in defs and depth < 3:
                            for dd in defs[d]:
                                collect(dd, depth + 1)
            for x in assigned:
                collect(x["c"][1])
            n += 1
            chk.analysed(f)
            missing = sorted(params[d] for d in deps if d not in cond_refs and not any(
                y.get("d") == d for dd in [v for k, vs in defs.items() if k in cond_refs for v in vs] for y in walk(dd)))
            ok = not missing
            chk.ob("R10.4b", "%s: every parameter feeding the statics refreshed under `%s` is part of that guard" % (f.name, show(cond)[:40]), f.loc(s_), ok,
                   detail=None if ok else "the refreshed statics (%s) depend on the parameter `%s`, which the guard does not look at: a later call with "
                   "another value reuses the statics computed for the previous one" % (", ".join(sorted({statics[x["c"][0]["d"]] for x in assigned}))[:60], missing[0]),
                   key="R10.4b|%s|%s" % (f.name, "+".join(missing) if missing else "ok"))
    chk.floor("R10.4b", n, 1)


# memoising classes: (memo fields, input fields): a method that rebinds an input must reset the memo
MEMO = {"ANeigh": ({"_nbghMemo"}, {"_dbin", "_dbout"})}


def r10_6(prog, chk):
    n = 0
    for cls, (memo, inputs) in sorted(MEMO.items()):
        eff = _class_effects(prog, cls)
        if not eff:
            raise facts.AnalysisBroken("class %s (memo) not analysed" % cls)
        for name, e in sorted(eff.items()):
            f = e["f"]
            if f.kind in ("ctor", "dtor") or f.short.startswith("operator"):
                continue
            touched = (e["from_param"] | set(e["fills"])) & inputs
            if not touched:
                continue
            n += 1
            chk.analysed(f)
            got = _closure(eff, name, "resets")
            ok = memo <= got
            why = "the method attaches new data bases but keeps the memorised neighbourhood: the next search for the same target rank returns the " \
                  "neighbours computed for the previous data base"
            # ... and on EVERY path: once the data bases are rebound, no path reaches the exit without the reset (the content of a data base
            # may have changed although its address has not: `if (changed) setIsChanged();` keeps the memo of the old content)
            if ok and f.cfg is not None:
                from e1_paths import CFG
                g = CFG(f)
                binds = [x for x in f.walk() if x["k"] == "Assign" and x.get("op") == "=" and x["c"][0] is not None and x["c"][0]["k"] == "MemberExpr" and
                         x["c"][0].get("n") in touched and g.pos_of(x) is not None]
                resetters = {nm_ for nm_, e_ in eff.items() if memo <= _closure(eff, nm_, "resets")}
                is_reset = lambda y: y["k"] == "MCall" and (y.get("callee") or "") in resetters or \
                    (y["k"] == "MCall" and (y.get("callee") or "").split("::")[-1] == "clear" and call_obj(y) is not None and call_obj(y).get("n") in memo)
                for b_ in binds:
                    w = g.exit_without(b_, is_reset)
                    if w is not None:
                        ok = False
                        why = "a path from `%s` reaches the end of the method without resetting the memo (%s): the memorised neighbourhood of the previous " \
                              "content is returned for the same target rank" % (show(b_)[:30], g.describe(w)[:160])
                        break
            chk.ob("R10.6", "%s: rebinding %s resets the memo %s (on every path)" % (name, ", ".join(sorted(touched)), ", ".join(sorted(memo))), f.loc(), ok,
                   detail=None if ok else why, key="R10.6|%s|%s" % (name, "+".join(sorted(touched))))
    chk.floor("R10.6", n, 1)


def r10_6b(prog, chk):
    """R10.6b - a public setter of a search parameter invalidates the memorised neighbourhood.  ANeigh::select() returns the
    memorised ranks when the same target is asked again; a setter that changes a member the search reads (nmaxi, nmini, sectors,
    width ...) must call setIsChanged() / reset(), else the next answer is the one computed with the old parameter."""
    import c08_order
    eff = c08_order.Effects(prog)
    n = 0
    for K in ("NeighMoving", "NeighBench", "NeighCell", "NeighImage", "NeighUnique"):
        gn = [f for f in prog.fns(K + "::getNeigh") if f.body is not None]
        if not gn:
            continue
        R, W = eff.rw(gn[0])
        inputs = {a.split("::", 1)[1] for a in R if a.startswith(K + "::")}
        for f in sorted(prog.funcs, key=lambda x: (x.file, x.line)):
            if f.cls != K or f.body is None or f.kind != "method" or not f.short.startswith("set") or f.d.get("const"):
                continue
            written = set()
            for x in f.walk():
                if x["k"] in ("Assign", "OpCall") and (x.get("op") or "").endswith("=") and x.get("op") not in ("==", "!=", "<=", ">=") and x.get("c"):
                    l = x["c"][0]
                    while l is not None and l["k"] in ("Index", "Cast"):
                        l = l["c"][0]
                    if l is not None and l["k"] == "MemberExpr" and l.get("mk") == "field" and (not l.get("c") or l["c"][0] is None or l["c"][0]["k"] == "This"):
                        written.add(l["n"])
            touched = written & inputs
            if not touched:
                continue
            n += 1
            chk.analysed(f)
            resets = any(c["k"] == "MCall" and (c.get("callee") or "").split("::")[-1] in ("setIsChanged", "reset") and
                         (call_obj(c) is None or call_obj(c)["k"] == "This") for c in f.calls()) or \
                any(c["k"] == "MCall" and (c.get("callee") or "").split("::")[-1] == "clear" and show(call_obj(c)) == "_nbghMemo" for c in f.calls())
            chk.ob("R10.6b", "%s: changing %s invalidates the memorised neighbourhood" % (f.name, ", ".join(sorted(touched))), f.loc(), resets,
                   detail=None if resets else "the search reads %s; the setter leaves the memo of the previous target in place: asking the same target again "
                   "returns the neighbourhood computed with the old value" % ", ".join(sorted(touched)),
                   key="R10.6b|%s|%s" % (f.name, "+".join(sorted(touched))))
    # the same for the setters of the BASE class (cross-validation, K-fold, simulation flags, collocated ranks): every search reads them
    base_inputs = set()
    for K in ("NeighMoving", "NeighBench", "NeighCell", "NeighImage", "NeighUnique"):
        for g in [f for f in prog.fns(K + "::getNeigh") if f.body is not None][:1]:
            base_inputs |= {a.split("::", 1)[1] for a in eff.rw(g)[0] if a.startswith("ANeigh::")}
    nb = 0
    for f in sorted(prog.funcs, key=lambda x: (x.file, x.line)):
        if f.cls != "ANeigh" or f.body is None or f.kind != "method" or not f.short.startswith("set") or f.d.get("const") or f.short == "setIsChanged":
            continue
        written = set()
        for x in f.walk():
            if x["k"] in ("Assign", "OpCall") and x.get("op") == "=" and x.get("c"):
                l = x["c"][0]
                while l is not None and l["k"] in ("Index", "Cast"):
                    l = l["c"][0]
                if l is not None and l["k"] == "MemberExpr" and l.get("mk") == "field" and (not l.get("c") or l["c"][0] is None or l["c"][0]["k"] == "This"):
                    written.add(l["n"])
        touched = written & base_inputs
        if not touched:
            continue
        nb += 1
        chk.analysed(f)
        resets = any(c["k"] == "MCall" and (c.get("callee") or "").split("::")[-1] in ("setIsChanged", "reset") and
                     (call_obj(c) is None or call_obj(c)["k"] == "This") for c in f.calls())
        chk.ob("R10.6b", "%s: changing %s invalidates the memorised neighbourhood" % (f.name, ", ".join(sorted(touched))), f.loc(), resets,
               detail=None if resets else "every search reads %s; the setter leaves the memo of the previous target in place: asking the same target again "
               "returns the neighbourhood computed with the old value" % ", ".join(sorted(touched)),
               key="R10.6b|%s|%s" % (f.name, "+".join(sorted(touched))))
    chk.extra["R10.6b_base_class_setters"] = nb
    chk.floor("R10.6b", n + nb, 4)


INCR = ("++", "post++", "pre++")        # counting into an element (`m[i]++`) accumulates like `m[i] += 1`
GROW_CLASSES = ("Vario", "FracList")       # classes whose private helpers rebuild member lists at each calculation (confirmed by reading)


def r10_8(prog, chk, classes=None, floor_n=10):
    """R10.8 - a calculation entry point starts from scratch.  Members that the methods of the class ACCUMULATE into
    (`m[..] += x`) must be reset (fill / assign / clear / whole assignment; a plain resize() keeps the old content) on every
    path from a public entry point to the first accumulation: otherwise a second calculation on the same object adds to the
    first one (the result depends on what was called before)."""
    n = 0
    required = ("Vario", "AnamHermite", "SpatialIndices")
    if classes is None:
        # every analysed class that accumulates into a subscripted member
        classes = sorted({f.cls for f in prog.funcs if f.cls and f.body is not None and any(
            ((x["k"] in ("Assign", "OpCall") and x.get("op") == "+=") or (x["k"] == "UnOp" and x.get("op") in INCR)) and x.get("c") and
            x["c"][0] is not None and x["c"][0]["k"] in ("Index", "OpCall")
            for x in f.walk())} | set(required) | {k_ for k_ in GROW_CLASSES if any(f.cls == k_ and f.body is not None for f in prog.funcs)})
    for K in classes:
        meths = [f for f in prog.funcs if f.cls == K and f.body is not None]
        if not meths:
            if K not in required:
                continue
            raise facts.AnalysisBroken("class %s not analysed" % K)
        byname = {}
        for f in meths:
            byname.setdefault(f.name, []).append(f)

        def root_field(e):
            while e is not None and (e["k"] in ("Index", "Cast") or (e["k"] == "OpCall" and e.get("op") in ("[]", "*"))):
                e = e["c"][0]
            if e is not None and e["k"] == "MemberExpr" and e.get("mk") == "field" and (not e.get("c") or e["c"][0] is None or e["c"][0]["k"] == "This"):
                return e["n"]
            return None
        acc = {}
        grow = {}
        for f in meths:
            for x in f.walk():
                if ((x["k"] in ("Assign", "OpCall") and x.get("op") == "+=") or (x["k"] == "UnOp" and x.get("op") in INCR and x["c"][0] is not None and
                                                                                   x["c"][0]["k"] in ("Index", "OpCall"))) and x.get("c"):
                    fl = root_field(x["c"][0])
                    if fl:
                        acc.setdefault(fl, {}).setdefault(f.usr, []).append(x)
                # a list that a PRIVATE helper appends to (push_back in a `_method`): the public methods that reach the helper rebuild the
                # list, they must empty it first (public `addX` methods append on purpose and are not concerned)
                if x["k"] == "MCall" and (x.get("callee") or "").split("::")[-1] in ("push_back", "emplace_back") and K in GROW_CLASSES and \
                        (f.short.startswith("_") or f.short.startswith("add")):
                    fl = root_field(call_obj(x))
                    if fl:
                        grow.setdefault(fl, {}).setdefault(f.usr, []).append(x)
        # the accumulators of a calculation: containers (subscripted) that are also read back by getters
        acc = {fl: v for fl, v in acc.items() if any(x["c"][0]["k"] in ("Index", "OpCall") for xs in v.values() for x in xs)}
        for fl, v in grow.items():
            acc.setdefault(fl, {}).update(v)
        # member-pointer targets (evaluation callbacks)
        pm = set()
        for f in meths:
            for x in f.walk():
                if x["k"] == "UnOp" and x.get("op") == "&" and x.get("c") and x["c"][0] is not None and x["c"][0]["k"] == "DeclRefExpr" and (x["c"][0].get("q") or "") in byname:
                    pm.add(x["c"][0]["q"])

        def this_callees(f):
            for c in f.calls():
                if c["k"] == "MCall" and c.get("callee") in byname and (call_obj(c) is None or call_obj(c)["k"] == "This"):
                    cands = byname[c["callee"]]
                    norm = lambda t_: (t_ or "").replace(" ", "")
                    exact = [g for g in cands if norm(",".join(p_["t"] for p_ in g.params)) == norm(c.get("sig"))]
                    for g in (exact or cands):
                        yield c, g
                elif c["k"] == "PMCall":
                    for q in sorted(pm):
                        for g in byname[q]:
                            yield c, g
        for fl in sorted(acc):
            reach = set(acc[fl])
            changed = True
            while changed:
                changed = False
                for f in meths:
                    if f.usr not in reach and any(g.usr in reach for _, g in this_callees(f)):
                        reach.add(f.usr)
                        changed = True

            def is_reset_stmt(x, fl=fl):
                if x["k"] == "MCall" and (x.get("callee") or "").split("::")[-1] in ("fill", "assign", "clear") and root_field(call_obj(x)) == fl:
                    return True
                if x["k"] in ("Assign", "OpCall") and x.get("op") == "=" and x.get("c") and x["c"][0] is not None and root_field(x["c"][0]) == fl:
                    # whole assignment, or element-wise `m[i] = v` (the element is overwritten before it is added to)
                    return True
                if x["k"] in ("Call", "MCall") and any(a_ is not None and root_field(a_) == fl for a_ in call_args(x)):
                    # handed to a routine as an output vector (rotateDirect(_work1, _work2), prodMatVecInPlace(x, _grad)): rewritten
                    sig_ = [t_.strip() for t_ in (x.get("sig") or "").split(",")]
                    for i_, a_ in enumerate(call_args(x)):
                        if a_ is not None and root_field(a_) == fl and i_ < len(sig_) and not sig_[i_].startswith("const ") and \
                                (sig_[i_].endswith("&") or sig_[i_].endswith("*") or sig_[i_] in ("vect", "vectint")):
                            return True
                return False
            # methods that reset on every path to a successful return
            resetters = set()

            def success(r):
                v = (r.get("c") or [None])[0]
                return v is None or not (v["k"] == "Int" and v["v"] != 0) and not (v["k"] == "Bool" and v["v"] is False)
            changed = True
            while changed:
                changed = False
                for f in meths:
                    if f.usr in resetters or f.cfg is None:
                        continue
                    if not any(is_reset_stmt(x) for x in f.walk()) and not any(g.usr in resetters for _, g in this_callees(f)):
                        continue
                    g_ = CFG(f)
                    rcalls = {c["i"] for c, g in this_callees(f) if g.usr in resetters}
                    bar = lambda x: is_reset_stmt(x) or x["i"] in rcalls
                    # a counted loop whose body resets the member element by element is a reset (zero trips = nothing to reset)
                    loops_with_reset = {l["i"] for l in f.walk() if l["k"] == "For" and any(bar(y) for y in walk(l))}
                    eo = lambda blk, k, s_: not (blk.get("t") == "ForStmt" and blk.get("ts") in loops_with_reset and k == 1)
                    w = g_.search(g_.entry_pos(), is_target=lambda x: x["k"] == "Return" and success(x), is_barrier=bar, edge_ok=eo)
                    w2 = g_.search(g_.entry_pos(), to_exit=True, is_barrier=lambda x: bar(x) or x["k"] == "Return", edge_ok=eo) if f.ret.startswith("void") else None
                    if w is None and w2 is None:
                        resetters.add(f.usr)
                        changed = True
            # methods whose own accumulations (and those of their callees) all come after a reset on every path from their entry:
            # calling them is not an accumulation from the caller's point of view (scratch vectors filled then adjusted in place)
            guarded = set()
            changed = True
            while changed:
                changed = False
                for f in meths:
                    if f.usr not in reach or f.usr in guarded or f.cfg is None:
                        continue
                    g_ = CFG(f)
                    tg = {c["i"] for c, g in this_callees(f) if g.usr in reach and g.usr not in guarded} | {x["i"] for x in acc[fl].get(f.usr, [])}
                    rc = {c["i"] for c, g in this_callees(f) if g.usr in resetters}
                    lwr = {l["i"] for l in f.walk() if l["k"] == "For" and any(is_reset_stmt(y) or y["i"] in rc for y in walk(l))}
                    eo = lambda blk, k, s_, lwr=lwr: not (blk.get("t") == "ForStmt" and blk.get("ts") in lwr and k == 1)
                    if g_.search(g_.entry_pos(), is_target=lambda x: x["i"] in tg and x["i"] not in rc,
                                 is_barrier=lambda x: is_reset_stmt(x) or x["i"] in rc, edge_ok=eo) is None:
                        guarded.add(f.usr)
                        changed = True
            pub = {m["usr"] for m in prog.classes.get(K, {}).get("methods", []) if m.get("access") == "public"}
            for f in sorted(meths, key=lambda x: x.line):
                if f.usr not in reach or f.usr not in pub or f.cfg is None or f.kind != "method" or f.short.startswith("_"):
                    continue
                # leaf updaters of one element (updateXxByIndex(i, v)) are the accumulation primitive itself, not a calculation
                if f.usr in acc[fl] and not any(x["k"] in ("For", "While", "ForRange", "Do") for x in f.walk()):
                    continue
                g_ = CFG(f)
                accs = {c["i"] for c, g in this_callees(f) if g.usr in reach and g.usr not in guarded} | {x["i"] for x in acc[fl].get(f.usr, [])}
                rcalls = {c["i"] for c, g in this_callees(f) if g.usr in resetters}
                if not accs:
                    continue
                n += 1
                chk.analysed(f)
                # a counted loop that resets the member element by element is not skipped (the accumulation loops share its bound)
                lwr = {l["i"] for l in f.walk() if l["k"] == "For" and any(is_reset_stmt(y) or y["i"] in rcalls for y in walk(l))}
                eo = lambda blk, k, s_, lwr=lwr: not (blk.get("t") == "ForStmt" and blk.get("ts") in lwr and k == 1)
                w = g_.search(g_.entry_pos(), is_target=lambda x: x["i"] in accs and x["i"] not in rcalls,
                              is_barrier=lambda x: is_reset_stmt(x) or x["i"] in rcalls, edge_ok=eo)
                ok = w is None
                chk.ob("R10.8", "%s: %s is reset on every path before the calculation accumulates into it" % (f.sig(), fl), f.loc(), ok,
                       detail=None if ok else "a second call on the same object adds its pairs / sums to those of the first call (resize() keeps the old "
                       "content): the result depends on what was computed before", key="R10.8|%s/%d|%s" % (f.name, len(f.params), fl),
                       path=None if ok else g_.describe(w))
    chk.floor("R10.8", n, floor_n)


def r10_10(prog, chk):
    """R10.10 - what an optional argument switched on is switched off when the argument is absent.  A method that stores a member only
    under `if (arg != nullptr)` (no else, no other assignment in the method) and reads that member afterwards keeps, when called
    without the argument, what an EARLIER call stored: `Vario::_compute` kept the drift model of a previous calculation, so a plain
    variogram computed afterwards on the same object was still the variogram of the residuals."""
    from e1_paths import peel_cond
    n = 0
    for f in sorted(prog.funcs, key=lambda x: (x.file, x.line)):
        if f.body is None or not f.cls or f.kind != "method":
            continue
        ptr = {p_["d"]: p_["n"] for p_ in f.params if p_["t"].strip().endswith("*")}
        if not ptr:
            continue
        for x in f.walk():
            if x["k"] != "If" or len(x["c"]) < 3 or x["c"][-1] is not None or x["c"][-3] is None or x["c"][-2] is None:
                continue
            core, pol = peel_cond(x["c"][-3])
            if core is None or core["k"] != "DeclRefExpr" or core.get("d") not in ptr or pol is not True:
                continue
            inside = {z["i"] for z in walk(x)}
            ms = sorted({y["c"][0]["n"] for y in walk(x["c"][-2]) if y["k"] in ("Assign", "OpCall") and y.get("op") == "=" and y["c"][0] is not None and
                         y["c"][0]["k"] == "MemberExpr" and y["c"][0].get("mk") == "field"})
            for m_ in ms:
                others = [y for y in f.walk() if y["k"] in ("Assign", "OpCall") and y.get("op") == "=" and y["c"][0] is not None and
                          y["c"][0]["k"] == "MemberExpr" and y["c"][0]["n"] == m_ and y["i"] not in inside]
                reads = [y for y in f.walk() if y["k"] == "MemberExpr" and y["n"] == m_ and y["i"] not in inside]
                n += 1
                bad = not others and bool(reads)
                if bad:
                    chk.analysed(f)
                chk.ob("R10.10", "%s: `%s`, stored when `%s` is given, is also defined when it is absent" % (f.name, m_, ptr[core["d"]]), f.loc(x), not bad,
                       detail=None if not bad else "`%s` is assigned only under `if (%s != nullptr)` and read afterwards (line %s): a call without `%s` works with what an earlier "
                       "call stored" % (m_, ptr[core["d"]], f.loc(reads[0]).split(":")[-1], ptr[core["d"]]), key="R10.10|%s|%s" % (f.name, m_), nontrivial=bad)
    chk.floor("R10.10", n, 2)


def r10_11(prog, chk):
    """R10.11 - a member vector whose length is decided by the data is read up to ITS length.  When a method resizes a member vector
    with a local (data-dependent) count, or replaces it by an argument, a loop of another method that subscripts it with a counter
    bounded by a different plain member reads whatever follows the vector in memory unless every such resizing method also stores
    the count into that member: the value returned then depends on the history of the process (Chebychev::eval read `_ncMax`
    coefficients of a polynomial truncated by fit() / stored by setCoeffs())."""
    def strip(e):
        while e is not None and e["k"] == "Cast" and e.get("c"):
            e = e["c"][0]
        return e

    def member(e):
        e = strip(e)
        if e is not None and e["k"] == "MemberExpr" and e.get("mk") == "field" and (not e.get("c") or e["c"][0] is None or e["c"][0]["k"] == "This"):
            return e["n"]
        return None
    n = 0
    for K in sorted(prog.classes):
        meths = [f for f in prog.funcs if f.cls == K and f.body is not None]
        if not meths:
            continue
        dyn = {}          # member vector -> [(method, what decides its length)]
        for f in meths:
            if f.kind in ("ctor", "dtor"):
                continue
            pars = {p_["d"] for p_ in f.params}
            for x in f.walk():
                if x["k"] == "MCall" and (x.get("callee") or "").split("::")[-1] == "resize":
                    m = member(call_obj(x))
                    a = call_args(x)
                    e = strip(a[0]) if a and a[0] is not None else None
                    if m and e is not None and e["k"] == "DeclRefExpr" and e.get("dk") == "var" and e.get("d") not in pars:
                        dyn.setdefault(m, []).append((f, e["d"], show(e), x))
        if not dyn:
            continue

        def co_updated(bm, m):
            """every method deciding the length of m also stores that count into bm"""
            for f, d, _txt, _x in dyn[m]:
                ok = False
                for y in f.walk():
                    if y["k"] == "Assign" and y.get("op") == "=" and member(y["c"][0]) == bm:
                        r = strip(y["c"][1])
                        if d is not None and r is not None and r["k"] == "DeclRefExpr" and r.get("d") == d:
                            ok = True
                        if r is not None and r["k"] == "MCall" and (r.get("callee") or "").split("::")[-1] == "size" and member(call_obj(r)) == m:
                            ok = True
                if not ok:
                    return False
            return True

        def helper_before(f, m):
            sites = [(g, y) for g in prog.funcs if g.body is not None for y in g.walk()
                     if y["k"] in ("Call", "MCall") and (y.get("callee") or "") == f.name]
            if not sites:
                return False
            for g, y in sites:
                cuts = [x_ for g_, _d, _t, x_ in dyn[m] if g_ is g]
                if not cuts or any(g.loc(y).split(":")[-1].isdigit() and int(g.loc(y).split(":")[-1]) >= int(g.loc(x_).split(":")[-1]) for x_ in cuts):
                    return False
            return True
        for f in meths:
            for L in f.walk():
                if L["k"] != "For" or len(L["c"]) < 4 or L["c"][1] is None or L["c"][3] is None:
                    continue
                c = L["c"][1]
                if c["k"] != "BinOp" or c.get("op") not in ("<", "<=") or c["c"][0] is None or strip(c["c"][0])["k"] != "DeclRefExpr":
                    continue
                lv = strip(c["c"][0])["d"]
                bm = member(c["c"][1])
                done = set()
                for x in walk(L["c"][3]):
                    if not (x["k"] == "Index" or (x["k"] == "OpCall" and x.get("op") == "[]")):
                        continue
                    base = x["c"][0] if x["k"] == "Index" else x["c"][-2]
                    m = member(base)
                    i = strip(x["c"][-1])
                    if m not in dyn or i is None or i["k"] != "DeclRefExpr" or i.get("d") != lv or m in done:
                        continue
                    done.add(m)
                    if all(g is f for g, _d, _t, _x in dyn[m]):
                        continue        # the loop lives in the method that decides the length
                    if helper_before(f, m):
                        continue        # private helper used only by that method, before it cuts the vector
                    n += 1
                    bad = bm is not None and bm != m and not co_updated(bm, m)
                    if bad:
                        chk.analysed(f)
                    g0, _d0, t0, _x0 = dyn[m][0]
                    chk.ob("R10.11", "%s: `%s[%s]` is read within the length the data gave it" % (f.name, m, show(i)), f.loc(x), not bad,
                           detail=None if not bad else "the loop runs to `%s` but %s sets the length of `%s` from `%s` without storing it into `%s`: the "
                           "reads past the end return what happens to follow the vector in memory" % (bm, g0.name, m, t0, bm),
                           key="R10.11|%s|%s" % (f.name, m), nontrivial=bad)
    chk.floor("R10.11", n, 4)


def r10_12(prog, chk):
    """R10.12 - an output argument is written before it is read.  When a function receives `double* p` / `int* p`, reads `*p` on a path
    that has not stored into it (nor handed `p` to another function), and a caller passes the address of a local it never initialised,
    the result is computed from whatever the stack held: it depends on the calls made before (Polygons::getExtension only UPDATED the
    bounds it was given and DbGrid::resetFromPolygon gave it four uninitialised doubles: the grid covering a polygon was arbitrary)."""
    from e1_paths import CFG

    def strip(e):
        while e is not None and e["k"] in ("Cast", "Paren") and e.get("c"):
            e = e["c"][0]
        return e

    def deref_of(e, d):
        e = strip(e)
        return e is not None and e["k"] == "UnOp" and e.get("op") == "*" and strip(e["c"][0]) is not None and \
            strip(e["c"][0])["k"] == "DeclRefExpr" and strip(e["c"][0]).get("d") == d
    summ = {}
    for f in prog.funcs:
        if f.body is None or f.cfg is None:
            continue
        for k, p_ in enumerate(f.params):
            if p_["t"].replace(" ", "") not in ("double*", "int*"):
                continue
            d = p_["d"]
            is_write = lambda y, d=d: (y["k"] == "Assign" and y.get("op") == "=" and deref_of(y["c"][0], d)) or \
                (y["k"] in ("Call", "MCall", "Construct") and any(a is not None and strip(a) is not None and strip(a)["k"] == "DeclRefExpr" and
                                                                 strip(a).get("d") == d for a in call_args(y)))
            lhs = {strip(y["c"][0])["i"] for y in f.walk() if y["k"] == "Assign" and y.get("op") == "=" and deref_of(y["c"][0], d)}
            reads = [x for x in f.walk() if deref_of(x, d) and x["i"] not in lhs]
            if not reads:
                continue
            g = CFG(f)
            writes = [y for y in f.walk() if is_write(y) and g.pos_of(y) is not None]
            for r in reads:
                holds_r = lambda y, r=r: any(z["i"] == r["i"] for z in walk(y)) and not is_write(y)
                w = g.search(g.entry_pos(), is_target=holds_r, is_barrier=is_write)
                # definite: the read comes first on EVERY path (each store into *p is dominated by it); a store that some path
                # executes before the read (a loop that may or may not find the diagonal term...) leaves the question to the data
                if w is not None and all(g.dominated_by(y, holds_r) for y in writes):
                    summ[(f.name, k)] = (f, p_["n"], r)
                    break
    n = 0
    for f in sorted(prog.funcs, key=lambda x: (x.file, x.line)):
        if f.body is None:
            continue
        uninit = {x["d"]: x for x in f.walk() if x["k"] == "VarDecl" and x.get("t") in ("double", "int") and (not x.get("c") or x["c"][0] is None)}
        if not uninit:
            continue
        for c in f.calls():
            for k, a in enumerate(call_args(c)):
                a = strip(a)
                if a is None or a["k"] != "UnOp" or a.get("op") != "&":
                    continue
                v = strip(a["c"][0])
                if v is None or v["k"] != "DeclRefExpr" or v.get("d") not in uninit:
                    continue
                d, line = v["d"], c.get("l", 0)
                touched = any((y["k"] in ("Assign", "CompoundAssign") and strip(y["c"][0]) is not None and strip(y["c"][0]).get("d") == d and y.get("l", 0) <= line) or
                              (y["k"] == "UnOp" and y.get("op") == "&" and strip(y["c"][0]) is not None and strip(y["c"][0]).get("d") == d and y.get("l", 0) < line)
                              for y in f.walk())
                if touched:
                    continue
                n += 1
                hit = summ.get((c.get("callee") or "", k))
                if hit:
                    chk.analysed(f)
                chk.ob("R10.12", "%s: `%s` receives the address of the uninitialised `%s` as an output only" % (f.name, (c.get("callee") or "?"), v["n"]),
                       f.loc(c), hit is None,
                       detail=None if hit is None else "%s reads `*%s` (line %s) on a path that has not written it: the value comes from the stack of the caller" % (
                           hit[0].name, hit[1], hit[0].loc(hit[2]).split(":")[-1]),
                       key="R10.12|%s|%s|%s" % (f.name, c.get("callee"), v["n"]), nontrivial=hit is not None)
    chk.floor("R10.12", n, 30)


def r10_9(prog, chk):
    """R10.9 - polarity of the neighbourhood memo.  ANeigh::select() reuses the memorised neighbourhood of the previous
    target exactly when hasChanged() answers false.  An override that answers with a SAMENESS predicate (a function that
    returns false on a `!=` / true at the end: "same bench", "same target") must negate it: un-negated, the neighbourhood
    of a target is the one of the previous target precisely when the two differ."""
    def sameness(g):
        """True when g returns false only under an inequality test and true otherwise"""
        if g.body is None or not g.ret.startswith("bool"):
            return False
        rets = [x for x in g.walk() if x["k"] == "Return" and x.get("c") and x["c"][0] is not None]
        if not rets or any(r["c"][0]["k"] != "Bool" for r in rets):
            return False
        falses = [r for r in rets if r["c"][0]["v"] is False]
        trues = [r for r in rets if r["c"][0]["v"] is True]
        if not falses or not trues:
            return False
        for r in falses:
            ok = False
            child = r
            for a in g.ancestors(r):
                if a["k"] == "If":
                    c = a["c"][0]
                    while c is not None and c["k"] == "Cast":
                        c = c["c"][0]
                    if len(a["c"]) >= 2 and (a["c"][1] is child) and c is not None and c["k"] in ("BinOp", "OpCall") and c.get("op") == "!=":
                        ok = True
                    break
                child = a
            if not ok:
                return False
        return True
    n = 0
    for f in sorted(prog.funcs, key=lambda x: (x.file, x.line)):
        if f.short != "hasChanged" or f.body is None or not f.cls or not (f.cls == "ANeigh" or "ANeigh" in prog.bases(f.cls)):
            continue
        for r in f.walk():
            if r["k"] != "Return" or not r.get("c") or r["c"][0] is None:
                continue
            e = r["c"][0]
            neg = False
            while e is not None and (e["k"] == "Cast" or (e["k"] == "UnOp" and e.get("op") == "!")):
                if e["k"] == "UnOp":
                    neg = not neg
                e = e["c"][0]
            if e is None or e["k"] != "MCall" or not e.get("callee"):
                continue
            impl = [g for g in prog.fns(e["callee"]) if g.body is not None]
            if not impl or not all(sameness(g) for g in impl):
                continue
            n += 1
            chk.analysed(f)
            chk.ob("R10.9", "%s answers 'changed' with the negation of the sameness test %s" % (f.name, e["callee"]), f.loc(r), neg,
                   detail=None if neg else "%s returns true when the target is in the SAME group as the previous one: hasChanged() then makes select() "
                   "recompute when nothing changed and REUSE the memorised neighbourhood when the group changed; the neighbourhood of a target "
                   "depends on which target was asked before" % e["callee"],
                   key="R10.9|%s|%s" % (f.name, e["callee"].split("::")[-1]))
    chk.floor("R10.9", n, 1)


# R10.7: members on which the two copy operations legitimately differ (one line of reason each, confirmed by reading)
R107_ACCEPTED = {
    ("ACov", "_isOptimPreProcessed"): "flag of the projected-point cache, true only between optimizationPreProcess and optimizationPostProcess, "
                                      "which R10.1a pairs on every path: whenever an ACov can be copied from outside the flag is false, so "
                                      "resetting it (constructor) and copying it (operator=) give the same object",
    ("GibbsMMulti", "_weights"): "scratch vector: the copy constructor re-sizes it through _allocate(), and _calculateWeights() rewrites it "
                                  "(solve) before every read; copying or not copying its content is not observable",
}


def r10_7(prog, chk, tier, units_done):
    """the copy constructor and operator= of every class carry the same members and base parts (whole program: every unit
    that defines an operator= is analysed, and the header-defined classes)"""
    import copyrule
    if tier == "thorough":
        cprog = prog
    else:
        pat = re.compile(r"operator\s*=\s*\(")
        extra = []
        for u in facts.all_units():
            if u not in units_done:
                try:
                    if pat.search(open(u, errors="replace").read()):
                        extra.append(u)
                except OSError:
                    pass
        cprog = Program().load_dir(extract(extra, "C10copy-" + tier))
        cprog.load_dir(os.path.join(facts.WORK, "facts", "C10-" + tier + os.environ.get("GSA_WORKTAG", "")))
        chk.units += [u for u in cprog.units if u not in chk.units]
    dh, excluded = facts.extract_headers("C10h-" + tier)
    cprog.load_dir(dh)
    n = copyrule.copy_agreement(cprog, chk, "R10.7", accepted=R107_ACCEPTED)
    chk.floor("R10.7", n, 700)
    nc, nd = copyrule.ownership_rules(cprog, chk, "R10.7c", "R10.7d")
    chk.floor("R10.7c", nc, 2)
    chk.floor("R10.7d", nd, 20)
    r10_6b(cprog, chk)


def main(tier):
    chk = Check("C10", tier,
                "Static cache/hidden-state discipline only: pre/post-process pairing of the projected-point cache on "
                "every CFG path, copy-on-write detach before every mutable access of the shared vector storage, "
                "KrigingCalcul cache-dependency graph contained in its invalidation graph, hidden file-static "
                "arguments assigned before use. Decides necessary conditions of 'results depend only on the "
                "arguments'; does NOT decide equality of results with a fresh process.")
    units = [os.path.join(REPO, u) for u in QUICK_UNITS]
    # R10.2d is a who-may-call rule: every unit that names the const accessors is analysed (a call has to spell the member
    # name, so the textual pre-filter cannot miss a caller)
    pat = re.compile(r"getVector(Ptr)?\s*\(")
    for u in facts.all_units():
        if u not in units:
            try:
                if pat.search(open(u, errors="replace").read()):
                    units.append(u)
            except OSError:
                pass
    if tier == "thorough":
        units = facts.all_units()
    d = extract(units, "C10-" + tier)
    prog = Program().load_dir(d)
    dw = extract([os.path.join(facts.WITNESS, "templates_inst.cpp")], "C10w-" + tier, headers=True)
    wprog = Program().load_dir(dw)
    chk.units = list(prog.units) + list(wprog.units)
    r10_1(prog, chk)
    r10_2(wprog, chk)
    r10_3(prog, chk)
    hidden_static_rule(prog, chk, 'src/Variogram/Vario.cpp', 'R10.4', 3)
    r10_2d(prog, chk)
    r10_5(prog, chk)
    r10_6(prog, chk)
    r10_5b(prog, chk)
    r10_5c(prog, chk)
    r10_4b(prog, chk)
    r10_8(prog, chk)
    r10_10(prog, chk)
    r10_11(prog, chk)
    r10_12(prog, chk)
    r10_9(prog, chk)
    r10_7(prog, chk, tier, units)
    return chk.finish()






