"""C11 - matrix and vector classes (DESIGN.md section C11).  Decides only:
 (a) shape conformance of the Eigen kernels of the dense matrix class for arbitrary (R x C): no kernel of a class that
     admits rectangular storage may require R == C, and the vector length a kernel maps must be the one its generic
     AMatrix sibling tests for
 (b) extremum searches do not start from numeric_limits<T>::min() (smallest positive value for floating types)
 (c) every OpenMP parallel region writes only region-local variables, elements indexed by the loop variable, or
     reduction / private variables (zero regions today: a positive control unit must be flagged on every run)
"""
import os
import re

import facts
from facts import REPO, Program, extract, show, call_obj, call_args, walk
from e1_paths import peel_cond, CFG, single_def
from e7_shapes import Shapes
from report import Check

UNITS = ["src/Basic/VectorHelper.cpp", "src/Matrix/AMatrixDense.cpp", "src/Matrix/AMatrix.cpp", "src/Matrix/MatrixRectangular.cpp",
         "src/Matrix/MatrixSquareSymmetric.cpp", "src/Matrix/MatrixSquareGeneral.cpp", "src/Matrix/AMatrixSquare.cpp",
         "src/LinearOp/CholeskyDense.cpp", "src/Matrix/MatrixSparse.cpp"]
# kernels that are only meaningful for a square matrix (the caller checks isSquare first): R == C is their precondition
SQUARE_ONLY = {"AMatrixDense::_invert": "AMatrix::invert() calls it only when isSquare()",
               "MatrixSparse::prodNormDiagVecInPlace": "D M D with D = diag(vec) of the size of the matrix: defined for a square matrix only (the size test on `vec` precedes)",
               "AMatrixDense::_solve": "AMatrix::solve() calls it only when isSquare()",
               "AMatrixDense::_computeEigen": "eigen decomposition of a square matrix",
               "AMatrixDense::_computeGeneralizedEigen": "eigen decomposition of a square matrix",
               "AMatrixDense::setDiagonal": "defined for square matrices (the generic sibling tests isSquare)",
               "AMatrixDense::setDiagonalToConstant": "defined for square matrices",
               "AMatrixDense::addScalarDiag": "defined for square matrices"}


class UF:
    def __init__(self):
        self.p = {}

    def find(self, x):
        self.p.setdefault(x, x)
        while self.p[x] != x:
            self.p[x] = self.p[self.p[x]]
            x = self.p[x]
        return x

    def union(self, a, b):
        self.p[self.find(a)] = self.find(b)


def sibling_length_test(prog, short, nparams, vec_name):
    """which dimension the generic AMatrix::<short> tests the vector parameter against: 'R', 'C' or None"""
    g = prog.method_impl("AMatrix", short, nparams)
    if g is None or g.cls != "AMatrix":
        return None
    for n in g.walk():
        if n["k"] == "BinOp" and n.get("op") in ("!=", "=="):
            txt = show(n)
            if vec_name + ".size()" in txt or "size()" in txt:
                if "_nRows" in txt or "getNRows" in txt:
                    return "R"
                if "_nCols" in txt or "getNCols" in txt:
                    return "C"
    return None


def rule_a(prog, chk):
    n = 0
    for f in sorted(prog.funcs, key=lambda x: (x.file, x.line)):
        if f.cls not in ("AMatrixDense", "MatrixSparse") or f.body is None or f.kind != "method":
            continue
        # sparse storage: the product kernels only (their Eigen branch uses the same `_eigenMatrix` idiom as the dense class)
        if f.cls == "MatrixSparse" and "prod" not in f.short.lower():
            continue
        uses = any(x["k"] == "MemberExpr" and x["n"] == "_eigenMatrix" for x in f.walk())
        if not uses:
            continue
        chk.analysed(f)
        bools = [p for p in f.params if p["t"] == "bool"]
        assumes = [{}]
        for p in bools:
            assumes = [dict(list(a.items()) + [(p["d"], v)]) for a in assumes for v in (True, False)]
        for a in assumes:
            sh = Shapes(f, a).run()
            uf = UF()
            for x, y, node, why in sh.cons:
                if isinstance(x, int) and isinstance(y, int):
                    continue
                uf.union(str(x), str(y))
            # vector length claims made by Eigen::Map declarations
            claims = {}
            for note in sh.notes:
                if note[0] == "map" and isinstance(note[3], (str, int)):
                    src = note[2]
                    # Map(<vec>.data(), n): the vector mapped
                    v = None
                    for xx in walk(src):
                        if xx["k"] == "DeclRefExpr" and xx.get("dk") == "parm":
                            v = xx["n"]
                    if v:
                        claims[v] = str(note[3])
                        uf.union("L_" + v, str(note[3]))
            label = ", ".join("%s=%s" % ([p["n"] for p in bools if p["d"] == d][0], v) for d, v in a.items())
            n += 1
            square = uf.find("R") == uf.find("C")
            # a matrix dimension forced to 1 (a column vector used where a matrix is meant)
            ones = [x for x in list(uf.p) if re.match(r"^[RC](_|$)", x) and uf.find(x) == uf.find("1")] if "1" in uf.p else []
            if ones and f.name not in SQUARE_ONLY:
                n += 1
                culp = [(node, why) for x, y, node, why in sh.cons if "1" in (str(x), str(y))]
                chk.ob("C11a", "%s%s: no matrix dimension is forced to 1" % (f.sig(), " [" + label + "]" if label else ""),
                       f.loc(culp[0][0]) if culp else f.loc(), False,
                       detail="the expression is only conformant when %s == 1 (%s): a column vector is multiplied where a diagonal matrix "
                       "is meant" % (ones[0], culp[0][1] if culp else "?"),
                       key="C11a|%s/%d|%s|dim1" % (f.name, len(f.params), label))
            if f.name in SQUARE_ONLY:
                chk.ob("C11a", "%s%s: square-only kernel (%s)" % (f.sig(), " [" + label + "]" if label else "", SQUARE_ONLY[f.name]), f.loc(), True,
                       key="C11a|%s/%d|%s" % (f.name, len(f.params), label), nontrivial=False)
            else:
                culprit = None
                if square:
                    # find a constraint responsible
                    for x, y, node, why in sh.cons:
                        culprit = (node, why)
                        uf2 = UF()
                        for x2, y2, n2, w2 in sh.cons:
                            if n2 is node:
                                continue
                            uf2.union(str(x2), str(y2))
                        for v, cl in claims.items():
                            uf2.union("L_" + v, cl)
                        if uf2.find("R") != uf2.find("C"):
                            break
                chk.ob("C11a", "%s%s: every Eigen product / sum / fixed-size assignment is conformant for any R x C" % (
                           f.sig(), " [" + label + "]" if label else ""), f.loc(culprit[0]) if culprit else f.loc(), not square,
                       detail=None if not square else "the kernel is only conformant when the number of rows equals the number of columns (%s): "
                       "on a rectangular matrix Eigen reads outside the mapped vector / matrix" % (culprit[1] if culprit else "?"),
                       key="C11a|%s/%d|%s" % (f.name, len(f.params), label))
            # sibling agreement on the vector length
            for v, cl in claims.items():
                want = sibling_length_test(prog, f.short, len(f.params), v)
                if want is None or cl not in ("R", "C"):
                    continue
                n += 1
                ok = (cl == want)
                chk.ob("C11a", "%s%s: vector `%s` is mapped with the length its generic sibling AMatrix::%s tests (%s)" % (
                           f.sig(), " [" + label + "]" if label else "", v, f.short, "rows" if want == "R" else "columns"), f.loc(), ok,
                       detail=None if ok else "the generic implementation requires %s.size() == number of %s, the dense kernel maps it with the "
                       "number of %s" % (v, "rows" if want == "R" else "columns", "rows" if cl == "R" else "columns"),
                       key="C11a|%s/%d|%s|len(%s)" % (f.name, len(f.params), label, v))
    chk.floor("C11a", n, 40)


def rule_b(prog, wprog, chk):
    """extremum sentinels"""
    n = 0
    for f in sorted(prog.funcs + wprog.funcs, key=lambda x: (x.file, x.line, x.name)):
        if f.body is None:
            continue
        for v in f.walk():
            if v["k"] != "VarDecl" or not v.get("c"):
                continue
            init = v["c"][0]
            if init is None or init["k"] != "Call":
                continue
            cal = init.get("callee") or ""
            m = re.match(r"std::numeric_limits<(.*)>::(min|max|lowest)$", cal)
            if not m:
                continue
            T, which = m.group(1), m.group(2)
            # how is the variable updated: `if (x > v) v = x` (maximum search) or `<` (minimum search)
            mode = None
            for a in f.walk():
                if a["k"] == "If":
                    cond = [x for x in a["c"][:-2] if x is not None][-1]
                    core, pol = peel_cond(cond)
                    if core is not None and core["k"] == "BinOp" and core.get("op") in ("<", ">", "<=", ">="):
                        l, r = core["c"]
                        assigns = [x for x in walk(a["c"][-2]) if x["k"] == "Assign" and x["c"][0] is not None and x["c"][0].get("d") == v["d"]]
                        if not assigns:
                            continue
                        if r is not None and r.get("d") == v["d"]:
                            mode = "max" if core["op"] in (">", ">=") else "min"
                        elif l is not None and l.get("d") == v["d"]:
                            mode = "max" if core["op"] in ("<", "<=") else "min"
            if mode is None:
                continue
            n += 1
            chk.analysed(f)
            floating = T in ("double", "float", "long double")
            bad = (mode == "max" and which == "min" and floating) or (mode == "min" and which in ("min", "lowest")) or \
                  (mode == "max" and which == "max")
            fkey = re.sub(r"<.*?>::", "::", f.name)
            chk.ob("C11b", "%s: %s search starts from a value no element can beat wrongly (numeric_limits<%s>::%s())" % (f.name, mode + "imum", T, which),
                   f.loc(v), not bad,
                   detail=None if not bad else "numeric_limits<%s>::%s() is %s: the %simum of a vector whose elements are all %s is wrong" % (
                       T, which, "the smallest POSITIVE value, not the most negative one" if which == "min" else "not a neutral start",
                       mode, "negative" if mode == "max" else "large"),
                   key="C11b|%s|%s" % (fkey, mode))
    chk.floor("C11b", n, 2)


def omp_rule(prog, chk, control_only=False):
    """unsynchronised shared writes in OpenMP regions"""
    nreg = 0
    for f in sorted(prog.funcs, key=lambda x: (x.file, x.line)):
        for r in f.walk():
            if r["k"] != "OMP" or "Parallel" not in r.get("dir", ""):
                continue
            nreg += 1
            body = (r.get("c") or [None])[0]
            safe = set()
            for cl in r.get("clauses", []):
                if cl["kind"] in ("private", "firstprivate", "lastprivate", "reduction", "linear"):
                    safe |= {v["d"] for v in cl["vars"]}
            local = {x["d"] for x in walk(body) if x["k"] == "VarDecl"}
            loopvars = set()
            for x in walk(body):
                if x["k"] == "For" and x["c"][0] is not None:
                    for y in walk(x["c"][0]):
                        if y["k"] == "VarDecl":
                            loopvars.add(y["d"])
                        if y["k"] == "Assign" and y["c"][0] is not None and y["c"][0]["k"] == "DeclRefExpr":
                            loopvars.add(y["c"][0]["d"])
            racy = []
            for x in walk(body):
                tgt = None
                if x["k"] in ("Assign",) or (x["k"] == "OpCall" and x.get("op") in ("=", "+=", "-=", "*=", "/=")):
                    tgt = x["c"][0]
                elif x["k"] == "UnOp" and x.get("op") in ("++", "--", "post++", "post--"):
                    tgt = x["c"][0]
                if tgt is None:
                    continue
                if tgt["k"] == "DeclRefExpr":
                    if tgt["d"] in local or tgt["d"] in safe or tgt["d"] in loopvars:
                        continue
                    racy.append(x)
                elif tgt["k"] in ("Index", "OpCall") and len(tgt.get("c") or []) == 2:
                    idx = tgt["c"][1]
                    ivars = {y["d"] for y in walk(idx) if y["k"] == "DeclRefExpr"}
                    if ivars & (loopvars | local):
                        continue
                    racy.append(x)
                elif tgt["k"] == "MemberExpr":
                    racy.append(x)
            ok = not racy
            chk.ob("C11c", "%s: OpenMP region at line %s writes only private / reduction / loop-indexed data" % (f.name, r.get("l")), f.loc(r), ok,
                   detail=None if ok else "unsynchronised write to shared `%s` inside the parallel region: the result depends on the thread "
                   "schedule" % show(racy[0]["c"][0])[:40],
                   key="C11c|%s|%s" % (f.name, show(racy[0]["c"][0])[:30] if racy else "clean"))
    return nreg


ACCESSORS = {"getValue": (0, 1), "setValue": (0, 1), "_getValue": (0, 1), "_setValue": (0, 1), "addValue": (0, 1), "updValue": (1, 2),
             "_isPhysicallyPresent": (0, 1), "_isIndexValid": (0, 1), "isValid": (0, 1)}


def _strip(n):
    while n is not None and n["k"] == "Cast":
        n = n["c"][0]
    return n


def _recv(c):
    o = call_obj(c)
    if o is None or o["k"] == "This":
        return "this"
    return show(o)


class Ranges:
    """symbolic range of int expressions: ('rows'|'cols', receiver) when the value is known to lie in 0..dim-1"""
    def __init__(self, f):
        self.f = f
        self.lb = {}
        for loop in f.walk():
            if loop["k"] == "For" and loop["c"][1] is not None:
                c = _strip(loop["c"][1])
                if c["k"] == "BinOp" and c.get("op") == "<" and _strip(c["c"][0]) is not None and _strip(c["c"][0])["k"] == "DeclRefExpr":
                    self.lb.setdefault(_strip(c["c"][0])["d"], []).append(c["c"][1])
        # assignments to local vectors
        self.vdefs = {}
        for x in f.walk():
            if x["k"] == "VarDecl" and x.get("c") and "Vector" in (x.get("t") or ""):
                self.vdefs.setdefault(x["d"], []).append(x["c"][0])
            elif x["k"] in ("Assign", "OpCall") and x.get("op") == "=" and len(x.get("c") or []) == 2:
                l = _strip(x["c"][0])
                if l is not None and l["k"] == "DeclRefExpr" and l.get("dk") == "var" and "Vector" in (l.get("t") or ""):
                    self.vdefs.setdefault(l["d"], []).append(x["c"][1])

    def dimsym(self, e, depth=0):
        e = _strip(e)
        if e is None or depth > 4:
            return None
        if e["k"] == "MCall":
            s = (e.get("callee") or "").split("::")[-1]
            if s in ("getNRows", "getNCols"):
                return ("rows" if s == "getNRows" else "cols", _recv(e))
        if e["k"] == "DeclRefExpr" and e.get("dk") == "var":
            d = single_def(self.f, e["d"])
            if d is not None and d is not e:
                return self.dimsym(d, depth + 1)
        if e["k"] == "MemberExpr" and e.get("mk") == "field" and e["n"] in ("_nRows", "_nCols"):
            b = (e.get("c") or [None])[0]
            return ("rows" if e["n"] == "_nRows" else "cols", "this" if (b is None or b["k"] == "This") else show(b))
        return None

    def elems(self, e, depth=0):
        """set of range symbols of the ELEMENTS of a vector-valued expression (None entries = unknown)"""
        e = _strip(e)
        if e is None or depth > 4:
            return {None}
        while e["k"] in ("Construct", "Temp", "Bind") and len(e.get("c") or []) == 1:
            e = _strip(e["c"][0])
            if e is None:
                return {None}
        if e["k"] in ("Call", "MCall") and e.get("callee"):
            s = e["callee"].split("::")[-1]
            a = call_args(e)
            if s == "sequence" and a and "VectorHelper" in e["callee"]:
                # VH::sequence(n [, ideb]) : 0..n-1 when ideb is absent / 0
                if len(a) < 2 or a[1] is None or a[1]["k"] == "DefaultArg" or (a[1]["k"] == "Int" and a[1]["v"] == 0):
                    return {self.dimsym(a[0])}
            if s == "complement" and a:
                return self.elems(a[0], depth + 1)
            return {None}
        if e["k"] == "DeclRefExpr" and e.get("dk") == "var" and e["d"] in self.vdefs:
            out = set()
            for d in self.vdefs[e["d"]]:
                ds = _strip(d)
                # `v = f(.., v)` : the self reference adds nothing
                out |= self.elems(d, depth + 1) if not (ds is not None and ds["k"] == "DeclRefExpr" and ds.get("d") == e["d"]) else set()
            return out or {None}
        return {None}

    def rng(self, e):
        e = _strip(e)
        if e is None:
            return set()
        if e["k"] == "DeclRefExpr" and e.get("d") in self.lb:
            return {self.dimsym(b) for b in self.lb[e["d"]]} - {None}
        if e["k"] in ("OpCall", "Index") and len(e.get("c") or []) == 2 and (e["k"] == "Index" or e.get("op") == "[]"):
            return self.elems(e["c"][0]) - {None}
        return set()


def rule_d(prog, chk):
    """C11d: element access M(r, c): an index that is known to range over the COLUMN count of M is not used as its row
    index (and conversely) unless M is square on every path (class derived from AMatrixSquare, or guarded by isSquare())"""
    n = nk = 0
    for f in sorted(prog.funcs, key=lambda x: (x.file, x.line)):
        if f.body is None or f.cfg is None:
            continue
        R = None
        g = None
        ordn = {}
        for c in f.calls():
            s = (c.get("callee") or "").split("::")[-1]
            if c["k"] != "MCall" or s not in ACCESSORS or "Matrix" not in (c.get("cls") or ""):
                continue
            a = call_args(c)
            ri, ci = ACCESSORS[s]
            if len(a) <= ci:
                continue
            if R is None:
                R = Ranges(f)
            M = _recv(c)
            rr, cc = R.rng(a[ri]), R.rng(a[ci])
            n += 1
            if rr or cc:
                nk += 1
            wrong = [("row", x) for x in rr if x == ("cols", M)] + [("column", x) for x in cc if x == ("rows", M)]
            key = "C11d|%s/%d|%s(%s,%s)" % (f.name, len(f.params), s, show(a[ri])[:15], show(a[ci])[:15])
            ordn[key] = ordn.get(key, 0) + 1
            key += "#%d" % ordn[key]
            if not wrong:
                chk.ob("C11d", "%s: %s on %s uses row / column indexes of the matching dimension" % (f.name, show(c)[:45], M), f.loc(c), True,
                       key=key, nontrivial=bool(rr or cc))
                continue
            chk.analysed(f)
            # square receiver ?
            o = call_obj(c)
            cls = re.sub(r"^(const )?(class )?|[ *&]+$|\bconst\b", "", (o.get("t") if o is not None else "") or "").strip() or (c.get("cls") or "")
            square = cls == "AMatrixSquare" or "AMatrixSquare" in prog.bases(cls) or (M == "this" and f.cls and (f.cls == "AMatrixSquare" or "AMatrixSquare" in prog.bases(f.cls)))
            wit = None
            if not square:
                if g is None:
                    g = CFG(f)

                def eo(blk, k, s_, M=M):
                    cnd = g.cond(blk["b"])
                    if cnd is None or len(blk["s"]) != 2:
                        return True
                    core, pol = peel_cond(cnd)
                    core = _strip(core)
                    if core is not None and core["k"] == "MCall" and (core.get("callee") or "").split("::")[-1] == "isSquare" and _recv(core) == M:
                        return not (((k == 0) == pol) is True)       # the edge on which isSquare() holds establishes R == C
                    return True
                wit = g.search(g.entry_pos(), is_target=lambda y, c=c: y["i"] == c["i"], edge_ok=eo) if g.pos_of(c) else None
                square = wit is None and g.pos_of(c) is not None
            what, sym = wrong[0]
            chk.ob("C11d", "%s: %s on %s: the %s index ranges over the %s count, allowed only for a square matrix" % (
                       f.name, show(c)[:45], M, what, "column" if sym[0] == "cols" else "row"), f.loc(c), square,
                   detail=None if square else "the %s index of this access ranges over 0..%s(%s)-1: for a rectangular matrix it addresses "
                   "elements outside the matrix or the transposed ones" % (what, "ncols" if sym[0] == "cols" else "nrows", M),
                   key=key, path=None if square or wit is None else g.describe(wit))
    chk.floor("C11d", n, 150)
    chk.floor("C11d-ranged", nk, 80)


def main(tier):
    chk = Check("C11", tier,
                "Static shape typing of the Eigen kernels of the dense matrix class: (rows x cols) of every Eigen expression is inferred "
                "symbolically (R, C of this, lengths of mapped vectors) and every product / sum / fixed-size assignment must be conformant "
                "for arbitrary R and C, with the mapped vector length agreeing with the generic AMatrix sibling; extremum searches must "
                "not start from numeric_limits<floating>::min(); OpenMP regions must not write shared data unsynchronised. Numerical "
                "correctness of any operation, sparse back-ends and decompositions are NOT decided.")
    units = [os.path.join(REPO, u) for u in UNITS]
    if tier == "thorough":
        units = facts.all_units()
    d = extract(units, "C11-" + tier)
    prog = Program().load_dir(d)
    dw = extract([os.path.join(facts.WITNESS, "templates_inst.cpp")], "C11w-" + tier, headers=True)
    wprog = Program().load_dir(dw)
    chk.units = list(prog.units) + list(wprog.units)
    rule_a(prog, chk)
    rule_b(prog, wprog, chk)
    nreg = omp_rule(prog, chk)
    chk.extra["openmp_parallel_regions_in_analysed_units"] = nreg
    # positive control for the zero-instance OpenMP rule
    dc = extract([os.path.join(facts.WITNESS, "omp_control.cpp")], "C11c-" + tier)
    cprog = Program().load_dir(dc)
    ctrl = Check("C11-control", tier, "positive control")
    nctl = omp_rule(cprog, ctrl)
    flagged = [o for o in ctrl.obs if o["verdict"] == "violation"]
    clean = [o for o in ctrl.obs if o["verdict"] == "ok"]
    rule_d(prog, chk)
    # C11e: the two copy operations of the matrix / vector classes carry the same members (copyrule.py); the sparse class
    # keeps its back-end flag next to two storages, so a member left behind changes every later operation
    import copyrule
    extra = [os.path.join(REPO, "src/Matrix", x) for x in sorted(os.listdir(os.path.join(REPO, "src/Matrix"))) if x.endswith(".cpp")]
    extra = [u for u in extra if u not in units]
    mprog = Program().load_dir(extract(extra, "C11m-" + tier)) if extra else Program()
    mprog.load_dir(d)
    dh, excluded = facts.extract_headers("C11h-" + tier)
    mprog.load_dir(dh)
    chk.units += [u for u in mprog.units if u not in chk.units]
    ne = copyrule.copy_agreement(mprog, chk, "C11e", classes=[c for c in mprog.classes if re.match(r"(A?Matrix|Vector|Cholesky|Table|NF_Triplet)", c)])
    chk.floor("C11e", ne, 25)
    import c11_gating
    c11_gating.rule_f(prog, chk, ["src/Basic/VectorHelper.cpp"], 8)
    import c11_more
    uprog = Program().load_dir(extract([os.path.join(REPO, "src/Matrix/MatrixFactory.cpp")], "C11u-" + tier))
    uprog.load_dir(d)
    chk.units += [u for u in uprog.units if u not in chk.units]
    c11_more.rule_k(prog, chk)
    c11_more.rule_m(prog, chk)
    c11_more.rule_n(prog, chk)
    c11_more.rule_s(prog, chk)
    c11_more.rule_q(prog, chk)
    c11_more.rule_o(prog, chk)
    c11_more.rule_r(prog, chk)
    c11_more.rule_t(mprog, chk)
    c11_more.rule_u(uprog, chk)
    chk.ob("C11c", "positive control: the racy region of witness/omp_control.cpp is flagged and the reduction region is not",
           "witness/omp_control.cpp", nctl == 2 and len(flagged) == 1 and len(clean) == 1,
           detail="the OpenMP rule no longer recognises its control unit (regions=%d, flagged=%d)" % (nctl, len(flagged)),
           key="C11c|control")
    return chk.finish()
