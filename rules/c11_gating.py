"""C11f - a ratio of two accumulators counts the same elements in both.  In a reduction that skips undefined elements
(`if (FFFF(v)) continue;`), the numerator (sum, sum of squares ...) and the denominator (count, sum of weights) of the
final quotient must be updated under the same skip tests: a counter incremented before the test divides the sum of the
defined values by the number of ALL values."""
import re

from e1_paths import CFG, peel_cond
from facts import call_args, show, walk

UNDEF_TESTS = ("FFFF", "IFFFF")


def _strip(n):
    while n is not None and n["k"] == "Cast":
        n = n["c"][0]
    return n


def _var(n):
    n = _strip(n)
    if n is not None and n["k"] == "DeclRefExpr" and n.get("dk") in ("var", "parm"):
        return n["d"]
    return None


def rule_f(prog, chk, unit_suffixes, floor_n):
    n = 0
    for f in sorted(prog.funcs, key=lambda x: (x.file, x.line)):
        if f.cfg is None or not any(f.file.endswith(s) for s in unit_suffixes):
            continue
        # accumulator updates
        upd = {}
        for x in f.walk():
            d = None
            if x["k"] == "Assign" and x.get("op") in ("+=", "-=", "*="):
                d = _var(x["c"][0])
            elif x["k"] == "UnOp" and (x.get("op") or "").replace("post", "").replace("pre", "") in ("++", "--"):
                d = _var(x["c"][0])
            if d is not None and any(a["k"] in ("For", "While", "ForRange", "Do") for a in f.ancestors(x)):
                upd.setdefault(d, []).append(x)       # accumulation inside a loop (a normalisation after the loop is not one)
        if len(upd) < 2:
            continue
        g = CFG(f)
        # undefined-value tests: blocks whose deciding condition is FFFF(e) / IFFFF(e)
        gates = {}     # shown argument -> [(block, edge index on which the value is DEFINED)]
        for b, blk in g.blocks.items():
            if len(blk["s"]) != 2:
                continue
            c = g.cond(b)
            if c is None:
                continue
            core, pol = peel_cond(c)
            core = _strip(core)
            if core is not None and core["k"] == "Call" and (core.get("callee") or "") in UNDEF_TESTS:
                a = call_args(core)
                # FFFF true on edge 0 when pol: defined edge is the other one
                # the element tested, without the name of the loop index (data[iech] and data[jech] test the same array)
                nm = re.sub(r"\[[^\]]*\]", "[]", show(a[0])) if a else "?"
                gates.setdefault(nm, []).append((b, 1 if pol else 0))
        if not gates:
            continue

        def gateset(node):
            out = set()
            if g.pos_of(node) is None:
                return None
            for name, edges in gates.items():
                es = set(edges)
                w = g.search(g.entry_pos(), is_target=lambda y: y["i"] == node["i"], edge_ok=lambda blk, k, s_: (blk["b"], k) not in es)
                if w is None:
                    out.add(name)
            return out
        seen = set()
        for x in f.walk():
            if not ((x["k"] == "BinOp" and x.get("op") == "/") or (x["k"] == "Assign" and x.get("op") == "/=")):
                continue
            num = [d for y in walk(x["c"][0]) for d in [_var(y)] if d in upd]
            den = [d for y in walk(x["c"][1]) for d in [_var(y)] if d in upd]
            # a gated sum divided by the SIZE of the container (not by a gated count)
            if num and not den and any(y["k"] == "MCall" and (y.get("callee") or "").split("::")[-1] == "size" for y in walk(x["c"][1])):
                ga0 = [gateset(u) for u in upd[num[0]]]
                if ga0 and all(s_ is not None for s_ in ga0) and set.union(*ga0):
                    n += 1
                    chk.analysed(f)
                    na0 = show(upd[num[0]][0]["c"][0])
                    chk.ob("C11f", "%s: the sum `%s` over the defined elements is divided by a count of the same elements" % (f.name, na0), f.loc(x), False,
                           detail="`%s` accumulates the defined elements only (tests {%s}) and is divided by the size of the container: the undefined elements "
                           "count in the divisor" % (na0, ", ".join(sorted(set.union(*ga0)))), key="C11f|%s/%d|%s/size" % (f.name, len(f.params), na0))
                continue
            for a in num[:1]:
                for b in den[:1]:
                    if a == b or (a, b) in seen:
                        continue
                    seen.add((a, b))
                    ga = [gateset(u) for u in upd[a]]
                    gb = [gateset(u) for u in upd[b]]
                    if any(s is None for s in ga + gb):
                        continue
                    n += 1
                    chk.analysed(f)
                    A = set.union(*ga) if ga else set()
                    # every update of the denominator is under the tests of the numerator's updates, and conversely
                    ok = all(s == ga[0] for s in ga) and all(s == ga[0] for s in gb)
                    na, nb = show(upd[a][0]["c"][0]), show(upd[b][0]["c"][0])
                    chk.ob("C11f", "%s: `%s` and `%s` of the quotient `%s` skip the same undefined elements" % (f.name, na, nb, show(x)[:40]),
                           f.loc(x), ok,
                           detail=None if ok else "`%s` is updated under the undefined-value tests {%s}, `%s` under {%s}: the quotient mixes a sum over the "
                           "defined elements with a count over other elements" % (na, ", ".join(sorted(A)) or "none", nb,
                                                                                  ", ".join(sorted(set.union(*gb))) or "none"),
                           key="C11f|%s/%d|%s/%s" % (f.name, len(f.params), na, nb), nontrivial=bool(A))
    chk.floor("C11f", n, floor_n)
