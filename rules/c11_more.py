"""C11 - further structural rules on the vector helper and the sparse matrix class.
 C11k  the output-length argument of each cs product kernel is the dimension of its output (role table).
 C11m  an extremum helper combines with the comparison of its name (`minimum` never takes the larger of two values).
 C11n  a loop that walks raw pointers (`p++` at the end of its body) has no `continue` that skips the advance.
 C11s  the count used to subscript a filtered copy is the size of the copy, not of the vector it was filtered from.
 C11t  `abs` applied to a floating value is a floating overload (the C `int abs(int)` truncates: |x| < 1 compares as 0)."""
from e1_paths import single_def
from facts import call_args, call_obj, show, walk, CALL_KINDS

KERNEL_OUT = {"cs_vector_Mx": "R", "cs_vector_addToDest_Mx": "R", "cs_vector_tMx": "C", "cs_vector_addToDest_tMx": "C",
              "cs_vector_xM": "C", "cs_vector_xtM": "R"}


def _dimkind(f, e, depth=0):
    while e is not None and e["k"] in ("Cast", "Paren"):
        e = e["c"][0]
    if e is None or depth > 3:
        return None
    if e["k"] == "MCall":
        short = (e.get("callee") or "").split("::")[-1]
        o = call_obj(e)
        if o is None or o["k"] == "This":
            if short == "getNRows":
                return "R"
            if short == "getNCols":
                return "C"
    if e["k"] == "MemberExpr" and e.get("n") in ("_nRows", "_nCols"):
        return "R" if e["n"] == "_nRows" else "C"
    if e["k"] == "DeclRefExpr" and e.get("dk") == "var":
        d = single_def(f, e["d"])
        if d is not None and d is not e:
            return _dimkind(f, d, depth + 1)
    return None


def rule_k(prog, chk):
    n = 0
    for f in sorted(prog.funcs, key=lambda x: (x.file, x.line)):
        if f.body is None or f.cls != "MatrixSparse":
            continue
        for c in f.calls():
            cal = (c.get("callee") or "").split("::")[-1]
            if cal not in KERNEL_OUT:
                continue
            a = call_args(c)
            if len(a) < 2 or a[0] is None or "_csMatrix" not in show(a[0]):
                continue
            got = _dimkind(f, a[1])
            if got is None:
                continue
            n += 1
            want = KERNEL_OUT[cal]
            ok = got == want
            chk.analysed(f)
            chk.ob("C11k", "%s: the output length handed to %s is the number of %s" % (f.name, cal, "rows" if want == "R" else "columns"), f.loc(c), ok,
                   detail=None if ok else "%s writes (and first clears) `nout` terms of its output, which has one term per %s of the matrix; it receives the number of %s: "
                   "on a non-square matrix the result is truncated or the kernel writes past the end of the output" % (
                       cal, "row" if want == "R" else "column", "rows" if got == "R" else "columns"),
                   key="C11k|%s|%s" % (f.name, cal))
    chk.floor("C11k", n, 8)


def rule_m(prog, chk):
    n = 0
    for f in sorted(prog.funcs, key=lambda x: (x.file, x.line)):
        if f.body is None or f.cls != "VectorHelper" or f.short not in ("minimum", "maximum"):
            continue
        want = "min" if f.short == "minimum" else "max"
        for x in f.walk():
            got = None
            if x["k"] == "Cond" and x["c"][0] is not None:
                c = x["c"][0]
                while c is not None and c["k"] in ("Cast", "Paren"):
                    c = c["c"][0]
                if c is not None and c["k"] == "BinOp" and c.get("op") in ("<", "<=", ">", ">="):
                    l, r = show(c["c"][0]), show(c["c"][1])
                    t = show(x["c"][1])
                    if t in (l, r):
                        picks_left = t == l
                        less = c["op"] in ("<", "<=")
                        got = "min" if (picks_left == less) else "max"
            elif x["k"] == "If" and x["c"][-3] is not None and x["c"][-1] is None:
                c = x["c"][-3]
                while c is not None and c["k"] in ("Cast", "Paren"):
                    c = c["c"][0]
                th = x["c"][-2]
                if c is not None and c["k"] == "BinOp" and c.get("op") in ("<", "<=", ">", ">=") and th is not None:
                    asg = th if th["k"] == "Assign" else (th["c"][0] if th["k"] == "Block" and len(th["c"]) == 1 and th["c"][0] is not None else None)
                    if asg is not None and asg["k"] == "Assign" and asg.get("op") == "=":
                        l, r = show(c["c"][0]), show(c["c"][1])
                        tgt, val = show(asg["c"][0]), show(asg["c"][1])
                        if tgt in (l, r) and val in (l, r) and tgt != val:
                            # `if (v < m) m = v` keeps the smaller
                            val_left = val == l
                            less = c["op"] in ("<", "<=")
                            got = "min" if (val_left == less) else "max"
            if got is None:
                continue
            n += 1
            ok = got == want
            chk.analysed(f)
            chk.ob("C11m", "%s: combines with the comparison of its name" % f.sig(), f.loc(x), ok,
                   detail=None if ok else "`%s` keeps the %s of the two values inside a function that returns the %s" % (
                       show(x)[:60], "larger" if got == "max" else "smaller", "minimum" if want == "min" else "maximum"),
                   key="C11m|%s|%d" % (f.sig(), n))
    chk.floor("C11m", n, 6)


def rule_n(prog, chk, file_suffix="src/Basic/VectorHelper.cpp"):
    n = 0
    for f in sorted(prog.funcs, key=lambda x: (x.file, x.line)):
        if f.body is None or not f.file.endswith(file_suffix):
            continue
        for L in f.walk():
            if L["k"] not in ("For", "While", "ForRange") or L["c"][-1] is None:
                continue
            body = L["c"][-1]
            stmts = body["c"] if body["k"] == "Block" else [body]
            adv = [i for i, st in enumerate(stmts) if st is not None and st["k"] == "UnOp" and (st.get("op") or "").replace("post", "") == "++" and
                   st["c"][0] is not None and st["c"][0]["k"] == "DeclRefExpr" and "*" in (st["c"][0].get("t") or "")]
            if not adv:
                continue
            first = adv[0]
            n += 1
            skip = None
            for st in stmts[:first]:
                if st is None:
                    continue
                for y in walk(st):
                    if y["k"] == "Continue":
                        # a continue nested in an inner loop does not leave this body
                        inner = False
                        for a in f.ancestors(y):
                            if a is L:
                                break
                            if a["k"] in ("For", "While", "ForRange", "Do"):
                                inner = True
                        if not inner:
                            skip = y
            ok = skip is None
            chk.analysed(f)
            chk.ob("C11n", "%s: no `continue` skips the advance of the pointers walked by the loop" % f.sig(), f.loc(L), ok,
                   detail=None if ok else "the loop advances `%s` at the end of its body and a `continue` (line %s) leaves the iteration before: every following "
                   "element is read one position too early" % (show(stmts[first]["c"][0]), f.loc(skip).split(":")[-1]),
                   key="C11n|%s|%s" % (f.sig(), show(stmts[first]["c"][0])))
    chk.floor("C11n", n, 5)


def rule_s(prog, chk, file_suffix="src/Basic/VectorHelper.cpp"):
    n = 0
    for f in sorted(prog.funcs, key=lambda x: (x.file, x.line)):
        if f.body is None or not f.file.endswith(file_suffix):
            continue
        # filtered copies: local vectors filled by push_back under an `if`
        copies = {}
        for x in f.walk():
            if x["k"] == "MCall" and (x.get("callee") or "").split("::")[-1] == "push_back":
                o = call_obj(x)
                if o is not None and o["k"] == "DeclRefExpr" and o.get("dk") == "var" and any(a["k"] == "If" for a in f.ancestors(x)):
                    copies[o["d"]] = o["n"]
        if not copies:
            continue

        def size_owner(e, depth=0):
            while e is not None and e["k"] in ("Cast", "Paren"):
                e = e["c"][0]
            if e is None or depth > 3:
                return None
            if e["k"] == "MCall" and (e.get("callee") or "").split("::")[-1] == "size":
                o = call_obj(e)
                return (o.get("d"), o.get("n")) if o is not None and o["k"] == "DeclRefExpr" else None
            if e["k"] == "BinOp" and e.get("op") in ("/", "-", "+", "*"):
                return size_owner(e["c"][0], depth + 1) or size_owner(e["c"][1], depth + 1)
            if e["k"] == "DeclRefExpr" and e.get("dk") == "var":
                d = single_def(f, e["d"])
                if d is not None and d is not e:
                    return size_owner(d, depth + 1)
            return None
        for x in f.walk():
            if not (x["k"] == "Index" or (x["k"] == "OpCall" and x.get("op") == "[]")):
                continue
            b = x["c"][0]
            if b is None or b["k"] != "DeclRefExpr" or b.get("d") not in copies:
                continue
            own = size_owner(x["c"][1])
            if own is None:
                continue
            n += 1
            ok = own[0] == b["d"]
            chk.analysed(f)
            chk.ob("C11s", "%s: `%s` is subscripted with a count of its own elements" % (f.sig(), show(x)[:30]), f.loc(x), ok,
                   detail=None if ok else "`%s` is a filtered copy (the undefined values were left out) and the subscript derives from `%s.size()`: with undefined "
                   "values the element picked is not the one meant, or lies past the end" % (b["n"], own[1]),
                   key="C11s|%s|%s" % (f.sig(), show(x)[:30]))
    chk.floor("C11s", n, 2)


def rule_t(prog, chk):
    """every call of an `abs` whose resolved signature is the C `int abs(int)` receives an integer argument"""
    n = 0
    for f in sorted(prog.funcs, key=lambda x: (x.file, x.line)):
        if f.body is None:
            continue
        for c in f.calls():
            if c["k"] != "Call" or (c.get("callee") or "") not in ("abs", "std::abs", "labs"):
                continue
            a = call_args(c)
            if not a or a[0] is None:
                continue
            sig = (c.get("sig") or "").strip()
            arg = a[0]
            # the type of the argument BEFORE the implicit conversion to the parameter type
            inner = arg
            while inner is not None and inner["k"] == "Cast":
                inner = inner["c"][0]
            at = (inner.get("t") or "") if inner is not None else ""
            n += 1
            bad = sig in ("int", "long") and any(t_ in at for t_ in ("double", "float"))
            if bad:
                chk.analysed(f)
            chk.ob("C11t", "%s: `%s` resolves to an overload of the type of its argument" % (f.name, show(c)[:40]), f.loc(c), not bad,
                   detail=None if not bad else "the call resolves to `int abs(int)` and its argument is a %s: the value is truncated to an integer before the absolute "
                   "value is taken (every difference smaller than 1 compares as 0)" % at,
                   key="C11t|%s|%s" % (f.name, show(c)[:40]), nontrivial=bad)
    chk.floor("C11t", n, 1)


def rule_u(prog, chk):
    """C11u - the back-end of a sparse result is given where the constructor expects it.  MatrixSparse(nrow, ncol, opt_eigen): a value
    derived from `isFlagEigen()` of an operand is a back-end selector and goes to the third parameter; in first position it is taken as
    a number of rows and the result silently gets the global default back-end (a product of two cs matrices stored where the Eigen
    accessors do not look: the result reads back as zeros)."""
    n = 0
    for f in sorted(prog.funcs, key=lambda x: (x.file, x.line)):
        if f.body is None:
            continue
        for c in f.walk():
            if c["k"] != "Construct" or "MatrixSparse" not in (c.get("t") or c.get("callee") or ""):
                continue
            a = call_args(c)
            pos = [i for i, x in enumerate(a) if x is not None and any(y["k"] == "MCall" and (y.get("callee") or "").endswith("isFlagEigen") for y in walk(x))]
            if not pos:
                continue
            n += 1
            ok = pos == [2]
            chk.analysed(f)
            chk.ob("C11u", "%s: the back-end selector of the new sparse matrix is its third constructor argument" % f.name, f.loc(c), ok,
                   detail=None if ok else "`%s` is argument #%d of MatrixSparse(nrow, ncol, opt_eigen): it is taken as a dimension and the back-end of the result is the "
                   "global default, not the one of the operands" % (show(a[pos[0]])[:40], pos[0] + 1), key="C11u|%s|%d" % (f.name, n))
    chk.floor("C11u", n, 4)


def rule_q(prog, chk):
    """C11q - order statistics are taken on the defined values.  In the reductions of VectorHelper a vector PARAMETER is never handed to
    `sort` directly: the undefined values (1.234e30) would be sorted with the data and picked as the upper quantiles; what is sorted is a
    local copy filled under an FFFF test (median, quantiles)."""
    n = 0
    for f in sorted(prog.funcs, key=lambda x: (x.file, x.line)):
        if f.body is None or f.cls != "VectorHelper" or f.short in ("sort", "sortInPlace", "unique", "orderRanks", "sortRanks", "arrangeInPlace", "isSorted"):
            continue
        if not f.ret.replace("const ", "").startswith(("double", "VectorDouble")):
            continue
        pd = {p_["d"]: p_["n"] for p_ in f.params if "VectorDouble" in p_["t"]}
        if not pd:
            continue
        for c in f.calls():
            if (c.get("callee") or "").split("::")[-1] not in ("sort", "sortInPlace"):
                continue
            a = call_args(c)
            if not a or a[0] is None:
                continue
            x = a[0]
            while x["k"] == "Cast":
                x = x["c"][0]
            n += 1
            bad = x["k"] == "DeclRefExpr" and x.get("d") in pd
            if not bad and x["k"] == "DeclRefExpr":
                # the sorted local must have been filled under a definedness test
                filled = any(y["k"] == "MCall" and (y.get("callee") or "").split("::")[-1] == "push_back" and call_obj(y) is not None and call_obj(y).get("d") == x.get("d") and
                             any(a_["k"] == "If" and any(z["k"] == "Call" and (z.get("callee") or "") in ("FFFF", "IFFFF") for z in walk(a_["c"][-3])) for a_ in f.ancestors(y))
                             for y in f.walk())
                bad = not filled
            chk.analysed(f)
            chk.ob("C11q", "%s: what is sorted holds the defined values only" % f.sig(), f.loc(c), not bad,
                   detail=None if not bad else "`%s` is sorted as it is: undefined values (1.234e30) sort as the largest data and are returned as upper quantiles" % show(x),
                   key="C11q|%s" % f.sig())
    chk.floor("C11q", n, 2)


def rule_o(prog, chk):
    """C11o - an overload that works row by row hands its options to every row.  When a function with a bool parameter `b` calls a
    same-named overload that also has a bool parameter `b`, the argument is `b` itself - for EVERY call (the first row computed
    outside the loop included): `VH::maximum(vec[0])` next to `VH::maximum(vec[i], flagAbs)` takes the first row without the option."""
    def strip(e):
        while e is not None and e["k"] in ("Cast", "Paren") and e.get("c"):
            e = e["c"][0]
        return e
    n = 0
    for f in sorted(prog.funcs, key=lambda x: (x.file, x.line)):
        if f.body is None:
            continue
        bools = {p_["n"]: p_["d"] for p_ in f.params if p_["t"].strip() in ("bool", "const bool")}
        if not bools:
            continue
        for c in f.calls():
            if c.get("callee") != f.name:
                continue
            cal = [g for g in prog.fns(c.get("callee")) if len(g.params) == len(call_args(c)) and g.usr != f.usr]
            if not cal:
                continue
            for k, p_ in enumerate(cal[0].params):
                if p_["n"] not in bools or p_["t"].strip() not in ("bool", "const bool"):
                    continue
                a = call_args(c)[k]
                n += 1
                aa = strip(a) if a is not None and a["k"] != "DefaultArg" else a
                ok = aa is not None and aa["k"] == "DeclRefExpr" and aa.get("d") == bools[p_["n"]]
                if not ok:
                    chk.analysed(f)
                chk.ob("C11o", "%s: `%s` receives the option `%s` of its caller" % (f.sig(), show(c)[:40], p_["n"]), f.loc(c), ok,
                       detail=None if ok else "the call leaves `%s` to %s while the sibling calls of the same function pass it on: this row is processed "
                       "without the option" % (p_["n"], "its default" if a is not None and a["k"] == "DefaultArg" else show(a)[:20]),
                       key="C11o|%s|%s|%s" % (f.sig(), show(c)[:30], p_["n"]), nontrivial=not ok)
    chk.floor("C11o", n, 8)


def rule_r(prog, chk):
    """C11r - the helper that both the copy constructor and the assignment delegate to (`_recopy`) copies every data member of its class:
    a member left out (the eigen values of a dense matrix) keeps the value of the default constructor in every copy."""
    n = 0
    for K in sorted(prog.classes):
        rc = [f for f in prog.fns(K + "::_recopy") if f.body is not None]
        if not rc:
            continue
        assigned = set()
        for x in rc[0].walk():
            if x["k"] in ("Assign", "OpCall") and x.get("op") == "=" and x["c"][0] is not None and x["c"][0]["k"] == "MemberExpr":
                assigned.add(x["c"][0]["n"])
        for fl in prog.classes[K].get("fields", []):
            if fl.get("static"):
                continue
            n += 1
            ok = fl["n"] in assigned
            chk.analysed(rc[0])
            chk.ob("C11r", "%s::_recopy copies `%s`" % (K, fl["n"]), rc[0].loc(), ok,
                   detail=None if ok else "the member is not assigned by the helper that the copy constructor and operator= share: a copy holds the value "
                   "of a freshly constructed object", key="C11r|%s|%s" % (K, fl["n"]))
    chk.floor("C11r", n, 3)
