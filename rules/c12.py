"""C12 - experimental variograms equal their pairwise definition (DESIGN.md section C12).
Decides pair-gate completeness only: in every pair kernel the accumulation of a pair (member-pointer call through
_evaluate, vario_order_add, _setResult, reads of the variable through _getIVAR) is reachable, since the last definition
of each sample rank involved, only after that sample passed the selection gate and (when weights are in use) the
weight-definedness gate, after keepPair() accepted the pair, and with a lag rank that was tested for validity.
The pair context (hidden statics) is decided under C10/R10.4.  Counts, mean distances and averages are NOT decided."""
import os

import facts
import gates
from facts import REPO, Program, extract, show, call_obj, call_args, walk, CALL_KINDS
from e1_paths import CFG, peel_cond, single_def
from report import Check

UNITS = ["src/Variogram/Vario.cpp", "src/Variogram/AVario.cpp", "src/Variogram/VMap.cpp", "src/Variogram/VCloud.cpp"]
ACCUM = {"vario_order_add": (1, 2, 5), "Vario::_setResult": (0, 1, 3), "AVario::_setResult": (0, 1, 3),
         "VMap::_setResult": (0, 1, 3), "VCloud::_setResult": (0, 1, 3)}      # callee -> (iech1, iech2, ipas) argument positions
C12V_ACCEPTED = {("Vario::_g", "value"): "half squared difference of a pair REPLAYED from the stored pair list (vario_order_get_indices): a pair is stored "
                                           "only when both values are defined (same assumption as the pair gates of the replayed kernels)"}
PM_ARGS = (2, 3, 4)                                                            # (this->*_evaluate)(db, nvar, iech1, iech2, ipas, ..)
VALUE_READS = {"Vario::_getIVAR": 1, "AVario::_getIVAR": 1, "VMap::_getIVAR": 1, "VCloud::_getIVAR": 1}


class Ctx12(gates.GateCtx):
    def weight_matcher(self, d):
        """FFFF(<weight of sample d>) must be false (vacuous when the `hasWeight` presence flag is false)"""
        pres = self.presence_flags()
        wlocals = set()
        for n in self.f.walk():
            tgt = rhs = None
            if n["k"] == "VarDecl" and n.get("c"):
                tgt, rhs = n["d"], n["c"][0]
            elif n["k"] == "Assign" and n["c"][0] is not None and n["c"][0]["k"] == "DeclRefExpr":
                tgt, rhs = n["c"][0]["d"], n["c"][1]
            if rhs is not None and rhs["k"] == "MCall" and (rhs.get("callee") or "").endswith("::getWeight") and \
                    any(a is not None and a["k"] == "DeclRefExpr" and a.get("d") == d for a in call_args(rhs)):
                wlocals.add(tgt)

        def m(core):
            if core["k"] == "Call" and core.get("callee") == "FFFF" and call_args(core):
                x = call_args(core)[0]
                if x is not None and x["k"] == "MCall" and (x.get("callee") or "").endswith("::getWeight") and \
                        any(a is not None and a["k"] == "DeclRefExpr" and a.get("d") == d for a in call_args(x)):
                    return False
                if x is not None and x["k"] == "DeclRefExpr" and x.get("d") in wlocals:
                    return False
            if core["k"] == "DeclRefExpr" and pres.get(core.get("d")) == "W":
                return False
            return None
        return m

    def uses_weights(self):
        return any(v == "W" for v in self.presence_flags().values())


def main(tier):
    chk = Check("C12", tier,
                "Static pair-gate completeness of the experimental variogram kernels (general, grid, on-line, generalised, vector, "
                "map and cloud): a pair is accumulated only on CFG paths on which both samples passed the selection and "
                "weight-definedness gates since their last definition, keepPair() accepted the pair and the lag rank was tested "
                "for validity. Necessary conditions of 'each lag reports exactly the pairs that fall in it'; pair counts, mean "
                "distances, averages and grid/general agreement are NOT decided.")
    units = [os.path.join(REPO, u) for u in UNITS]
    d = extract(units, "C12-" + tier)
    prog = Program().load_dir(d)
    chk.units = list(prog.units)
    n = 0
    kernels = 0
    for f in sorted(prog.funcs, key=lambda x: (x.file, x.line)):
        if f.cfg is None or not f.d.get("main"):
            continue
        sites = []     # (node, [sample arg nodes], lag arg node)
        for c in f.walk():
            if c["k"] == "PMCall":
                a = call_args(c)
                if len(a) > max(PM_ARGS):
                    sites.append((c, [a[PM_ARGS[0]], a[PM_ARGS[1]]], a[PM_ARGS[2]], "accumulation through _evaluate"))
            elif c["k"] in ("Call", "MCall") and c.get("callee") in ACCUM:
                i1, i2, ip = ACCUM[c["callee"]]
                a = call_args(c)
                if len(a) > max(i1, i2, ip):
                    smp = [a[i1], a[i2]]
                    if c["callee"] == "vario_order_add" and len(a) > 4:
                        # vario_order_add(vorder, pos1, pos2, &iech, &jech, ...): when the two auxiliary pointers are given,
                        # they carry the sample ranks and the first two arguments are positions in an expanded list
                        aux = [x["c"][0] for x in a[3:5] if x is not None and x["k"] == "UnOp" and x.get("op") == "&"]
                        if len(aux) == 2:
                            smp = aux
                    sites.append((c, smp, a[ip], "accumulation by " + c["callee"].split("::")[-1]))
            elif c["k"] in ("Call", "MCall") and c.get("callee") in VALUE_READS:
                a = call_args(c)
                sites.append((c, [a[VALUE_READS[c["callee"]]]], None, "value read by _getIVAR"))
        if not sites:
            continue
        # callbacks (functions reached through the member pointer) receive already gated ranks as parameters
        params = {p["d"] for p in f.params}
        gc = Ctx12(f)
        g = gc.g
        has_keep = any(x["k"] in ("Call", "MCall") and (x.get("callee") or "").endswith("keepPair") for x in f.walk())
        local_site = False
        for (c, samples, lag, what) in sites:
            svars = []
            for s in samples:
                if s is not None and s["k"] == "DeclRefExpr" and s.get("dk") == "var" and s["d"] not in params and \
                        s["d"] not in [x["d"] for x in svars]:
                    svars.append(s)
            if not svars:
                continue
            local_site = True
            chk.analysed(f)
            for s in svars:
                if gc.defined_by_address_only(s["d"]):
                    chk.notes.append("%s: `%s` is filled from a stored pair list (out-argument); pairs were gated when stored" % (f.name, s["n"]))
                    continue
                reqs = [("ACTIVE", gc.active_matcher, "selection gate Db::isActive(%s)" % s["n"])]
                if gc.uses_weights():
                    reqs.append(("WEIGHT", gc.weight_matcher, "weight of %s tested with FFFF" % s["n"]))
                for gname, mk, text in reqs:
                    n += 1
                    w = gc.gated(s["d"], c, mk)
                    chk.ob("C12", "%s: %s (%s) only after the %s" % (f.name, what, show(c)[:40], text), f.loc(c), w is None,
                           detail=None if w is None else "the pair is accumulated on a path where sample `%s` did not pass this gate: a "
                           "masked sample / undefined weight enters the variogram" % s["n"],
                           key="C12|%s|%s|%s|%s" % (f.name, what.split()[0] + ":" + (c.get("callee") or "pm").split("::")[-1], gname, s["n"]),
                           path=None if w is None else g.describe(w))
            if has_keep and "accumulation" in what and not (c.get("callee") or "").endswith("::_setResult") and \
                    not gc.defined_by_address_only(svars[-1]["d"]):
                n += 1
                passes = gc.pass_edges(gc.call_matcher({"keepPair"}, None, True))
                # since the last definition of the second sample
                s2 = svars[-1]
                w = gc.ungated_path(s2["d"], c, passes)
                chk.ob("C12", "%s: %s only after keepPair() accepted the pair" % (f.name, what), f.loc(c), w is None,
                       detail=None if w is None else "the direction / tolerance / checker test is bypassed on a path to the accumulation",
                       key="C12|%s|%s|KEEPPAIR" % (f.name, what.split()[0] + ":" + (c.get("callee") or "pm").split("::")[-1]),
                       path=None if w is None else g.describe(w))
            if lag is not None and lag["k"] == "DeclRefExpr" and lag.get("dk") == "var":
                # lag rank obtained from a distance: must be tested for validity (IFFFF) before use
                defs = gc.defs_of(lag["d"])
                from_dist = [x for x in defs if "getLagRank" in show(x)]
                if from_dist:
                    n += 1

                    def m(core, lag=lag):
                        if core["k"] == "Call" and core.get("callee") == "IFFFF" and call_args(core) and \
                                call_args(core)[0] is not None and call_args(core)[0].get("d") == lag["d"]:
                            return False
                        return None
                    passes = gc.pass_edges(m)
                    w = gc.ungated_path(lag["d"], c, passes)
                    chk.ob("C12", "%s: %s only with a lag rank tested by IFFFF()" % (f.name, what), f.loc(c), w is None,
                           detail=None if w is None else "a separation that falls in no lag (getLagRank returned the undefined rank) is "
                           "accumulated: out-of-range lag address",
                           key="C12|%s|%s|LAG" % (f.name, what.split()[0] + ":" + (c.get("callee") or "pm").split("::")[-1]),
                           path=None if w is None else g.describe(w))
        if local_site:
            kernels += 1
    chk.extra["pair_kernels"] = kernels
    chk.floor("C12-kernels", kernels, 8)
    chk.floor("C12", n, 40)
    # C12p: the parameters of the calculation (lag, tolerances, bench, cylinder radius, codes ...) reach the direction definition
    # they are given for: no exchange of two same-named quantities in the forwarding factories
    import argswap
    pun = [os.path.join(REPO, "src/Variogram", x) for x in ("VarioParam.cpp", "DirParam.cpp") if os.path.exists(os.path.join(REPO, "src/Variogram", x))]
    # ... and the factories of the pair checkers that receive them (direction, tolerance, bench, cylinder radius, codes, dates, faults)
    gdir = os.path.join(REPO, "src/Geometry")
    pun += [os.path.join(gdir, x) for x in sorted(os.listdir(gdir)) if x.startswith("BiTargetCheck") and x.endswith(".cpp")]
    pun += [os.path.join(REPO, "src/Core/variopgs.cpp")]       # the geometry of the PGS variograms enumerates its pairs like Vario.cpp (rule C12t)
    pprog = Program().load_dir(extract(pun, "C12p-" + tier))
    dh, excluded = facts.extract_headers("C12h-" + tier)
    pprog.load_dir(dh)
    chk.units += [u for u in pprog.units if u not in chk.units]
    argswap.rule(pprog, chk, "C12p", file_filter=("src/Variogram/", "src/Geometry/BiTargetCheck"), floor_n=4)
    # C12s: a limit on the separation of a pair is applied to a sign-free quantity.  In the `isOK` of a pair checker a refusal `if (x > _limit)`
    # whose `x` is a bare component of the increment between the two samples (signed: it changes sign with the order of the pair) keeps or rejects
    # the pair according to which sample comes first; the component must go through ABS / sqrt / a square first.
    from e1_paths import single_def

    def _strip(e):
        while e is not None and e["k"] in ("Cast", "Paren") and e.get("c"):
            e = e["c"][0]
        return e
    ns = 0
    for f in sorted(pprog.funcs, key=lambda x: (x.file, x.line)):
        if f.body is None or f.short != "isOK" or not (f.cls or "").startswith("BiTargetCheck"):
            continue
        incr = {x["d"] for x in f.walk() if x["k"] == "VarDecl" and x.get("c") and x["c"][0] is not None and
                any(z["k"] == "MCall" and (z.get("callee") or "").split("::")[-1] == "getIncrement" for z in walk(x["c"][0]))}
        if not incr:
            continue

        def signed(e, depth=0):
            e = _strip(e)
            if e is None or depth > 3:
                return False
            if e["k"] in ("Index", "OpCall") and e.get("c") and _strip(e["c"][0]) is not None and _strip(e["c"][0]).get("d") in incr:
                return True
            if e["k"] == "DeclRefExpr" and e.get("dk") == "var":
                dd = single_def(f, e["d"])
                return dd is not None and signed(dd, depth + 1)
            if e["k"] == "UnOp" and e.get("op") == "-":
                return signed(e["c"][0], depth + 1)
            return False
        for x in f.walk():
            if x["k"] != "BinOp" or x.get("op") not in (">", ">=", "<", "<=") or x["c"][0] is None or x["c"][1] is None:
                continue
            l, r = _strip(x["c"][0]), _strip(x["c"][1])
            if r is None or r["k"] != "MemberExpr" or l is None or l["k"] not in ("DeclRefExpr", "Index", "OpCall", "UnOp"):
                continue
            ns += 1
            bad = signed(l)
            chk.analysed(f)
            chk.ob("C12s", "%s: the limit `%s` is applied to a sign-free quantity" % (f.name, show(x)[:40]), f.loc(x), not bad,
                   detail=None if not bad else "`%s` is a signed component of the increment between the two samples: the pair is kept or rejected "
                   "according to which of its samples comes first (the count of pairs of a lag depends on the order of the samples)" % show(l)[:40],
                   key="C12s|%s|%s" % (f.name, show(x)[:30]))
    chk.floor("C12s", ns, 3)
    # C12t: the pruning of the sorted pair enumeration measures (second sample) - (first sample).  `if (db->getDistance1D(a, b) > maxdist) break;`
    # leaves the inner loop for good: that is right only when the distance grows with the inner counter, i.e. when `a` is the sample of the
    # INNER loop and `b` the one of the outer loop (the samples are visited by increasing first coordinate).  With the arguments exchanged the
    # test never fires without dates (dead code) and fires at once with dates, where the inner loop starts at the left-most sample.
    nt = 0
    for f in sorted(list(prog.funcs) + [g_ for g_ in pprog.funcs if g_.usr not in prog.by_usr], key=lambda x: (x.file, x.line)):
        if f.body is None:
            continue
        for L in f.walk():
            if L["k"] != "For" or len(L["c"]) < 4 or L["c"][3] is None:
                continue
            inner_assigned = {(_strip(z["c"][0]) or {}).get("d") for z in walk(L["c"][3]) if z["k"] == "Assign" and z.get("op") == "=" and
                              not any(w["k"] == "For" for w in []) }
            for x in (L["c"][3]["c"] if L["c"][3]["k"] == "Block" else [L["c"][3]]):
                if x is None or x["k"] != "If" or x["c"][-3] is None or x["c"][-2] is None:
                    continue
                t = x["c"][-2]
                if not (t["k"] == "Break" or (t["k"] == "Block" and [c_ for c_ in t["c"] if c_] and [c_ for c_ in t["c"] if c_][0]["k"] == "Break")):
                    continue
                calls = [z for z in walk(x["c"][-3]) if z["k"] == "MCall" and (z.get("callee") or "").split("::")[-1] == "getDistance1D"]
                if not calls:
                    continue
                a, b = [_strip(z) for z in call_args(calls[0])[:2]]
                if a is None or b is None or a["k"] != "DeclRefExpr" or b["k"] != "DeclRefExpr":
                    continue
                # which of the two is (re)assigned at the top level of THIS loop body
                top = {(_strip(z["c"][0]) or {}).get("d") for z in (L["c"][3]["c"] if L["c"][3]["k"] == "Block" else [L["c"][3]])
                       if z is not None and z["k"] == "Assign" and z.get("op") == "="}
                top |= {v_.get("d") for z in (L["c"][3]["c"] if L["c"][3]["k"] == "Block" else [L["c"][3]]) if z is not None and z["k"] == "DeclStmt"
                        for v_ in z.get("c") or [] if v_ is not None and v_["k"] == "VarDecl"}
                if (a.get("d") in top) == (b.get("d") in top):
                    continue
                nt += 1
                ok = a.get("d") in top
                chk.analysed(f)
                chk.ob("C12t", "%s: the pruning `%s` measures (sample of the inner loop) - (sample of the outer loop)" % (f.name, show(calls[0])[:40]), f.loc(x), ok,
                       detail=None if ok else "`%s` is the sample of the OUTER loop: the difference is negative for every later sample (the test never fires) and, when "
                       "the inner loop starts at the first sample (dates), positive at once: the loop is abandoned and the pairs are lost" % a["n"],
                       key="C12t|%s|%s" % (f.name, show(calls[0])[:40]))
    chk.floor("C12t", nt, 6)
    # C12r: a per-sample contribution starts from scratch.  A loop whose body (a) accumulates pairs through the kernel `(this->*_evaluate)` in an
    # inner loop and (b) afterwards folds the per-lag accumulators (getSwByIndex / getGgByIndex) into its own sums consumes them once per
    # iteration: it must zero them (setSwByIndex(.., 0.) ...) before the inner loop, or the term of sample i holds the pairs of samples 0..i.
    nr = 0
    for f in sorted(prog.funcs, key=lambda x: (x.file, x.line)):
        if f.body is None or f.cls != "Vario":
            continue
        for L in f.walk():
            if L["k"] != "For" or len(L["c"]) < 4 or L["c"][3] is None or L["c"][3]["k"] != "Block":
                continue
            st = [z for z in L["c"][3]["c"] if z is not None]
            ker = [k_ for k_, z in enumerate(st) if z["k"] == "For" and any(w["k"] == "PMCall" for w in walk(z))]
            if not ker:
                continue
            fold = [k_ for k_, z in enumerate(st) if k_ > ker[0] and any(w["k"] == "MCall" and (w.get("callee") or "").split("::")[-1] == "getSwByIndex" for w in walk(z))
                    and any(w["k"] in ("Assign", "CompoundAssign") and w.get("op") == "+=" for w in walk(z))]
            if not fold:
                continue
            nr += 1
            zero = [k_ for k_, z in enumerate(st) if k_ < ker[0] and any(
                w["k"] == "MCall" and (w.get("callee") or "").split("::")[-1] == "setSwByIndex" and
                any(a_ is not None and _strip(a_) is not None and _strip(a_)["k"] in ("Float", "Int") and float(_strip(a_).get("v") or 0) == 0. for a_ in call_args(w)[2:])
                for w in walk(z))]
            ok = bool(zero)
            chk.analysed(f)
            chk.ob("C12r", "%s: the accumulators folded at each iteration are emptied at each iteration" % f.name, f.loc(L), ok,
                   detail=None if ok else "the loop adds getGgByIndex / getSwByIndex to its sums after each first sample but never resets them: the term of a "
                   "sample contains the pairs of all the samples before it", key="C12r|%s" % f.name)
    chk.floor("C12r", nr, 1)
    # C12k: the rank argument of a per-sample Db accessor comes from a loop over ALL the samples (c05_skip.rank_loop_rule)
    import c05_skip
    c05_skip.rank_loop_rule(prog, chk, "C12k", ("src/Variogram/",), 20)
    # C12c: the parameters of a calculation survive a copy: copy constructor and operator= of the variogram classes agree (copyrule)
    import copyrule
    ncp = copyrule.copy_agreement(pprog, chk, "C12c", classes=[c for c in pprog.classes if c in ("DirParam", "VarioParam", "Vario", "AVario")])
    chk.floor("C12c", ncp, 10)
    # C12v: every value of a variable read for a pair (_getIVAR) is tested for definedness before it enters the accumulated quantity
    nv = 0
    for f in sorted(prog.funcs, key=lambda x: (x.file, x.line)):
        if f.cfg is None or not f.file.endswith(("src/Variogram/AVario.cpp", "src/Variogram/Vario.cpp")):
            continue
        vals = {}
        for x in f.walk():
            if x["k"] == "VarDecl" and x.get("c") and x["c"][0] is not None and any(
                    y["k"] == "MCall" and (y.get("callee") or "").endswith("::_getIVAR") for y in walk(x["c"][0])):
                vals[x["d"]] = x
            # values declared beforehand and assigned from the reader (possibly through a conditional expression)
            if x["k"] == "Assign" and x.get("op") == "=" and x["c"][0] is not None and x["c"][0]["k"] == "DeclRefExpr" and x["c"][0].get("dk") == "var" and \
                    x["c"][1] is not None and any(y["k"] == "MCall" and (y.get("callee") or "").endswith("::_getIVAR") for y in walk(x["c"][1])):
                node = dict(x)
                node["n"] = x["c"][0]["n"]
                vals.setdefault(x["c"][0]["d"], node)
        if not vals:
            continue
        gc = gates.GateCtx(f)
        for d, decl in sorted(vals.items(), key=lambda kv: kv[1].get("l") or 0):
            if (f.name, decl["n"]) in C12V_ACCEPTED:
                chk.assumptions.append("C12v %s/%s not judged: %s" % (f.name, decl["n"], C12V_ACCEPTED[(f.name, decl["n"])]))
                continue
            uses = []
            for x in f.walk():
                if x["k"] in ("BinOp", "Assign") and x.get("op") in ("+", "-", "*", "/", "+=", "-=", "*="):
                    if any(y["k"] == "DeclRefExpr" and y.get("d") == d for y in walk(x)) and not any(
                            a["k"] == "Call" and (a.get("callee") or "") in ("FFFF", "IFFFF") for a in f.ancestors(x)):
                        uses.append(x)
            if not uses:
                continue

            def m(core, d=d):
                if core["k"] == "Call" and (core.get("callee") or "") in ("FFFF", "IFFFF") and call_args(core) and \
                        call_args(core)[0] is not None and call_args(core)[0].get("d") == d:
                    return False          # the gate holds on the edge where FFFF(value) is false
                return None
            passes = gc.pass_edges(m)
            nv += 1
            chk.analysed(f)
            bad = None
            for u in uses:
                if gc.g.pos_of(u) is None:
                    continue
                w = gc.g.search(gc.g.after(decl) if gc.g.pos_of(decl) else gc.g.entry_pos(), is_target=lambda y, u=u: y["i"] == u["i"],
                                edge_ok=lambda blk, k, s_: (blk["b"], k) not in passes)
                if w is not None:
                    bad = (u, w)
                    break
            chk.ob("C12v", "%s: the value `%s` is tested for definedness before it is used" % (f.name, decl["n"]), f.loc(decl), bad is None,
                   detail=None if bad is None else "`%s` enters `%s` on a path where FFFF(%s) was not tested: an undefined value (1.234e30) is accumulated as if it "
                   "were data" % (decl["n"], show(bad[0])[:40], decl["n"]), key="C12v|%s|%s" % (f.name, decl["n"]),
                   path=None if bad is None else gc.g.describe(bad[1]))
    chk.floor("C12v", nv, 20)
    # C12u: a pair whose value is undefined for one variable is skipped for that variable only (shared rule with C05d)
    import c05_skip
    c05_skip.rule_d(prog, chk, 2, rule="C12u", only_files=("src/Variogram/",))
    # C12w: every normalisation of the variogram kernels is a weighted mean: the denominator accumulates the weight that the
    # terms of the numerator carry (ratio_pairs)
    import ratio_pairs
    ratio_pairs.rule(prog, chk, "C12w", ("src/Variogram/",), 12)
    # C12d: a request is honoured.  A local container that was just declared (and never filled) is always empty: testing IT for
    # emptiness where the corresponding argument is meant makes the argument dead (`if (seldirs.empty())` for `dircols`: reducing a
    # variogram to some of its directions returns all of them)
    from e1_paths import CFG as _CFG, peel_cond as _peel
    nd = 0
    for f in sorted(prog.funcs, key=lambda x: (x.file, x.line)):
        if f.cfg is None or "src/Variogram/" not in f.file:
            continue
        decls = {x["d"]: x for x in f.walk() if x["k"] == "VarDecl" and "Vector" in (x.get("t") or "") and
                 (not x.get("c") or (x["c"][0] is not None and x["c"][0]["k"] == "Construct" and not [a_ for a_ in call_args(x["c"][0]) if a_ is not None and a_["k"] != "DefaultArg"]))}
        if not decls:
            continue
        g_ = None
        for x in f.walk():
            if x["k"] != "If" or x["c"][-3] is None:
                continue
            core, pol = _peel(x["c"][-3])
            if core is None or core["k"] != "MCall" or (core.get("callee") or "").split("::")[-1] != "empty":
                continue
            o = call_obj(core)
            if o is None or o["k"] != "DeclRefExpr" or o.get("d") not in decls:
                continue
            d_ = o["d"]
            if g_ is None:
                g_ = _CFG(f)
            if g_.pos_of(decls[d_]) is None or g_.pos_of(core) is None:
                continue

            def touches(y, d_=d_, core=core):
                if y["i"] == core["i"]:
                    return False
                for z in walk(y):
                    if z["k"] == "DeclRefExpr" and z.get("d") == d_:
                        par = f.parent(z)
                        if par is not None and par["k"] == "MCall" and call_obj(par) is z and (par.get("callee") or "").split("::")[-1] in ("empty", "size"):
                            continue
                        return True
                return False
            filled = False
            for y in f.walk():
                if y["k"] in CALL_KINDS + ("Assign",) and touches(y) and g_.pos_of(y) is not None:
                    if g_.search(g_.after(decls[d_]), is_target=lambda z, y=y: z["i"] == y["i"]) is not None and \
                            g_.search(g_.after(y), is_target=lambda z, core=core: z["i"] == core["i"]) is not None:
                        filled = True
                        break
            nd += 1
            if not filled:
                chk.analysed(f)
            chk.ob("C12d", "%s: `%s` is tested after it may have been filled" % (f.name, show(core)), f.loc(x), filled,
                   detail=None if filled else "`%s` has just been declared and nothing was put in it: the test is always true, its other branch (the one that uses the "
                   "caller's request) is dead" % o["n"], key="C12d|%s|%s" % (f.name, o["n"]), nontrivial=not filled)
    chk.floor("C12d", nd, 1)
    return chk.finish()
