"""C13 - simulations reproducible from their seed (DESIGN.md section C13).
Decides only: in every seeded entry point the process-wide generator is set from the given seed on every
path before the first draw (S1 functions with a seed parameter, S2 classes storing a seed), no seed is
stored and then never used (S1'), temporary reseeding is undone on every exit (S3).
"""
import os
import re

import facts
from facts import REPO, Program, extract, show, call_obj, call_args, walk, is_call, CALL_KINDS
from e1_paths import CFG
from report import Check

# draws that happen after a seeding the path engine cannot see as unconditional; one named call per row, with reason
ASSUMED_SEEDED = {
    ("simpgs", "simu_func_categorical_transf"): "follows the `for igrf<2` loop that forwards the seed to the turning bands of the "
        "first GRF in use (the seed is consumed by the first turning-bands object built, whichever GRF that is); every valid rule uses at least one GRF, so the loop seeds before this call",
    ("simpgs", "simu_func_categorical_update"): "same loop as simu_func_categorical_transf",
    ("simbipgs", "simu_func_categorical_transf"): "same idiom as simpgs (loop over the GRFs of each PGS)",
    ("simbipgs", "simu_func_categorical_update"): "same idiom as simpgs",
}

SEED_RE = re.compile(r"^_?seed", re.I)
SET = "law_set_random_seed"
GET = "law_get_random_seed"
NOT_DRAWS = {SET, GET, "law_set_old_style"}


def seedlike(name):
    return bool(SEED_RE.match(name or "")) and not name.lower().startswith(("seeds_", "_seeds_"))


class Ctx:
    def __init__(self, prog):
        self.prog = prog
        self.byname = prog.by_name
        self.callees = {}     # usr -> set(usr)
        self.callsites = {}
        self.virt_cache = {}
        self.draw = set()

    def virt_targets(self, callee, nargs):
        key = (callee, nargs)
        if key not in self.virt_cache:
            cls, short = callee.rsplit("::", 1)
            out = []
            for d in [cls] + self.prog.derived(cls):
                for f in self.byname.get(d + "::" + short, []):
                    if len(f.params) == nargs:
                        out.append(f)
            self.virt_cache[key] = out
        return self.virt_cache[key]

    def targets(self, n):
        """function bodies a call node may run"""
        k = n["k"]
        cal = n.get("callee")
        if not cal:
            return []
        if n.get("cu") and n["cu"] in self.prog.by_usr and not n.get("virt"):
            return [self.prog.by_usr[n["cu"]]]
        if k == "MCall" and n.get("virt"):
            t = self.virt_targets(cal, len(call_args(n)))
            if t:
                return t
        fs = self.byname.get(cal, [])
        if n.get("cu"):
            ex = [f for f in fs if f.usr == n["cu"]]
            if ex:
                return ex
        return [f for f in fs if len(f.params) >= len(call_args(n))][:1] if fs else []

    def build(self):
        prim = set()
        for f in self.prog.funcs:
            if not f.file.endswith("src/Basic/Law.cpp") or f.name in NOT_DRAWS:
                continue
            for n in f.walk():
                if n["k"] == "DeclRefExpr" and n.get("dk") == "gvar" and n.get("n") in ("Random_gen", "Random_value"):
                    prim.add(f.usr)
                    break
        if len(prim) < 5:
            raise facts.AnalysisBroken("random primitives of Law.cpp not found (%d)" % len(prim))
        self.prim = prim
        callers = {}
        for f in self.prog.funcs:
            for n in f.walk():
                if n["k"] in CALL_KINDS:
                    for t in self.targets(n):
                        callers.setdefault(t.usr, set()).add(f.usr)
        draw = set(prim)
        work = list(prim)
        while work:
            u = work.pop()
            for c in callers.get(u, ()):
                if c not in draw:
                    draw.add(c)
                    work.append(c)
        self.draw = draw
        self.callers = callers


def _lit(n):
    if n is None:
        return None
    if n["k"] in ("Int", "Bool", "Float"):
        return n["v"]
    if n["k"] == "UnOp" and n.get("op") == "-" and n["c"][0] is not None and n["c"][0]["k"] in ("Int", "Float"):
        return -n["c"][0]["v"]
    return None


def _eval_cond(core, bind):
    """truth value of a branch condition under literal parameter bindings (decl id -> value), or None"""
    if core is None:
        return None
    if core["k"] == "DeclRefExpr" and core.get("d") in bind:
        return bool(bind[core["d"]])
    if core["k"] == "BinOp" and core.get("op") in ("==", "!=", "<", "<=", ">", ">="):
        a, b = core["c"]
        va = bind.get(a["d"]) if a is not None and a["k"] == "DeclRefExpr" and a.get("d") in bind else _lit(a)
        vb = bind.get(b["d"]) if b is not None and b["k"] == "DeclRefExpr" and b.get("d") in bind else _lit(b)
        if va is None or vb is None:
            return None
        va, vb = float(va), float(vb)
        return {"==": va == vb, "!=": va != vb, "<": va < vb, "<=": va <= vb, ">": va > vb, ">=": va >= vb}[core["op"]]
    return None


def recv_class(prog, n, K):
    """dynamic class of the receiver when it is known: `this` in context K, or a local object (not a pointer or
    reference) whose static type is a repository class"""
    if n["k"] != "MCall":
        return None
    o = call_obj(n)
    if o is None or o["k"] == "This":
        return K
    if o["k"] == "DeclRefExpr" and o.get("dk") in ("var", "parm"):
        t = (o.get("t") or "").replace("const ", "").strip()
        if t in prog.classes and not t.endswith(("*", "&")):
            return t
    return None


def resolve(ctx, n, K):
    """bodies a call may run, using the receiver's dynamic class when known"""
    Kc = recv_class(ctx.prog, n, K)
    if Kc and n.get("callee"):
        short = n["callee"].split("::")[-1]
        if n.get("qual"):
            return ctx.targets(n), Kc
        t = ctx.prog.method_impl(Kc, short, len(call_args(n)))
        if t is not None:
            return [t], Kc
    return ctx.targets(n), Kc


def may_draw(ctx, f, bind_by_index=(), K=None):
    """does a call of f (with the given literal arguments: tuple of (param index, value); dynamic class K of
    `this` when known) possibly reach a random primitive?  Branches on literal-bound parameters are pruned
    (e.g. Db::_columnInit(.., flagCst=true))."""
    from e1_paths import peel_cond
    if f.usr in ctx.prim:
        return True
    if f.usr not in ctx.draw:
        return False
    key = (f.usr, tuple(sorted(bind_by_index)), K)
    memo = ctx.__dict__.setdefault("_md", {})
    if key in memo:
        return memo[key]
    memo[key] = False          # least fixpoint on recursion
    if f.cfg is None:
        memo[key] = True
        return True
    bind = {}
    for i, v in bind_by_index:
        if i < len(f.params):
            bind[f.params[i]["d"]] = v
    g = CFG(f)

    def edge_ok(blk, k, s_):
        if not bind:
            return True
        c = g.cond(blk["b"])
        if c is None or len(blk["s"]) != 2:
            return True
        core, pol = peel_cond(c)
        v = _eval_cond(core, bind)
        if v is None:
            return True
        return ((k == 0) == pol) == v

    def is_draw_call(n):
        if n["k"] not in CALL_KINDS:
            return False
        tg, Kc = resolve(ctx, n, K)
        for t in tg:
            if may_draw(ctx, t, call_bindings(n, bind), Kc):
                return True
        return False
    res = g.search(g.entry_pos(), is_target=is_draw_call, edge_ok=edge_ok) is not None
    memo[key] = res
    return res


def call_bindings(n, caller_bind=None):
    out = []
    for i, a in enumerate(call_args(n)):
        v = _lit(a)
        if v is None and caller_bind and a is not None and a["k"] == "DeclRefExpr" and a.get("d") in caller_bind:
            v = caller_bind[a["d"]]
        if v is not None:
            out.append((i, v))
    return tuple(out)


def seed_fields_of(prog, cls):
    out = []
    for c in [cls] + prog.bases(cls):
        for fl in prog.classes.get(c, {}).get("fields", []):
            if seedlike(fl["n"]) and fl["t"].replace("const ", "").strip() in ("int", "unsigned int", "long"):
                out.append((c, fl["n"]))
    return out


def seed_dependent_locals(f, is_source):
    """decl ids of locals that (flow-insensitively) receive a seed-dependent value"""
    dep = set()
    changed = True
    while changed:
        changed = False
        for n in f.walk():
            tgt = None
            rhs = None
            if n["k"] == "VarDecl" and n.get("c"):
                tgt, rhs = n["d"], n["c"][0]
            elif n["k"] == "Assign" and n["c"][0] is not None and n["c"][0]["k"] == "DeclRefExpr":
                tgt, rhs = n["c"][0]["d"], n["c"][1]
            if tgt is None or tgt in dep or rhs is None:
                continue
            if any(is_source(x) or (x["k"] == "DeclRefExpr" and x.get("d") in dep) for x in walk(rhs)):
                dep.add(tgt)
                changed = True
    return dep


class Analyzer:
    """classifies the calls of a function as seeding / draw / transparent, relative to the dynamic class K of
    `this` (calls on this are resolved from K and judged through the callee's own summary)."""

    def __init__(self, ctx):
        self.ctx = ctx
        self.prog = ctx.prog
        self.memo = {}
        self.inprog = set()
        self.assumed = set()

    def sources(self, f, K):
        prog = self.prog
        seedparams = {p["d"] for p in f.params if seedlike(p["n"]) and "int" in p["t"]}
        cls = K or f.cls
        fields = {n for _, n in seed_fields_of(prog, cls)} if cls else set()

        def is_source(x):
            if x["k"] == "DeclRefExpr" and x.get("d") in seedparams:
                return True
            if x["k"] == "MemberExpr" and x.get("mk") == "field" and x["n"] in fields:
                b = (x.get("c") or [None])[0]
                return b is None or b["k"] == "This"
            if x["k"] == "MCall" and (x.get("callee") or "").split("::")[-1] in ("getSeed",):
                o = call_obj(x)
                return o is None or o["k"] == "This"
            return False
        deploc = seed_dependent_locals(f, is_source)

        def dep(e):
            return e is not None and any(is_source(x) or (x["k"] == "DeclRefExpr" and x.get("d") in deploc) for x in walk(e))
        return is_source, dep

    def this_target(self, n, K):
        """body run by a call on `this` when the dynamic class is K"""
        cal = n.get("callee") or ""
        short = cal.split("::")[-1]
        if K:
            t = self.prog.method_impl(K, short, len(call_args(n)))
            if t is not None and t.body is not None:
                return [t]
        return self.ctx.targets(n)

    def classify(self, f, K):
        ctx = self.ctx
        is_source, dep = self.sources(f, K)
        g0 = CFG(f) if f.cfg is not None else None

        def dep_at(e, node, depth=0):
            """e is *definitely* the seed when `node` executes for the first time: a conditional must be the seed on both
            branches, a local must hold a seed-dependent value on every path that reaches `node` without having passed
            `node` before (e.g. `local_seed = seed; loop { T x(local_seed); local_seed = 0; }`)"""
            if e is None or not dep(e):
                return False
            if e["k"] == "Cond":
                return dep_at(e["c"][1], node, depth + 1) and dep_at(e["c"][2], node, depth + 1)
            if e["k"] == "DeclRefExpr" and e.get("dk") == "var" and g0 is not None and depth < 3:
                v = e["d"]
                defs = []
                for x in f.walk():
                    if x["k"] == "VarDecl" and x.get("d") == v:
                        defs.append((x, x["c"][0] if x.get("c") else None))
                    elif x["k"] == "Assign" and x["c"][0] is not None and x["c"][0]["k"] == "DeclRefExpr" and x["c"][0].get("d") == v:
                        defs.append((x, x["c"][1] if x.get("op") == "=" else None))
                def elem_id(x):
                    p = g0.pos_of(x)
                    return g0.blocks[p[0]]["e"][p[1]] if p is not None else x["i"]
                nid = elem_id(node)
                dids = {elem_id(D) for D, _ in defs}
                is_node = lambda x: x["i"] == nid
                is_def = lambda x: x["i"] in dids
                for D, rhs in defs:
                    if rhs is not None and dep_at(rhs, D, depth + 1):
                        continue
                    # a non-seed definition: can it reach the first execution of `node`?
                    if g0.search(g0.entry_pos(), is_target=lambda x, D=D: x["i"] == elem_id(D), is_barrier=is_node) is None:
                        continue          # only reachable after `node` ran once
                    st = g0.after(D)
                    if st is not None and g0.search(st, is_target=is_node, is_barrier=is_def) is not None:
                        return False
                return True
            return True

        seeded_objs = set()
        for n in f.walk():
            if n["k"] == "VarDecl" and n.get("c") and n["c"][0] is not None:
                init = n["c"][0]
                if init["k"] == "Construct" and any(dep_at(a, n) for a in init.get("c") or []):
                    seeded_objs.add(n["d"])
                elif init["k"] in ("New", "Call", "MCall") and dep(init):
                    seeded_objs.add(n["d"])
            if n["k"] == "MCall":
                o = call_obj(n)
                if o is not None and o["k"] == "DeclRefExpr":
                    tg = ctx.targets(n)
                    args = call_args(n)
                    for t in tg:
                        for i, p in enumerate(t.params):
                            if seedlike(p["n"]) and i < len(args) and dep_at(args[i], n):
                                seeded_objs.add(o["d"])
        events = {}
        for n in f.walk():
            if n["k"] not in CALL_KINDS:
                continue
            cal = n.get("callee") or ""
            args = call_args(n)
            if cal == SET:
                events[n["i"]] = "seed" if (args and dep_at(args[0], n)) else "reseed-other"
                continue
            o = call_obj(n)
            on_this = n["k"] == "MCall" and (o is None or o["k"] == "This")
            tg, Kc = resolve(ctx, n, K)
            if not tg:
                continue
            # forwarding of the seed to a callee that takes one
            fwd = False
            for t in tg:
                for i, p in enumerate(t.params):
                    if seedlike(p["n"]) and "int" in p["t"] and i < len(args) and dep_at(args[i], n):
                        fwd = True
            cb = call_bindings(n)
            drawing = [t for t in tg if may_draw(ctx, t, cb, Kc)]
            if fwd:
                if drawing:
                    events[n["i"]] = "delegate"         # the callee has its own S1 obligation
                    continue
                if all(self.summary(t, (K if on_this else None)) == "seeds" for t in tg):
                    events[n["i"]] = "seed-via-" + cal
                    continue
            if not drawing:
                if on_this and tg and all(self.summary(t, K) == "seeds" for t in tg):
                    events[n["i"]] = "seed-via-" + cal
                continue
            if o is not None and o["k"] == "DeclRefExpr" and o.get("d") in seeded_objs:
                events[n["i"]] = "delegate-object"
                continue
            if on_this:
                kinds = {self.summary(t, K) for t in drawing}
                if kinds == {"seeds"}:
                    events[n["i"]] = "seed-via-" + cal
                    continue
                if kinds <= {"seeds", "clean"}:
                    continue
            if (f.name, cal) in ASSUMED_SEEDED:
                self.assumed.add((f.name, cal))
                continue
            events[n["i"]] = "draw"
        return events, dep

    def seed_guard_edges(self, f, g, K):
        """edges on which a test `seed > 0` / `seed != 0` / `seed` is false: by the documented convention (and by
        law_set_random_seed itself) a non-positive seed means 'keep the generator as it is'."""
        from e1_paths import peel_cond
        is_source, dep = self.sources(f, K)
        out = set()
        for b in g.blocks.values():
            c = g.cond(b["b"])
            if c is None or len(b["s"]) != 2:
                continue
            core, pol = peel_cond(c)
            if core is None:
                continue
            ok = False
            if is_source(core) or (core["k"] == "DeclRefExpr" and dep(core)):
                ok = True
            elif core["k"] == "BinOp" and core.get("op") in (">", "!=", ">=") and dep(core["c"][0]):
                v = _lit(core["c"][1])
                ok = (core["op"] in (">", "!=") and v == 0) or (core["op"] == ">=" and v == 1)
            if ok:
                out.add((b["b"], 1 if pol else 0))     # the edge on which the test is false
        return out

    def unseeded_draw(self, f, K):
        """witness of a path entry -> draw with no seeding before it (or None)"""
        ev, dep = self.classify(f, K)
        g = CFG(f)
        guard = self.seed_guard_edges(f, g, K)
        is_seed = lambda n: ev.get(n["i"], "").startswith(("seed", "delegate"))
        is_draw = lambda n: ev.get(n["i"]) == "draw"
        eo = lambda blk, k, s_: (blk["b"], k) not in guard
        wit = g.search_consistent(g.entry_pos(), is_target=is_draw, is_barrier=is_seed, edge_ok=eo)
        return wit, g, ev, eo, is_seed

    def summary(self, f, K):
        key = (f.usr, K)
        if key in self.memo:
            return self.memo[key]
        if key in self.inprog or f.cfg is None:
            return "draws" if may_draw(self.ctx, f, (), K) else "clean"
        self.inprog.add(key)
        wit, g, ev, eo, is_seed = self.unseeded_draw(f, K)
        if wit is not None:
            res = "draws"
        elif g.search_consistent(g.entry_pos(), to_exit=True, is_barrier=is_seed, edge_ok=eo) is None:
            res = "seeds"
        else:
            res = "clean"
        self.inprog.discard(key)
        self.memo[key] = res
        return res


SIM_LOCS = ("SIMU", "GAUSFAC", "FACIES")
RAW_ITEM_ACCESSORS = ("getFromLocator", "setFromLocator", "getLocVariable", "setLocVariable", "updLocVariable")


def s7(prog, chk):
    """S7 - one layout for the simulation columns.  The columns of the SIMU / GAUSFAC / FACIES locators hold one value per
    (simulation, variable, GRF); their item number is Db::getSimRank(isimu, ivar, icase, nbsimu, nvar) for every reader
    (Db::getSimvar and its callers: conditioning of the turning bands, Rule::gaus2facData).  A per-sample accessor addressing
    one of these locators with a raw item number must obtain that number from Db::getSimRank: an item computed by another
    formula reads / writes the column of another (simulation, GRF) as soon as both counts exceed one."""
    from e1_paths import single_def
    n = 0
    for f in sorted(prog.funcs, key=lambda x: (x.file, x.line)):
        if f.body is None:
            continue
        for c in f.calls():
            if c["k"] != "MCall" or (c.get("callee") or "").split("::")[-1] not in RAW_ITEM_ACCESSORS or not (c.get("cls") or "").startswith("Db"):
                continue
            a = call_args(c)
            if len(a) < 3 or a[0] is None or a[2] is None or show(a[0]).split("::")[-1] not in SIM_LOCS:
                continue
            item = a[2]
            while item["k"] == "Cast":
                item = item["c"][0]
            ok = False
            src = item
            if item["k"] == "DeclRefExpr":
                dfs = [x for x in f.walk() if (x["k"] == "VarDecl" and x.get("d") == item.get("d") and x.get("c")) or
                       (x["k"] == "Assign" and x["c"][0] is not None and x["c"][0]["k"] == "DeclRefExpr" and x["c"][0].get("d") == item.get("d"))]
                srcs = [(x["c"][0] if x["k"] == "VarDecl" else x["c"][1]) for x in dfs]
                ok = bool(srcs) and all(s_ is not None and any(y["k"] in CALL_KINDS and (y.get("callee") or "").endswith("getSimRank") for y in walk(s_)) for s_ in srcs)
                src = srcs[0] if srcs else item
            else:
                ok = any(y["k"] in CALL_KINDS and (y.get("callee") or "").endswith("getSimRank") for y in walk(item))
            if not ok and item["k"] in ("IntLit",):
                continue
            n += 1
            chk.analysed(f)
            short = c["callee"].split("::")[-1]
            chk.ob("S7", "%s: item of %s passed to %s comes from Db::getSimRank" % (f.name, show(a[0]), short), f.loc(c), ok,
                   detail=None if ok else "the item `%s` = `%s` is not computed by Db::getSimRank(isimu, ivar, icase, nbsimu, nvar), the layout every "
                   "reader of the simulation columns (Db::getSimvar) uses: with several simulations AND several variables / GRFs the value lands in "
                   "the column of another (simulation, GRF)" % (show(item), show(src)[:60]),
                   key="S7|%s|%s" % (f.name, show(a[0])))
    chk.floor("S7", n, 3)


LOOPS = ("For", "While", "DoWhile", "Do", "ForRange")


def _assigned_in(L):
    """declarations written inside the loop L (assignment, compound assignment, ++/--, declaration)"""
    out = {}
    for x in walk(L):
        k = x["k"]
        if k in ("Assign", "CompoundAssign") or (k == "OpCall" and (x.get("op") or "").endswith("=") and x.get("op") not in ("==", "!=", "<=", ">=")):
            l = x["c"][0]
            while l is not None and l["k"] == "Cast":
                l = l["c"][0]
            if l is not None and l["k"] in ("DeclRefExpr", "MemberExpr"):
                out.setdefault(l.get("d") or l.get("n"), []).append(x)
        elif k == "UnOp" and (x.get("op") or "").replace("post", "").replace("pre", "") in ("++", "--"):
            l = x["c"][0]
            if l is not None and l["k"] in ("DeclRefExpr", "MemberExpr"):
                out.setdefault(l.get("d") or l.get("n"), []).append(x)
        elif k == "VarDecl":
            out.setdefault(x.get("d"), []).append(x)
    return out


def _invariant(e, written):
    """the expression has the same value at every iteration: no operand written in the loop, no generator-state read"""
    for x in walk(e):
        if x["k"] in ("DeclRefExpr", "MemberExpr") and (x.get("d") or x.get("n")) in written:
            return False
        if x["k"] in CALL_KINDS and (x.get("callee") or "") in (GET,):
            return False
        if x["k"] in CALL_KINDS and not (x.get("cconst") or (x.get("callee") or "").split("::")[-1].startswith(("get", "is"))):
            return False
    return True


def _zero(e):
    while e is not None and e["k"] == "Cast":
        e = e["c"][0]
    return e is not None and e["k"] in ("Int", "IntLit") and str(e.get("v")) == "0"


def s8(prog, ctx, chk):
    """S8 - no identical reseeding inside a loop.  A loop whose iterations are meant to draw different realisations (successive
    batches, successive GRFs, successive levels) must not set the generator from the same seed at each iteration: seed 0
    ("continue the current stream") or a seed that varies with the iteration are the two accepted forms.  For every call inside
    a loop that passes a seed (law_set_random_seed, or a seed parameter of a callee / constructor): the argument - or the
    in-loop assignment that reaches it - must not be a non-zero value that is the same at every iteration."""
    n = 0
    for f in sorted(prog.funcs, key=lambda x: (x.file, x.line)):
        if f.body is None or f.cfg is None:
            continue
        loops = [x for x in f.walk() if x["k"] in LOOPS]
        if not loops:
            continue
        g = None
        done = set()
        for L in loops:
            written = None
            for c in walk(L):
                if c["k"] not in CALL_KINDS:
                    continue
                cal = c.get("callee") or ""
                a = call_args(c)
                if cal == SET:
                    idx = [0]
                else:
                    tg = ctx.targets(c)
                    idx = sorted({i for t in tg for i, p in enumerate(t.params) if seedlike(p["n"]) and "int" in p["t"]})
                for i in idx:
                    if i >= len(a) or a[i] is None:
                        continue
                    e = a[i]
                    while e["k"] == "Cast":
                        e = e["c"][0]
                    if written is None:
                        written = _assigned_in(L)
                    bad = None
                    if _zero(e):
                        pass
                    elif _invariant(e, written):
                        bad = "the seed `%s` has the same value at every iteration" % show(e)
                    elif e["k"] in ("DeclRefExpr", "MemberExpr") and (e.get("d") or e.get("n")) in written:
                        key = e.get("d") or e.get("n")
                        if g is None:
                            g = CFG(f)
                        for asg in written[key]:
                            if asg["k"] not in ("Assign", "VarDecl"):
                                continue
                            rhs = asg["c"][1] if asg["k"] == "Assign" else (asg["c"][0] if asg.get("c") else None)
                            if rhs is None or _zero(rhs) or not _invariant(rhs, written):
                                continue
                            others = {o["i"] for o in written[key] if o["i"] != asg["i"]}
                            if g.pos_of(asg) is None or g.pos_of(c) is None:
                                continue
                            if g.search(g.after(asg), is_target=lambda y, c=c: y["i"] == c["i"], is_barrier=lambda y, others=others: y["i"] in others) is not None:
                                bad = "`%s` is set to `%s` (same value at every iteration) inside the loop and reaches the call unchanged" % (show(e), show(rhs))
                                break
                    k = (c["i"], i)
                    if k in done and bad is None:
                        continue
                    if k in done and bad is not None and any(o.get("key") == "S8|%s|%s#%d" % (f.name, cal.split("::")[-1], _ord(f, c)) and o["verdict"] != "ok" for o in chk.obs):
                        continue
                    done.add(k)
                    n += 1
                    chk.analysed(f)
                    short = cal.split("::")[-1]
                    chk.ob("S8", "%s: `%s(.. %s ..)` inside a %s loop does not restart the same random stream at each iteration" % (f.name, short, show(e)[:30], L["k"]),
                           f.loc(c), bad is None,
                           detail=None if bad is None else bad + ": every iteration reseeds the generator identically and draws the same numbers again, "
                           "the realisations produced by successive iterations are copies of each other (accepted forms: seed 0 = continue the "
                           "stream, or a seed depending on the iteration)",
                           key="S8|%s|%s#%d" % (f.name, short, _ord(f, c)), nontrivial=bad is not None)
    chk.floor("S8", n, 8)


def s9(prog, chk):
    """S9 - a conditioning loop that fetched the activity of the samples uses it.  In a function that takes `A = db->getActiveArray()`, every
    loop over the samples of that data base (`ip < db->getSampleNumber()`) that reads a sample of it tests `A[ip]`: the point-target branch of
    the final copy of the data onto coinciding targets must skip the masked data like the grid-target branch does, or a masked duplicate
    (sitting before the active datum) is what the target receives."""
    def strip(e):
        while e is not None and e["k"] in ("Cast", "Paren") and e.get("c"):
            e = e["c"][0]
        return e
    n = 0
    for f in sorted(prog.funcs, key=lambda x: (x.file, x.line)):
        if f.body is None:
            continue
        arrays = {}
        for x in f.walk():
            if x["k"] == "VarDecl" and x.get("c") and x["c"][0] is not None:
                for z in walk(x["c"][0]):
                    if z["k"] == "MCall" and (z.get("callee") or "").split("::")[-1] == "getActiveArray":
                        o = call_obj(z)
                        arrays[show(o) if o is not None and o["k"] != "This" else "this"] = (x["d"], x["n"])
        if not arrays:
            continue
        for L in f.walk():
            if L["k"] != "For" or len(L["c"]) < 4 or L["c"][1] is None or L["c"][3] is None:
                continue
            bound = None
            for z in walk(L["c"][1]):
                if z["k"] == "MCall" and (z.get("callee") or "").split("::")[-1] == "getSampleNumber":
                    o = call_obj(z)
                    bound = show(o) if o is not None and o["k"] != "This" else "this"
            if bound not in arrays:
                continue
            c = strip(L["c"][1])
            lv = None
            for z in walk(c):
                if z["k"] == "BinOp" and z.get("op") == "<" and strip(z["c"][0]) is not None and strip(z["c"][0])["k"] == "DeclRefExpr":
                    lv = strip(z["c"][0])
                    break
            if lv is None:
                continue
            reads = [z for z in walk(L["c"][3]) if z["k"] == "MCall" and call_obj(z) is not None and show(call_obj(z)) == bound and
                     any(a is not None and strip(a) is not None and strip(a)["k"] == "DeclRefExpr" and strip(a).get("d") == lv["d"] for a in call_args(z))]
            if not reads:
                continue
            n += 1
            d_arr, n_arr = arrays[bound]
            gated = any(z["k"] in ("Index", "OpCall") and z.get("c") and strip(z["c"][0]) is not None and strip(z["c"][0]).get("d") == d_arr and
                        strip(z["c"][-1]) is not None and strip(z["c"][-1]).get("d") == lv["d"] for y in walk(L["c"][3]) if y["k"] == "If" and y["c"][-3] is not None
                        for z in walk(y["c"][-3]))
            chk.analysed(f)
            chk.ob("S9", "%s: the loop over the samples of `%s` tests `%s[%s]`" % (f.name, bound, n_arr, lv["n"]), f.loc(L), gated,
                   detail=None if gated else "the loop reads `%s` for every rank without consulting the activity array the function fetched: a masked "
                   "sample takes part in the conditioning" % show(reads[0])[:50], key="S9|%s|%s|%d" % (f.name, bound, n))
    chk.floor("S9", n, 6)


def s10(prog, chk):
    """S10 - the two bounds of an interval are standardised alike.  Before a bounded Gaussian draw the sampler turns the bounds into bounds
    for the standard normal: `if (!FFFF(vmin)) vmin = (vmin - m) / s; if (!FFFF(vmax)) vmax = (vmax - m) / s;`.  Both statements must use the
    same mean and the same standard deviation, or the value drawn (and scaled back with `s`) can lie beyond the upper bound."""
    def strip(e):
        while e is not None and e["k"] in ("Cast", "Paren") and e.get("c"):
            e = e["c"][0]
        return e

    def form(s_):
        if s_["k"] != "If" or s_["c"][-1] is not None or s_["c"][-2] is None or s_["c"][-3] is None:
            return None
        t = s_["c"][-2]
        if t["k"] == "Block":
            cs = [c for c in t.get("c") or [] if c]
            if len(cs) != 1:
                return None
            t = cs[0]
        t = strip(t)
        if t["k"] != "Assign" or t.get("op") != "=" or not any(z["k"] == "Call" and (z.get("callee") or "") == "FFFF" for z in walk(s_["c"][-3])):
            return None
        r = strip(t["c"][1])
        if r is None or r["k"] != "BinOp" or r.get("op") != "/":
            return None
        num = strip(r["c"][0])
        if num is None or num["k"] != "BinOp" or num.get("op") != "-":
            return None
        return show(strip(t["c"][0])), show(strip(num["c"][1])), show(strip(r["c"][1])), t
    n = 0
    for f in sorted(prog.funcs, key=lambda x: (x.file, x.line)):
        if f.body is None:
            continue
        for B in f.walk():
            if B["k"] != "Block":
                continue
            st = [s_ for s_ in B.get("c") or [] if s_]
            for a, b in zip(st, st[1:]):
                fa, fb = form(a), form(b)
                if not fa or not fb or fa[0] == fb[0]:
                    continue
                n += 1
                ok = fa[1:3] == fb[1:3]
                chk.analysed(f)
                chk.ob("S10", "%s: `%s` and `%s` are standardised with the same mean and deviation" % (f.name, fa[0], fb[0]), f.loc(fb[3]), ok,
                       detail=None if ok else "`%s` uses (%s, %s) and `%s` uses (%s, %s): the interval handed to the bounded draw is not the one of the "
                       "constraint" % (fa[0], fa[1], fa[2], fb[0], fb[1], fb[2]), key="S10|%s|%s" % (f.name, fb[0]))
    chk.floor("S10", n, 3)


def s11(prog, chk, classes):
    """S11 - a simulator starts each calculation from scratch.  In the classes that store a seed, a scalar member that the calculation only
    ever increases (`m += x`, `if (m < v) m = v`) is also plainly assigned by a method (not only by the constructor): otherwise the second
    simulation run on the same object with the same seed works with the extension / counts left by the first one and differs from it."""
    def strip(e):
        while e is not None and e["k"] in ("Cast", "Paren") and e.get("c"):
            e = e["c"][0]
        return e

    def member(e):
        e = strip(e)
        if e is not None and e["k"] == "MemberExpr" and e.get("mk") == "field" and (not e.get("c") or e["c"][0] is None or e["c"][0]["k"] == "This"):
            return e["n"]
        return None
    n = 0
    for K in classes:
        meths = [f for f in prog.funcs if f.cls == K and f.body is not None]
        acc, plain = {}, {}
        for f in meths:
            for x in f.walk():
                if x["k"] in ("Assign", "CompoundAssign") and x.get("op") == "+=" and member(x["c"][0]):
                    acc.setdefault(member(x["c"][0]), []).append((f, x))
                if x["k"] == "If" and x["c"][-3] is not None and x["c"][-2] is not None:
                    c = strip(x["c"][-3])
                    if c["k"] == "BinOp" and c.get("op") in ("<", ">") and member(c["c"][0]):
                        m = member(c["c"][0])
                        for y in walk(x["c"][-2]):
                            if y["k"] == "Assign" and y.get("op") == "=" and member(y["c"][0]) == m and show(strip(y["c"][1])) == show(strip(c["c"][1])):
                                acc.setdefault(m, []).append((f, y))
        for f in meths:
            if f.kind == "ctor":
                continue
            for x in f.walk():
                if x["k"] == "Assign" and x.get("op") == "=" and member(x["c"][0]) in acc:
                    m = member(x["c"][0])
                    if not any(member(z) == m for z in walk(x["c"][1])) and not any(x is y for _, y in acc[m]):
                        plain.setdefault(m, []).append((f, x))
        for m, v in sorted(acc.items()):
            n += 1
            ok = m in plain
            f0, x0 = v[0]
            chk.analysed(f0)
            chk.ob("S11", "%s::%s, which %s only increases, is reset by a method" % (K, m, f0.short), f0.loc(x0), ok,
                   detail=None if ok else "no method assigns `%s` afresh: a second simulation on the same object starts from the value the first one left "
                   "(same inputs, same seed, different result)" % m, key="S11|%s|%s" % (K, m))
    chk.floor("S11", n, 2)


def s12(prog, chk):
    from e1_paths import peel_cond
    """S12 - the seed the library reports is the state of the generator.  `law_get_random_seed()` returns the file-static `Random_value`, and
    the simulators use it to give each band / simulation its own seed and to save / restore the stream.  Every branch of a drawing primitive
    must therefore advance `Random_value`: the branch of the new-style generator (`Random_gen`) never does, so with
    law_set_old_style(false) the value reported is a constant and every band, simulation and variable is given the same seed."""
    n = 0
    for f in sorted(prog.funcs, key=lambda x: (x.file, x.line)):
        if f.body is None or not f.file.endswith("src/Basic/Law.cpp"):
            continue
        for x in f.walk():
            if x["k"] != "If" or x["c"][-3] is None or x["c"][-1] is None:
                continue
            core, pol = peel_cond(x["c"][-3])
            if core is None or core["k"] != "DeclRefExpr" or core.get("n") != "Random_Old_Style":
                continue
            new_branch = x["c"][-1] if pol else x["c"][-2]
            if new_branch is None or not any(z["k"] == "DeclRefExpr" and z.get("n") == "Random_gen" for z in walk(new_branch)):
                continue
            n += 1
            adv = any(z["k"] in ("Assign", "CompoundAssign") and z["c"][0] is not None and z["c"][0]["k"] == "DeclRefExpr" and z["c"][0].get("n") == "Random_value"
                      for z in walk(new_branch)) or any(z["k"] == "Call" and (z.get("callee") or "") in ("law_uniform", "law_gaussian") for z in walk(new_branch))
            chk.analysed(f)
            chk.ob("S12", "%s: the new-style branch advances the seed that law_get_random_seed() reports" % f.name, f.loc(x), adv,
                   detail=None if adv else "the branch draws from `Random_gen` and leaves `Random_value` untouched: law_get_random_seed() returns the same "
                   "value before and after the draw", key="S12|%s" % f.name)
    chk.floor("S12", n, 3)


def s13(prog, chk, tier="quick"):
    """S13 - the relaxation of the Gibbs bounds is over when the last iteration runs.  `AGibbs::_getBoundsDecay(iter, &vmin, &vmax)` widens the
    interval of a datum during the burning stage; the values of the LAST iteration are the ones stored, so for every pair (nburn, niter) the
    function must leave the bounds alone at iter = niter - 1 (and never divide by zero).  Decided by evaluating the function body exactly
    (rational arithmetic, rules/c18.py interpreter) on every pair of a small box: the function only compares and scales by iter / nburn."""
    from fractions import Fraction
    from c18 import Interp2, Obj
    from e6_abseval import Return, Unsupported
    f = prog.fn("AGibbs::_getBoundsDecay")
    run = prog.fn("AGibbs::run")
    chk.analysed(f)
    # the last iteration is getNiter() - 1 (read from the loop of AGibbs::run)
    loops = [L for L in run.walk() if L["k"] == "For" and L["c"][1] is not None and "getNiter" in show(L["c"][1]) and "<" in show(L["c"][1])]
    chk.ob("S13", "AGibbs::run iterates `iter < getNiter()`", run.loc(loops[0]) if loops else run.loc(), bool(loops),
           detail=None if loops else "the iteration loop of AGibbs::run is not recognised any more: re-read what the last iteration is", key="S13|loop")

    class I(Interp2):
        def ev(self, n):
            if n is not None and n["k"] == "UnOp" and n.get("op") == "*":
                cell = Interp2.ev(self, n["c"][0])
                if isinstance(cell, list):
                    return cell[0]
                raise Unsupported("dereference")
            return Interp2.ev(self, n)

        def run(self, n):
            if n is not None and n["k"] == "Assign" and n["c"][0] is not None and n["c"][0]["k"] in ("UnOp", "Paren"):
                t = n["c"][0]
                while t["k"] == "Paren":
                    t = t["c"][0]
                if t["k"] == "UnOp" and t.get("op") == "*":
                    cell = Interp2.ev(self, t["c"][0])
                    v = self.ev(n["c"][1])
                    if n.get("op") != "=" or not isinstance(cell, list):
                        raise Unsupported("store through a pointer")
                    cell[0] = v
                    return
            return Interp2.run(self, n)

        def hook(self, n, _self):
            short = (n.get("callee") or "").split("::")[-1]
            a = call_args(n)
            if short in ("MIN", "MAX") and len(a) == 2:
                x, y = self.ev(a[0]), self.ev(a[1])
                return min(x, y) if short == "MIN" else max(x, y)
            return Interp2.hook(self, n, _self)
    box = 6 if tier == "quick" else 12
    n = 0
    bad = None
    for nburn in range(0, box + 1):
        for niter in range(1, box + 1):
            this = Obj("AGibbs", _flagDecay=True, _nburn=Fraction(nburn), _niter=Fraction(niter))
            lo, hi = [Fraction(-1)], [Fraction(2)]
            env = {f.params[0]["d"]: Fraction(niter - 1), f.params[1]["d"]: lo, f.params[2]["d"]: hi,
                   "THRESH_INF": Fraction(-10), "THRESH_SUP": Fraction(10)}
            it = I(prog, this, env)
            n += 1
            try:
                it.run(f.body)
            except Return:
                pass
            except ZeroDivisionError:
                bad = bad or (nburn, niter, "division by zero")
                continue
            if (lo[0], hi[0]) != (Fraction(-1), Fraction(2)) and bad is None:
                bad = (nburn, niter, "bounds [-1, 2] become [%s, %s]" % (lo[0], hi[0]))
    chk.extra["S13_pairs_evaluated"] = n
    chk.ob("S13", "AGibbs::_getBoundsDecay leaves the bounds alone at the last iteration for every (nburn, niter) of [0,%d]x[1,%d]" % (box, box), f.loc(), bad is None,
           detail=None if bad is None else "nburn = %d, niter = %d, iter = %d: %s - the values stored by the sampler are drawn within relaxed bounds and may lie "
           "outside the interval of the datum" % (bad[0], bad[1], bad[1] - 1, bad[2]), key="S13|decay")


def _ord(f, c):
    """ordinal of the call among the calls of the same callee in f (position-independent key)"""
    same = [x["i"] for x in f.calls() if x.get("callee") == c.get("callee")]
    return same.index(c["i"]) if c["i"] in same else 0


def main(tier):
    chk = Check("C13", tier,
                "Static seeding and indexing discipline only: every function taking a seed and every class storing one sets the "
                "process-wide generator from that seed on every CFG path before its first (transitive) draw; no seed is "
                "stored and never used; temporary reseeding is undone on every exit; the Gibbs samplers address the data base with sample "
                "ranks, never with ranks among active samples; conditioning loops skip an undefined datum without stopping. Necessary conditions of 'same inputs "
                "and seed give the same result' and of 'bounds / data are those of the sample simulated'; bit-identity, distinct seeds "
                "giving distinct results, exactness of the conditioning kriging and the bounded draws themselves are NOT decided.")
    d = os.environ.get("GSA_REUSE") or extract(facts.all_units(), "C13-" + tier)
    prog = Program().load_dir(d)
    dh, excluded = facts.extract_headers("C13h-" + tier)
    prog.load_dir(dh)
    chk.units = list(prog.units)
    ctx = Ctx(prog)
    ctx.build()
    chk.extra["random_primitives"] = sorted(prog.by_usr[u].name for u in ctx.prim)
    chk.extra["functions_that_may_draw"] = len(ctx.draw)

    an = Analyzer(ctx)
    seeded_classes = sorted(c for c in prog.classes if seed_fields_of(prog, c))
    chk.extra["classes_with_a_seed_field"] = seeded_classes
    # classes whose seed is the generator seed of their calculation: a field that a constructor / setter fills
    # from a seed parameter and that some seeding call reads
    primary = {}
    for c in seeded_classes:
        for fl in prog.classes[c].get("fields", []):
            if seedlike(fl["n"]) and "int" in fl["t"]:
                readers = [f for f in prog.funcs if f.cls in [c] + prog.derived(c) and
                           any(n["k"] == "Call" and n.get("callee") == SET and an.sources(f, f.cls)[1](call_args(n)[0] if call_args(n) else None)
                               for n in f.walk())]
                if readers:
                    primary.setdefault(c, []).append(fl["n"])
    chk.extra["classes_seeding_from_a_stored_seed"] = primary

    # --- S1: functions with a seed parameter
    n1 = 0
    for f in sorted(prog.funcs, key=lambda x: x.name):
        sp = [p for p in f.params if seedlike(p["n"]) and "int" in p["t"]]
        if not sp or f.name == SET or f.cfg is None:
            continue
        chk.analysed(f)
        if not may_draw(ctx, f):
            ev, dep = an.classify(f, None)
            used = any(dep(n) for n in f.walk() if n["k"] in ("Assign", "Call", "MCall", "Construct", "Return")) or \
                any(i.get("init") is not None and dep(i["init"]) for i in f.d.get("inits", []))
            n1 += 1
            chk.ob("S1'", "%s: the seed parameter is stored or forwarded" % f.sig(), f.loc(), used,
                   detail=None if used else "the seed argument is ignored",
                   key="S1'|%s|param" % f.name)
            continue
        wit, g, ev, eo, is_seed = an.unseeded_draw(f, f.cls or None)
        n1 += 1
        chk.ob("S1", "%s: generator seeded from `%s` before the first draw on every path" % (f.sig(), sp[0]["n"]), f.loc(),
               wit is None,
               detail=None if wit is None else "a path reaches a random draw (%s) before any law_set_random_seed(<seed>) / forwarding of the "
               "seed: the result depends on the generator state left by earlier calls, not on the seed" % show(wit["hit"])[:60],
               key="S1|%s" % f.name, path=None if wit is None else g.describe(wit))
    chk.floor("S1", n1, 55)

    # --- S2: classes seeding from a stored seed: the stage entry `_run` and the public drawing methods of every
    #     concrete class of the hierarchy
    n2 = 0
    for base in sorted(primary):
        if "ACalculator" not in prog.bases(base):
            chk.notes.append("class %s seeds from special-purpose stored seeds %s: judged by S1' (the seed reaches a seeding "
                             "call) only, its drawing methods run under the seeding of their callers" % (base, primary[base]))
            continue
        for K in [base] + sorted(prog.derived(base)):
            if prog.classes.get(K, {}).get("abstract"):
                continue
            entries = {}
            r = prog.method_impl(K, "_run")
            if r is not None and r.cfg is not None:
                entries[r.usr] = r
            for m in prog.funcs:
                if m.cls == K and m.kind == "method" and m.d.get("access") == "public" and m.cfg is not None and \
                        not any(seedlike(p["n"]) for p in m.params) and may_draw(ctx, m):
                    entries[m.usr] = m
            for m in sorted(entries.values(), key=lambda x: x.name):
                chk.analysed(m)
                wit, g, ev, eo, is_seed = an.unseeded_draw(m, K)
                n2 += 1
                chk.ob("S2", "%s (as %s): generator seeded from the stored seed before the first draw on every path" % (m.name, K),
                       m.loc(), wit is None,
                       detail=None if wit is None else "the class stores the seed of its calculation but this entry point reaches a random "
                       "draw (%s) without law_set_random_seed(<stored seed>) first" % show(wit["hit"])[:60],
                       key="S2|%s|%s" % (K, m.name), path=None if wit is None else g.describe(wit))
    chk.floor("S2", n2, 8)

    # --- S1' for fields: every stored seed is read by some seeding / delegation
    nf = 0
    for c in seeded_classes:
        own = [fl for fl in prog.classes[c].get("fields", []) if seedlike(fl["n"]) and "int" in fl["t"]]
        for fl in own:
            nf += 1
            hier = [c] + prog.derived(c)
            used = False
            getters = set()
            for f in prog.funcs:
                if f.cls in hier:
                    for r in f.walk():
                        if r["k"] == "Return" and r.get("c") and r["c"][0] is not None and r["c"][0]["k"] == "MemberExpr" and r["c"][0]["n"] == fl["n"]:
                            getters.add(f.name)
            for f in prog.funcs:
                for n in f.walk():
                    if n["k"] not in CALL_KINDS:
                        continue
                    cal = n.get("callee") or ""
                    tg = ctx.targets(n)
                    is_sink = cal == SET or any(seedlike(p["n"]) for t in tg for p in t.params)
                    if not is_sink:
                        continue
                    for a in call_args(n):
                        for x in walk(a) if a is not None else []:
                            if x["k"] == "MemberExpr" and x["n"] == fl["n"] and f.cls in hier:
                                used = True
                            if x["k"] == "MCall" and x.get("callee") in getters:
                                used = True
            chk.ob("S1'", "%s::%s reaches a seeding call" % (c, fl["n"]), "%s:%d" % (os.path.relpath(prog.classes[c]["file"], REPO), prog.classes[c]["line"]),
                   used, detail=None if used else "the seed is stored in %s::%s but nothing ever seeds the generator from it: the "
                   "draws made on behalf of this object ignore the seed the caller gave" % (c, fl["n"]),
                   key="S1'|%s::%s" % (c, fl["n"]))
    chk.floor("S1'-fields", nf, 3)

    # --- S3: temporary reseeding restored on every exit
    n3 = 0
    for f in sorted(prog.funcs, key=lambda x: x.name):
        if f.cfg is None:
            continue
        memos = {}
        for n in f.walk():
            rhs = None
            if n["k"] == "VarDecl" and n.get("c"):
                tgt, rhs = n["d"], n["c"][0]
            elif n["k"] == "Assign" and n["c"][0] is not None and n["c"][0]["k"] == "DeclRefExpr":
                tgt, rhs = n["c"][0]["d"], n["c"][1]
            if rhs is not None and rhs["k"] == "Call" and rhs.get("callee") == GET:
                memos[tgt] = n
        if not memos:
            continue
        g = CFG(f)
        for d_, site in memos.items():
            restores = [n for n in f.calls(SET) if call_args(n) and call_args(n)[0] is not None and
                        call_args(n)[0]["k"] == "DeclRefExpr" and call_args(n)[0]["d"] == d_]
            reseeds = [n for n in f.calls(SET) if n not in restores]
            if not restores and not reseeds:
                continue
            n3 += 1
            chk.analysed(f)
            bad = None
            for r in reseeds:
                st = g.after(r)
                # only reseeds that happen after the memo was taken
                if g.reach_without(g.after(site), r) is None:
                    continue
                w = g.search_consistent(st, to_exit=True, _assume=g.implied_at(r),
                                        is_barrier=lambda n: any(n["i"] == x["i"] for x in restores))
                if w is not None:
                    bad = (r, w)
                    break
            chk.ob("S3", "%s: generator state saved with law_get_random_seed() is restored on every exit after reseeding" % f.name,
                   f.loc(site), bad is None,
                   detail=None if bad is None else "the function reseeds the process-wide generator temporarily and an exit skips the "
                   "law_set_random_seed(<saved>) that undoes it",
                   key="S3|%s" % f.name, path=None if bad is None else g.describe(bad[1]))
    chk.floor("S3", n3, 1)
    import c13_kinds
    c13_kinds.s4(prog, chk)
    # S5: conditioning loops skip an undefined datum, they do not stop at it (shared rule with C05d, simulation sources only)
    import c05_skip
    c05_skip.rule_d(prog, chk, 0, rule="S5", only_files=("src/Simulation/", "src/Core/simtub", "src/Gibbs/", "src/LithoRule/"))
    c05_skip.positive_control(chk, "S5", tier)
    # S6: a rank of the target data base never indexes the data (conditioning reads the datum that coincides with the target)
    c05_skip.rank_owner_rule(prog, chk, "S6", ("src/Simulation/", "src/Core/simtub", "src/Gibbs/", "src/LithoRule/"), 20)
    s7(prog, chk)
    s8(prog, ctx, chk)
    s9(prog, chk)
    s10(prog, chk)
    s11(prog, chk, seeded_classes)
    s12(prog, chk)
    s13(prog, chk, tier)
    for k in sorted(an.assumed):
        chk.assumptions.append("draw %s in %s treated as seeded: %s" % (k[1], k[0], ASSUMED_SEEDED[k]))
    return chk.finish()
