"""C13 / S4 - index kinds of the Gibbs samplers (E5): a *rank among the active samples* (0.._getSampleRankNumber()-1,
the index of the Gaussian vectors y[icase][iact]) and a *sample rank of the data base* are different kinds of integer.
The bounds, the coordinates and the stored Gaussian values of a sample are read / written in the Db with
getSampleRank(iact), never with iact itself; with a selection the two differ, and the sampler would read the bounds of
another sample (values outside their own bounds).  Kinds are inferred from the code: a loop variable bounded by
_getSampleRankNumber() is ACT; the result of getSampleRank() and a loop variable bounded by db->getSampleNumber() are
ABS; a parameter has the kind of the actual arguments at all its call sites (fixpoint)."""
import gates
from e1_paths import single_def
from facts import call_args, call_obj, show, walk, CALL_KINDS

ACT, ABS = "ACT", "ABS"


def in_gibbs(prog, cls):
    return cls == "AGibbs" or "AGibbs" in prog.bases(cls)


class GKinds:
    def __init__(self, prog, funcs):
        self.prog = prog
        self.funcs = funcs
        self.param_kind = {}      # (usr, index) -> kind
        self.loopbound = {}
        for f in funcs:
            lb = {}
            for loop in f.walk():
                if loop["k"] != "For" or loop["c"][1] is None:
                    continue
                for x in walk(loop["c"][1]):
                    if x["k"] == "BinOp" and x.get("op") == "<" and x["c"][0] is not None and x["c"][0]["k"] == "DeclRefExpr":
                        lb.setdefault(x["c"][0]["d"], []).append(x["c"][1])
            self.loopbound[f.usr] = lb

    def bound_kind(self, f, b, depth=0):
        if b is None or depth > 3:
            return None
        if b["k"] == "Cast":
            return self.bound_kind(f, b["c"][0], depth + 1)
        if b["k"] == "MCall":
            short = (b.get("callee") or "").split("::")[-1]
            if short in ("_getSampleRankNumber",):
                return ACT
            if short == "getSampleNumber" and (b.get("cls") or "").startswith("Db"):
                a = call_args(b)
                if a and a[0] is not None and a[0]["k"] == "Bool" and a[0]["v"] is True:
                    return None
                return ABS
        if b["k"] == "DeclRefExpr" and b.get("dk") == "var":
            d = single_def(f, b["d"])
            if d is not None and d is not b:
                return self.bound_kind(f, d, depth + 1)
        return None

    def kind(self, f, e, depth=0):
        if e is None or depth > 4:
            return None
        k = e["k"]
        if k == "Cast":
            return self.kind(f, e["c"][0], depth + 1)
        if k == "MCall" and (e.get("callee") or "").endswith("AGibbs::getSampleRank"):
            return ABS
        if k == "DeclRefExpr" and e.get("dk") == "var":
            lb = self.loopbound[f.usr].get(e["d"])
            if lb:
                ks = {self.bound_kind(f, b) for b in lb}
                return ks.pop() if len(ks) == 1 else None
            d = single_def(f, e["d"])
            if d is not None and d is not e:
                return self.kind(f, d, depth + 1)
        if k == "DeclRefExpr" and e.get("dk") == "parm":
            for i, p in enumerate(f.params):
                if p["d"] == e["d"]:
                    return self.param_kind.get((f.name, len(f.params), i))
        return None

    def solve_params(self):
        """parameter kinds from the actual arguments (all call sites of the Gibbs units agree), to a fixpoint"""
        for _ in range(6):
            seen = {}
            for f in self.funcs:
                for c in f.calls():
                    if c["k"] not in ("MCall", "Call") or not c.get("callee"):
                        continue
                    cal = c["callee"]
                    cls = cal.rsplit("::", 1)[0] if "::" in cal else ""
                    if not in_gibbs(self.prog, cls):
                        continue
                    args = call_args(c)
                    # every override shares the parameter meaning
                    short = cal.split("::")[-1]
                    for i, a in enumerate(args):
                        kd = self.kind(f, a)
                        seen.setdefault((short, len(args), i), set()).add(kd)
            new = {}
            for (short, na, i), ks in seen.items():
                ks = ks - {None} if len(ks - {None}) == 1 and None in ks and False else ks
                if len(ks) == 1 and None not in ks:
                    for g in self.funcs:
                        if g.short == short and len(g.params) == na:
                            new[(g.name, na, i)] = next(iter(ks))
            if new == self.param_kind:
                break
            self.param_kind = new


def s4(prog, chk):
    funcs = [f for f in prog.funcs if f.body is not None and f.cls and in_gibbs(prog, f.cls)]
    K = GKinds(prog, funcs)
    K.solve_params()
    n = nk = 0
    for f in sorted(funcs, key=lambda x: (x.file, x.line)):
        ordn = {}
        for c in f.walk():
            sinks = []
            if c["k"] == "MCall" and (c.get("cls") or "").startswith("Db"):
                ri = gates.rank_arg_index(prog, c)
                a = call_args(c)
                if ri is not None and ri < len(a):
                    sinks.append((a[ri], ABS, "sample rank of the Db in %s" % (c.get("callee") or "").split("::")[-1]))
            elif c["k"] == "MCall" and (c.get("callee") or "").endswith("AGibbs::getSampleRank"):
                a = call_args(c)
                if a:
                    sinks.append((a[0], ACT, "argument of getSampleRank"))
            for arg, want, what in sinks:
                kd = K.kind(f, arg)
                n += 1
                if kd is not None:
                    nk += 1
                chk.analysed(f)
                ok = kd is None or kd == want
                name = show(arg)[:30]
                ordn[(what, name)] = ordn.get((what, name), 0) + 1
                chk.ob("S4", "%s: %s receives `%s` (%s)" % (f.name, what, name, {None: "kind not inferred", ACT: "rank among the active samples",
                                                                                  ABS: "sample rank of the Db"}[kd]), f.loc(c), ok,
                       detail=None if ok else "`%s` is a %s but this %s: with a selection the sampler reads / writes the bounds or values of another "
                       "sample, and the simulated Gaussian values no longer lie within the bounds of their own sample" % (
                           name, {ACT: "rank among the active samples", ABS: "sample rank of the Db"}[kd], what),
                       key="S4|%s/%d|%s|%s#%d" % (f.name, len(f.params), what, name, ordn[(what, name)]), nontrivial=kd is not None)
    chk.extra["gibbs_param_kinds"] = sorted("%s/%d #%d: %s" % (a, b, i, k) for (a, b, i), k in K.param_kind.items())
    chk.floor("S4", n, 25)
    chk.floor("S4-kinded", nk, 20)
